"""C07 bounded stand-in: join and meet are the least upper and greatest lower bounds.

Run-time contract on the real Lattice.join / Lattice.meet (n-ary, list and generator arguments, empty
collection) and on Concept.join / Concept.meet / | / & (binary), against the order of the brute-force
oracle (extent inclusion over the table's closed sets, bounded.common.Oracle): the result must be the
member concept whose extent is Cl(union of extents) resp. the intersection of extents, it must be an
upper (lower) bound of the arguments and below (above) every other upper (lower) bound, and the binary
forms must return the identical object and obey the lattice laws.
"""
import random

from . import common
from .common import Oracle, fail, idx

RULE = ('cases = boolean tables (K scopes of DESIGN 3.4); per table: the empty collection, every singleton, all '
        'ordered pairs of concepts (binary methods, operators and the 2-element list/generator forms), all triples '
        '(<= 8 concepts) or 150 seeded triples for associativity, and 60 seeded multisets of 3..6 concepts with '
        'repeats plus the list of all concepts for the n-ary forms; non-trivial = table with >= 2 concepts, '
        'distinct up to row/column permutation')
SCOPE = {'quick': 'all tables <= 3x3, structured families <= 4, 40 random <= 6x6, 3 wide tables (> 64 bit)',
         'thorough': 'all tables with n*m <= 12, structured families <= 6, 400 random <= 7x7, 6 wide tables'}

MAX_FAIL = 10

C_JOIN = ('lattice.join returns the least concept that is above all of them (extent = closure of the union of '
          'extents)')
C_MEET = 'lattice.meet returns the greatest concept below all of them (extent = intersection of extents)'
C_EMPTY = 'the empty join is the infimum and the empty meet the supremum'
C_BIN = 'the binary concept methods join/meet and operators | and & agree with this'
C_LAWS = ('they satisfy commutativity, associativity, idempotence, absorption and x <= y iff x | y is y iff '
          'x & y is x')


def gen_cases(tier, rng):
    yield from common.standard_cases(tier, rng)
    # member number 63 (the last bit of the first 64-bit word) decides a closure (seeded C07-K: a word-wise scan with a 63-bit mask):
    # properties: a = {p63}, b = {p63, p0}, c = {p1}; objects: the 64 x 64 table where object i has exactly property i
    m = 64
    yield common.case_of_table([[j == 63 for j in range(m)], [j in (0, 63) for j in range(m)], [j == 1 for j in range(m)]], family='bit63-properties')
    yield common.case_of_table([[i == j for j in range(m)] for i in range(m)], family='diagonal-64')


def _mask(s):
    m = 0
    for i in s:
        m |= 1 << i
    return m


def check_case(case):
    out = []
    ctx = common.context_of_case(case)
    lat = ctx.lattice
    o = Oracle(case['rows'])
    cs = list(lat)
    N = len(cs)
    ext = [idx(c._extent) for c in cs]
    if len(set(ext)) != N or set(ext) != o.extents():
        return [fail('pre.concepts', 'precondition (C03): the lattice members are exactly the formal concepts, once each',
                     sorted(map(sorted, o.extents())), sorted(map(sorted, ext)))]
    m = [_mask(e) for e in ext]
    by_ext = {e: k for k, e in enumerate(ext)}
    pos = {id(c): k for k, c in enumerate(cs)}
    full = (1 << o.n) - 1
    allobj = frozenset(range(o.n))

    def show(k):
        return None if k is None else sorted(ext[k])

    def add(*a, **kw):
        out.append(fail(*a, **kw))
        return len(out) >= MAX_FAIL

    def check_nary(sel, got, what, form):
        """got = observed result of join/meet (what) over the concepts cs[k], k in sel. True = stop."""
        args = [sorted(ext[k]) for k in sel]
        clause = C_JOIN if what == 'join' else C_MEET
        g = pos.get(id(got))
        if g is None:
            return add(what + '.member', clause, 'a concept object of this lattice', repr(got), args=args, form=form)
        if what == 'join':
            u = frozenset().union(*[ext[k] for k in sel]) if sel else frozenset()
            exp = o.cl(u)
            um = _mask(u)
            bounds = [k for k in range(N) if um & ~m[k] == 0]           # oracle: all upper bounds
            extremal = g in bounds and all(m[g] & ~m[k] == 0 for k in bounds)
        else:
            exp = allobj.intersection(*[ext[k] for k in sel]) if sel else allobj
            im = _mask(exp)
            bounds = [k for k in range(N) if m[k] & ~im == 0]           # oracle: all lower bounds
            extremal = g in bounds and all(m[k] & ~m[g] == 0 for k in bounds)
        if ext[g] != exp:
            if add(what + '.extent', clause, sorted(exp), sorted(ext[g]), args=args, form=form):
                return True
        if not extremal:
            if add(what + ('.least' if what == 'join' else '.greatest'), clause,
                   {'bounds': [show(k) for k in bounds]}, show(g), args=args, form=form):
                return True
        return False

    # ---- empty collection
    for form, mk in (('list', list), ('generator', iter), ('tuple', tuple)):
        j, t = lat.join(mk([])), lat.meet(mk([]))
        if j is not lat.infimum or pos.get(id(j)) is None or any(m[pos[id(j)]] & ~m[k] for k in range(N)):
            if add('join.empty', C_EMPTY, 'the infimum (least concept)', repr(j), form=form):
                return out
        if t is not lat.supremum or pos.get(id(t)) is None or any(m[k] & ~m[pos[id(t)]] for k in range(N)):
            if add('meet.empty', C_EMPTY, 'the supremum (greatest concept)', repr(t), form=form):
                return out
        if check_nary([], j, 'join', form) or check_nary([], t, 'meet', form):
            return out

    # ---- singletons and idempotence
    for k, x in enumerate(cs):
        if check_nary([k], lat.join([x]), 'join', 'list') or check_nary([k], lat.meet([x]), 'meet', 'list'):
            return out
        for name, r in (('x | x', x | x), ('x & x', x & x), ('x.join(x)', x.join(x)), ('x.meet(x)', x.meet(x))):
            if r is not x:
                if add('law.idempotent', C_LAWS, show(k), repr(r), expr=name):
                    return out

    # ---- all ordered pairs: n-ary forms against the oracle, binary forms by identity, laws
    J = [[None] * N for _ in range(N)]
    M = [[None] * N for _ in range(N)]
    for a, x in enumerate(cs):
        for b, y in enumerate(cs):
            j = lat.join([x, y])
            t = lat.meet([x, y])
            if check_nary([a, b], j, 'join', 'list') or check_nary([a, b], t, 'meet', 'list'):
                return out
            jg = lat.join(c for c in (x, y))
            tg = lat.meet(c for c in (x, y))
            if jg is not j or tg is not t:
                if add('nary.generator', 'any finite collection of concepts (a generator is accepted like a list)',
                       [repr(j), repr(t)], [repr(jg), repr(tg)], args=[show(a), show(b)]):
                    return out
            J[a][b], M[a][b] = j, t
            for name, r in (('x.join(y)', x.join(y)), ('x | y', x | y)):
                if r is not j:
                    if add('binary.join.agree', C_BIN, repr(j), repr(r), expr=name, args=[show(a), show(b)]):
                        return out
            for name, r in (('x.meet(y)', x.meet(y)), ('x & y', x & y)):
                if r is not t:
                    if add('binary.meet.agree', C_BIN, repr(t), repr(r), expr=name, args=[show(a), show(b)]):
                        return out
            # absorption
            if (x | (x & y)) is not x or (x & (x | y)) is not x:
                if add('law.absorption', C_LAWS, show(a), [repr(x | (x & y)), repr(x & (x | y))],
                       args=[show(a), show(b)]):
                    return out
            # order characterisation: oracle order, the library's <=, x | y is y, x & y is x
            le = ext[a] <= ext[b]
            obs = [bool(x <= y), (x | y) is y, (x & y) is x]
            if obs != [le, le, le]:
                if add('law.order', C_LAWS, [le, le, le], obs, args=[show(a), show(b)],
                       columns=['x <= y', 'x | y is y', 'x & y is x']):
                    return out
    for a, x in enumerate(cs):
        for b, y in enumerate(cs):
            if (x | y) is not (y | x) or (x & y) is not (y & x):
                if add('law.commutative', C_LAWS, [repr(x | y), repr(x & y)], [repr(y | x), repr(y & x)],
                       args=[show(a), show(b)]):
                    return out

    # ---- associativity on triples (all when <= 8 concepts, else a seeded sample)
    rng = random.Random(7007)
    if N <= 8:
        triples = [(a, b, c) for a in range(N) for b in range(N) for c in range(N)]
    else:
        triples = [(rng.randrange(N), rng.randrange(N), rng.randrange(N)) for _ in range(150)]
    for a, b, c in triples:
        x, y, z = cs[a], cs[b], cs[c]
        l, r, n3 = (x | y) | z, x | (y | z), lat.join([x, y, z])
        if l is not r or l is not n3:
            if add('law.associative.join', C_LAWS, repr(n3), [repr(l), repr(r)], args=[show(a), show(b), show(c)]):
                return out
        l, r, n3 = (x & y) & z, x & (y & z), lat.meet([x, y, z])
        if l is not r or l is not n3:
            if add('law.associative.meet', C_LAWS, repr(n3), [repr(l), repr(r)], args=[show(a), show(b), show(c)]):
                return out

    # ---- larger multisets (with repeats), list and generator arguments
    multisets = [list(range(N)), list(range(N)) + list(range(N))]
    for _ in range(60):
        size = rng.randint(3, 6)
        sel = [rng.randrange(N) for _ in range(size)]
        if rng.random() < 0.5:
            sel.append(sel[0])        # a guaranteed repeat
        multisets.append(sel)
    for sel in multisets:
        concepts_ = [cs[k] for k in sel]
        j, t = lat.join(concepts_), lat.meet(concepts_)
        if check_nary(sel, j, 'join', 'list') or check_nary(sel, t, 'meet', 'list'):
            return out
        jg, tg = lat.join(c for c in concepts_), lat.meet(iter(concepts_))
        if jg is not j or tg is not t:
            if add('nary.generator', 'any finite collection of concepts (a generator is accepted like a list)',
                   [repr(j), repr(t)], [repr(jg), repr(tg)], args=[show(k) for k in sel]):
                return out
        # the n-ary result is the fold of the binary operation
        fj, ft = concepts_[0], concepts_[0]
        for c in concepts_[1:]:
            fj, ft = fj | c, ft & c
        if fj is not j or ft is not t:
            if add('binary.fold.agree', C_BIN, [repr(j), repr(t)], [repr(fj), repr(ft)], args=[show(k) for k in sel]):
                return out
    return out[:MAX_FAIL]
