"""C18 bounded stand-in: attributes() enumerates exactly the generating property sets, shortest first.

Run-time contract on the real Concept.attributes() / Concept.minimal() (and Lattice.__call__ for the
"regenerates" clause) of every concept, against a brute-force enumeration derived from the statement:
all subsets S of the intent (itertools.combinations by size over the property positions, i.e. ordered by
size and then by position) with Dn(S) = extent, Dn computed from the table columns.

Reading of the statement for the infimum: "the infimum's minimal() is its full intent" is taken as the
specific clause for the infimum, *also* when the infimum has a non-empty extent (then its attributes()
are still checked in full, but minimal() is compared with the full intent, not with the first yielded
set).  STRICT_INFIMUM_MINIMAL = True switches to the literal reading "minimal() is the first of them for
any concept with a non-empty extent", which the unchanged library does not satisfy (e.g. 1x1 table
[[True]]: attributes() = [(), ('pz',)], minimal() = ('pz',)).
"""
import itertools

from . import common
from .common import Oracle, fail, idx

MAX_INTENT = 12        # full powerset enumeration up to this intent size
PREFIX = 6             # beyond: only the first PREFIX yielded sets are compared (lazy on both sides)
MAX_FAIL = 10
STRICT_INFIMUM_MINIMAL = False

RULE = ('cases = boolean tables (K scopes of DESIGN 3.4); per table every concept; for a concept with non-empty '
        'extent and an intent of <= 12 properties the complete list of attributes() against the filtered powerset, '
        'for larger intents (wide tables only) the first 6 yielded sets against the first 6 of the lazily filtered '
        'powerset; non-trivial = table with >= 2 concepts, distinct up to row/column permutation')
SCOPE = {'quick': ('all tables <= 3x3, structured families <= 4, 40 random <= 6x6, 3 wide tables (> 64 bit), two 5x11 / 5x12 tables with a full row; intents '
                   'bounded: full enumeration only for intents of <= 12 properties, first 6 generators beyond'),
         'thorough': ('all tables with n*m <= 12, structured families <= 6, 400 random <= 7x7, 6 wide tables; intents '
                      'bounded: full enumeration only for intents of <= 12 properties, first 6 generators beyond')}

C_ATTR = ('for any concept with a non-empty extent, attributes() yields exactly those subsets of its intent whose '
          'common objects are the concept\'s extent, each once, ordered by size and then by property position')
C_MIN = 'minimal() is the first of them'
C_REGEN = 'every yielded set regenerates the concept via lattice(...)'
C_EMPTY = 'for a concept with empty extent attributes() yields just its full intent'
C_INF = 'the infimum\'s minimal() is its full intent'


def gen_cases(tier, rng):
    yield from common.standard_cases(tier, rng)
    # intents of 11 and 12 properties enumerated in full (seeded C18-K: a different subset walk above 10 properties): one object with
    # every property, the others with dense random rows, so that equal-sized generators differ in lexicographic vs. other orders
    for m in ((11, 12) if tier == 'quick' else (11, 12, 12, 12)):
        rows = [[True] * m] + [[rng.random() < 0.7 for _ in range(m)] for _ in range(4)]
        yield common.case_of_table(rows, family='tall-intent-%d' % m)


def check_case(case):
    out = []
    ctx = common.context_of_case(case)
    lat = ctx.lattice
    props = case['properties']
    o = Oracle(case['rows'])
    cs = list(lat)
    N = len(cs)
    ext = [idx(c._extent) for c in cs]
    int_ = [idx(c._intent) for c in cs]
    if len(set(ext)) != N or set(ext) != o.extents() or any(int_[k] != o.up(ext[k]) for k in range(N)):
        return [fail('pre.concepts', 'precondition (C03): the lattice members are exactly the formal concepts, once each',
                     sorted(map(sorted, o.extents())), sorted(map(sorted, ext)))]
    col = [sum(1 << i for i in range(o.n) if o.rows[i][j]) for j in range(o.m)]   # Dn({p_j}) as a mask
    full = (1 << o.n) - 1
    index_of = {s: j for j, s in enumerate(props)}

    def dn(S):
        r = full
        for j in S:
            r &= col[j]
        return r

    def generators(k):
        """The statement's enumeration, lazily: subsets of the intent by size then position with Dn(S) = extent."""
        e = sum(1 << i for i in ext[k])
        positions = sorted(int_[k])
        for r in range(len(positions) + 1):
            for S in itertools.combinations(positions, r):
                if dn(S) == e:
                    yield S

    def lab(S):
        return tuple(props[j] for j in S)

    def add(*a, **kw):
        out.append(fail(*a, **kw))
        return len(out) >= MAX_FAIL

    for k, c in enumerate(cs):
        concept = {'extent': sorted(ext[k]), 'intent': sorted(int_[k])}
        full_intent = lab(sorted(int_[k]))
        is_inf = c is lat.infimum
        if not ext[k]:
            got = list(itertools.islice(c.attributes(), 3))
            if got != [full_intent]:
                if add('attributes.empty-extent', C_EMPTY, [full_intent], got, concept=concept):
                    return out
        else:
            bounded = len(int_[k]) <= MAX_INTENT
            if bounded:
                exp = [lab(S) for S in generators(k)]
                got = list(c.attributes())
            else:
                exp = [lab(S) for S in itertools.islice(generators(k), PREFIX)]
                got = list(itertools.islice(c.attributes(), PREFIX))
            if any(not isinstance(t, tuple) or any(s not in index_of for s in t) for t in got):
                if add('attributes.names', C_ATTR, 'tuples of property names', got[:5], concept=concept):
                    return out
                continue
            if got != exp:
                gset, eset = [frozenset(t) for t in got], [frozenset(t) for t in exp]
                if bounded and set(gset) != set(eset):
                    ob = 'attributes.members'
                    detail = {'missing': [t for t in exp if frozenset(t) not in set(gset)][:5],
                              'extra': [t for t in got if frozenset(t) not in set(eset)][:5]}
                elif len(set(gset)) != len(gset):
                    ob, detail = 'attributes.once', {'yielded': len(gset), 'distinct': len(set(gset))}
                elif gset != eset:
                    ob, detail = 'attributes.order', {'expected-first': exp[:6]}
                else:
                    ob, detail = 'attributes.label-order', {'expected-first': exp[:6]}
                if add(ob, C_ATTR, detail, got[:12], concept=concept, complete=bounded):
                    return out
            for t in got:
                r = lat(t)
                if r is not c:
                    if add('attributes.regenerate', C_REGEN, repr(c), repr(r), yielded=t, concept=concept):
                        return out
                    break
            if (not is_inf or STRICT_INFIMUM_MINIMAL) and exp:
                mn = c.minimal()
                first = got[0] if got else None
                if mn != exp[0] or mn != first:
                    if add('minimal.first', C_MIN, exp[0], mn, first_yielded=first, concept=concept):
                        return out
        if is_inf:
            mn = c.minimal()
            if mn != full_intent:
                if add('infimum.minimal', C_INF, full_intent, mn, concept=concept):
                    return out
    # overlapping use: two enumerations alive at once, and minimal() while an enumeration is only partly consumed
    # (every generator must own its state) -- on the first few concepts with a non-empty extent
    import itertools as _it
    live = [c for c, e in zip(cs, ext) if e][:4]
    CAP = 40
    for a in live:
        for b in live:
            seq_a, seq_b = list(_it.islice(a.attributes(), CAP)), list(_it.islice(b.attributes(), CAP))
            zipped = list(_it.islice(zip(a.attributes(), b.attributes()), CAP))
            want = list(zip(seq_a, seq_b))
            if zipped != want:
                if add('attributes.interleaved', C_ATTR + ' (two enumerations consumed in lockstep)', want[:6], zipped[:6],
                       concepts=[sorted(idx(a._extent)), sorted(idx(b._extent))]):
                    return out
                break
        nested = []
        for t in _it.islice(a.attributes(), CAP):
            a.minimal()
            nested.append(t)
        if nested != list(_it.islice(a.attributes(), CAP)):
            if add('attributes.interleaved', C_ATTR + ' (minimal() called while the enumeration is partly consumed)',
                   list(_it.islice(a.attributes(), 6)), nested[:6], concept=sorted(idx(a._extent))):
                return out
    return out[:MAX_FAIL]
