"""C12 bounded stand-in: the text formats round-trip every representable context.

Run-time contract on the real ``Context.tostring/fromstring/tofile/fromfile``, ``concepts.load/load_cxt/
load_csv/make_context``, ``ConceptList.tofile`` and ``formats.read_concepts_dat/write_concepts_dat``.
The oracle is the case itself (objects, properties, rows) and the reference readers/writers of
``spec.formats_ref`` (written from the format descriptions pinned in DESIGN.md "### C12", independent of the
repository's parsers); concept members come from the brute-force ``common.Oracle``.

Which labels are representable in which format is taken literally from the property statement:

* table, cxt: non-empty, no leading/trailing whitespace, no line break; table additionally no ``|`` / ``#``;
* csv, python-literal: any printable text including commas, quotes, line breaks (and blanks, TAB);
* wiki-table (dump only; the statement gives no rule): the table rule plus no ``!`` (its cell delimiters are
  ``!!`` and ``||``).

A format is exercised on a case iff all labels of the case are representable in it (so nothing the statement
calls representable is excluded: labels that look like numbers, ``X`` or ``.`` ARE used with cxt and table).
"""
import os
import shutil
import sys
import tempfile

from . import common
from .common import Oracle, fail

if common.VERIF not in sys.path:   # spec.* lives next to bounded/
    sys.path.insert(0, common.VERIF)

import concepts
from concepts import Context, algorithms, formats

from spec import formats_ref as ref

RULE = ('cases = boolean fill patterns (every pattern incl. all-blank rows/columns, single row/column) x a label '
        'alphabet (plain, ASCII punctuation, delimiters of the other formats, digits, X/., non-ASCII latin-1 and '
        'wide, inner whitespace, csv-only: commas/quotes/line breaks/blank/empty); labels = a window of the '
        'alphabet pool, rotated per case so that every label occurs as object and as property; per case every '
        'format whose representability rule (from the statement) admits all labels x {string, file} x '
        '{utf-8, utf-16, latin-1 where encodable} x table indent {0,4} x csv dialect {excel, excel-tab} x '
        'bools_as_int {False, True; load explicit and auto-detect} x suffix case variants; non-trivial = pattern '
        'with at least one true and one false cell, distinct by (labels, pattern)')
SCOPE = {'quick': '5 critical patterns (1x1, all-blank first/last row and column, all blank) x all 10 alphabets + '
                  'all 26 fill patterns with n,m <= 2 x 3 rotating alphabets (128 cases)',
         'thorough': 'all 26 fill patterns with n,m <= 2 x all 10 alphabets + all 394 fill patterns with n*m <= 6 '
                     '(up to 1x6 / 6x1) x 5 rotating alphabets (2230 cases)'}

MAX_FAILURES = 10

# --------------------------------------------------------------------------------------------
# label alphabets (pools of >= 12 distinct labels; a case uses a rotated window of n+m of them)

ALPHABETS = [
    ('plain', ['oz', 'oy', 'ox', 'ow', 'ov', 'ou', 'pz', 'py', 'px', 'pw', 'pv', 'pu']),
    # ASCII punctuation except the table delimiters | and #; % and {} are format-template characters
    ('punct', ['!', '"', "'", '%s', ',', ';', '\\', '{0}', '%(x)s', '\\n', '$&*+-/', ':=?@^_`~', '(a)[b]<c>',
               '""', "''", '%']),
    # delimiters of the OTHER formats that are representable in table (csv, wiki-table, python-literal, cxt)
    ('others-table', [',', '"', 'a,b', '"q"', 'a\tb', '!', '!!', 'B', "{'a': (0,)}", "'", '[]', '()']),
    # delimiters of the OTHER formats incl. those of table and wiki-table (representable in cxt, csv, python-literal)
    ('others-cxt', ['|', '#', '||', '|-', '|}', '{| class="featuresystem"', 'a|b', '# c', 'x # y', ',', '"', '!!']),
    ('digits', ['0', '1', '2', '10', '007', '1.5', '-1', '1e3', '3', '42', '0x1F', '1 2']),
    ('xdot', ['X', '.', 'x', 'XX', '..', 'X.', '.X', 'X.X', 'x.', '.x', 'X X', '. .']),
    ('nonascii-latin1', ['\xe4', '\xdf', '\xe9', '\xf1', '\xd8', '\xe7', '\xfcb', '\xc0b', 'a\xa0b', '\xa3',
                         '\xbf?', '\xbd']),
    ('nonascii-wide', ['\u03a9', '\u65e5\u672c', '\u0416', '\u0161', '\u20ac', 'e\u0301', '\ud55c', '\u21350',
                       '\u03b1 \u03b2', '\u2192', '\U0001f600', '\u01c5']),
    ('inner-ws', ['a b', 'a  b', 'a\tb', 'a b c', 'x y', 'p \t q', 'aa bb', 'a   b', 'b a', 'y x', 'q\tp', 'c  d']),
    # characters that str.splitlines() treats as line boundaries but '\n'-based parsers do not (inner positions are representable everywhere)
    ('line-seps', ['a\x0bb', 'a\x0cb', 'a\x1cb', 'a\x1db', 'a\x1eb', 'a\x85b', 'a\u2028b', 'a\u2029b', 'c\x0cd', 'c\u2028d', 'e\x1cf', 'e\x85f']),
    # representable in csv and python-literal only
    ('csv-only', ['a,b', '"', 'a\nb', '', ' lead', 'trail ', 'a\r\nb', 'a\rb', '\n', ',', '""', ' ', '\t',
                  "it's", '"quoted"', 'a"b', '\r', ',,', '"\n"']),
]

OPTIONS = {'indents': [0, 4],
           'dialects': ['excel', 'excel-tab'],
           'encodings': ['utf-8', 'utf-16', 'latin-1']}

SUFFIXES = {'table': ['.txt', '.TXT', '.Txt'],
            'cxt': ['.cxt', '.CXT', '.cXt'],
            'csv': ['.csv', '.Csv', '.CSV'],
            'python-literal': ['.py', '.PY', '.Py']}

LINE_BREAKS = '\n\r'      # what the '\n'-based parsers treat as a line break (VT, FF, FS.., NEL, LS, PS inside a label are representable: they round-trip)


def representable(label, frmat):
    """The representability rules of the property statement."""
    if frmat in ('csv', 'python-literal'):
        return all(ch.isprintable() or ch.isspace() for ch in label)   # blanks, TAB, NBSP, line breaks
    ok = label != '' and label == label.strip() and not any(ch in LINE_BREAKS for ch in label)
    if frmat == 'cxt':
        return ok
    if frmat == 'table':
        return ok and '|' not in label and '#' not in label
    if frmat == 'wiki-table':
        return ok and '|' not in label and '#' not in label and '!' not in label
    raise ValueError(frmat)


def encodable(labels, encoding):
    try:
        for x in labels:
            x.encode(encoding)
    except UnicodeEncodeError:
        return False
    return True


# --------------------------------------------------------------------------------------------
# cases

CRITICAL = [((False,),), ((True,),),                       # single row and column
            ((True, False), (False, False)),                # all-blank last row and last column
            ((False, False), (False, True)),                # all-blank first row and first column
            ((False, False), (False, False))]               # nothing but blanks


def _make_case(rows, alphabet, counter):
    name, pool = ALPHABETS[alphabet]
    n, m = len(rows), len(rows[0])
    shift = counter % len(pool)
    window = [pool[(shift + k) % len(pool)] for k in range(n + m)]
    # alternate which side gets the first labels of the window
    if counter % 2:
        objects, properties = window[:n], window[n:]
    else:
        properties, objects = window[:m], window[m:]
    return common.case_of_table(rows, objects, properties, alphabet=name, options=OPTIONS)


def gen_cases(tier, rng):
    """quick: critical patterns x every alphabet, all patterns <= 2x2 x 3 rotating alphabets;
    thorough: all patterns <= 2x2 x every alphabet, all patterns with n*m <= 6 x 5 rotating alphabets."""
    k_all = len(ALPHABETS)
    if tier == 'quick':
        full, rotating, width = CRITICAL, list(common.tables_upto(2, 2)), 3
    else:
        full, rotating, width = list(common.tables_upto(2, 2)), list(common.tables_cells(6, max_dim=6)), 5
    counter = 0
    for rows in full:
        for a in range(k_all):
            yield _make_case(rows, a, counter)
            counter += 1
    for p, rows in enumerate(rotating):
        for k in range(width):
            yield _make_case(rows, (3 * p + k) % k_all, counter)
            counter += 1
    # long lines: many labels / long multi-word labels, so that every joined label line is far beyond 100 characters
    # (line wrapping, width computations and buffers only show beyond the small tables)
    for nn, mm, word in ((14, 12, 'item number %d of the table'), (3, 40, 'p %d'), (30, 2, 'a rather long object label with inner spaces, no. %d')):
        objects = [(word % i).replace('p ', 'o ') if word.startswith('p ') else 'o: ' + word % i for i in range(nn)]
        properties = [word % j if word.startswith('p ') else 'p: ' + word % j for j in range(mm)]
        rows = [[bool((i * 7 + j * 3 + i * j) % 3 == 0) for j in range(mm)] for i in range(nn)]
        yield common.case_of_table(rows, objects, properties, alphabet='long-lines', options=OPTIONS)


def nontrivial(case):
    cells = [bool(v) for r in case['rows'] for v in r]
    if not (any(cells) and not all(cells)):
        return None
    return (tuple(case['objects']), tuple(case['properties']), tuple(map(tuple, case['rows'])))


# --------------------------------------------------------------------------------------------
# helpers

class _Failures(list):

    def add(self, obligation, clause, expected, observed, **extra):
        if len(self) < MAX_FAILURES:
            self.append(fail(obligation, clause, expected, observed, **extra))

    @property
    def full(self):
        return len(self) >= MAX_FAILURES


def _triple(ctx):
    return [list(ctx.objects), list(ctx.properties), [list(map(bool, r)) for r in ctx.bools]]


def _plain(result):
    objects, properties, bools = result[:3]
    return [list(objects), list(properties), [list(map(bool, r)) for r in bools]]


def _call(fn, *args, **kwargs):
    """(True, value) or (False, 'ExcType: message')."""
    try:
        return True, fn(*args, **kwargs)
    except Exception as e:  # every exception on a representable context is a contract failure
        return False, '%s: %s' % (type(e).__name__, e)


def _expect_context(out, obligation, clause, want, ctx, fn, *args, **extra):
    """fn(*args) must return a context equal to ``ctx`` (same objects, properties, cells)."""
    ok, got = _call(fn, *args)
    if not ok:
        out.add(obligation, clause, want, got, **extra)
    elif _triple(got) != want or not (got == ctx) or got != ctx:
        out.add(obligation, clause, want, _triple(got), **extra)


def _expect_value(out, obligation, clause, want, fn, *args, **extra):
    ok, got = _call(fn, *args)
    if ok and not isinstance(got, (str, list)):
        got = _plain(got)
    if not ok or got != want:
        out.add(obligation, clause, want, got, **extra)


def _read_text(path, encoding):
    with open(path, 'rb') as f:
        text = f.read().decode(encoding)
    return text


def _write_text(path, text, encoding):
    with open(path, 'w', encoding=encoding, newline='') as f:
        f.write(text)


def _unix(text):
    return text.replace(os.linesep, '\n') if os.linesep != '\n' else text


CL_STRING = 'fromstring(tostring(f), f) returns an equal context'
CL_FILE = 'fromfile(tofile(path, f), f) with matching encoding returns an equal context'
CL_LAYOUT = 'the emitted text follows the documented layout of the format'
CL_READER = ('a reader written from the format description alone recovers the same objects, properties and '
             'cells')
CL_WRITER = 'text produced by such a writer is loaded as the same context'
CL_SUFFIX = 'load() infers the format from the file suffix case-insensitively'
CL_FIMI = 'the FIMI context rows list exactly the true cells of each row'
CL_DAT = 'the concept .dat files list exactly the members of each concept'


def _text_format(out, tmp, ctx, want, labels, encodings, tag, frmat, dump_kw, load_kws,
                 ref_read, ref_text, file_tail, translate=False, make=False, suffix=None, info=None):
    """All string/file obligations of one loadable format under one set of dump options.

    ref_read: text -> triple; ref_text: the reference writer's text (tostring form);
    file_tail: what tofile adds after the tostring form; translate: text mode translates line ends."""
    info = dict(info or {}, frmat=frmat, dump=dump_kw)
    ok, text = _call(ctx.tostring, frmat, **dump_kw)
    if not ok:
        out.add(tag + '.roundtrip.string', CL_STRING, 'tostring returns', text, **info)
        return
    for load_kw in load_kws:
        _expect_context(out, tag + '.roundtrip.string', CL_STRING, want, ctx,
                        lambda: Context.fromstring(text, frmat, **load_kw), text=text, load=load_kw, **info)
    if make:
        _expect_context(out, tag + '.roundtrip.string', CL_STRING, want, ctx,
                        lambda: concepts.make_context(text, frmat), text=text, via='make_context', **info)
    if text != ref_text:
        out.add(tag + '.layout', CL_LAYOUT, ref_text, text, **info)
    _expect_value(out, tag + '.ref-reader', CL_READER, want, ref_read, text, text=text, **info)
    for load_kw in load_kws:
        _expect_context(out, tag + '.ref-writer', CL_WRITER, want, ctx,
                        lambda: Context.fromstring(ref_text, frmat, **load_kw), text=ref_text, load=load_kw, **info)
    for k, enc in enumerate(encodings):
        if out.full:
            return
        if not encodable(labels, enc):
            continue
        path = os.path.join(tmp, '%s-%d%s' % (tag, k, suffix or '.out'))
        ok, err = _call(ctx.tofile, path, frmat, enc, **dump_kw)
        if not ok:
            out.add(tag + '.roundtrip.file', CL_FILE, 'tofile returns', err, encoding=enc, **info)
            continue
        for load_kw in load_kws:
            _expect_context(out, tag + '.roundtrip.file', CL_FILE, want, ctx,
                            lambda: Context.fromfile(path, frmat, enc, **load_kw),
                            encoding=enc, load=load_kw, **info)
        ok, ftext = _call(_read_text, path, enc)
        if ok and translate:
            ftext = _unix(ftext)
        if not ok or ftext != ref_text + file_tail:
            out.add(tag + '.layout', CL_LAYOUT, ref_text + file_tail, ftext, encoding=enc, via='tofile', **info)
        if ok:
            _expect_value(out, tag + '.ref-reader', CL_READER, want, ref_read, ftext,
                          encoding=enc, via='tofile', **info)
        # file produced by the reference writer
        rpath = os.path.join(tmp, '%s-%d-ref%s' % (tag, k, suffix or '.out'))
        _write_text(rpath, ref_text + file_tail, enc)
        for load_kw in load_kws:
            _expect_context(out, tag + '.ref-writer', CL_WRITER, want, ctx,
                            lambda: Context.fromfile(rpath, frmat, enc, **load_kw),
                            encoding=enc, load=load_kw, via='file', **info)


def _suffixes(out, tmp, ctx, want, labels, encodings, frmat, dump_kw):
    """concepts.load(path) on files named with case variants of the format's suffix."""
    for k, suffix in enumerate(SUFFIXES[frmat]):
        enc = encodings[k % len(encodings)]
        if not encodable(labels, enc):
            enc = 'utf-8'
        path = os.path.join(tmp, 'load-%s-%d%s' % (frmat[:3], k, suffix))
        ok, err = _call(ctx.tofile, path, frmat, enc, **dump_kw)
        if not ok:
            out.add('load.suffix', CL_SUFFIX, 'tofile returns', err, frmat=frmat, suffix=suffix, encoding=enc)
            continue
        if enc == 'utf-8':
            _expect_context(out, 'load.suffix', CL_SUFFIX, want, ctx, lambda: concepts.load(path),
                            frmat=frmat, suffix=suffix, dump=dump_kw)
        _expect_context(out, 'load.suffix', CL_SUFFIX, want, ctx, lambda: concepts.load(path, encoding=enc),
                        frmat=frmat, suffix=suffix, encoding=enc, dump=dump_kw)
        _expect_context(out, 'load.suffix', CL_SUFFIX, want, ctx, lambda: concepts.load(path, enc, None),
                        frmat=frmat, suffix=suffix, encoding=enc, dump=dump_kw, via='frmat=None')


# --------------------------------------------------------------------------------------------
# the formats

def _check_table(out, tmp, ctx, want, labels, opts):
    objs, props, rows = want
    for indent in opts['indents']:
        dump_kw = {'indent': indent} if indent else {}
        _text_format(out, tmp, ctx, want, labels, opts['encodings'], 'table', 'table', dump_kw, [{}],
                     lambda t: _plain(ref.read_table(t)), ref.write_table(objs, props, rows, indent=indent),
                     '\n', translate=True, make=True, suffix='-%d.txt' % indent)
        _suffixes(out, tmp, ctx, want, labels, opts['encodings'], 'table', dump_kw)
        # table is the default format of tostring/fromstring/make_context
        ok, text = _call(ctx.tostring, **dump_kw)
        if ok:
            _expect_context(out, 'table.roundtrip.string', CL_STRING, want, ctx,
                            lambda: Context.fromstring(text), text=text, via='default frmat', indent=indent)
            _expect_context(out, 'table.roundtrip.string', CL_STRING, want, ctx,
                            lambda: concepts.make_context(text), text=text, via='make_context default', indent=indent)
        else:
            out.add('table.roundtrip.string', CL_STRING, 'tostring returns', text, indent=indent)


def _check_cxt(out, tmp, ctx, want, labels, opts):
    objs, props, rows = want
    _text_format(out, tmp, ctx, want, labels, opts['encodings'], 'cxt', 'cxt', {}, [{}],
                 lambda t: _plain(ref.read_cxt(t)), ref.write_cxt(objs, props, rows),
                 '', translate=True, make=True, suffix='.cxt')
    _suffixes(out, tmp, ctx, want, labels, opts['encodings'], 'cxt', {})
    # cxt is the default format of tofile/fromfile; load_cxt
    path = os.path.join(tmp, 'default.cxt')
    ok, err = _call(ctx.tofile, path)
    if not ok:
        out.add('cxt.roundtrip.file', CL_FILE, 'tofile returns', err, via='default frmat')
        return
    _expect_context(out, 'cxt.roundtrip.file', CL_FILE, want, ctx, lambda: Context.fromfile(path, encoding='utf-8'),
                    via='default frmat')
    _expect_context(out, 'cxt.roundtrip.file', CL_FILE, want, ctx, lambda: concepts.load_cxt(path, 'utf-8'),
                    via='load_cxt')


def _check_csv(out, tmp, ctx, want, labels, opts):
    objs, props, rows = want
    for dialect in opts['dialects']:
        for as_int in (False, True):
            if out.full:
                return
            dump_kw = {'dialect': dialect, 'bools_as_int': as_int}
            load_kws = [{'dialect': dialect, 'bools_as_int': as_int}, {'dialect': dialect, 'bools_as_int': None},
                        {'dialect': dialect}]
            tag = 'csv'
            _text_format(out, tmp, ctx, want, labels, opts['encodings'], tag, 'csv', dump_kw, load_kws,
                         lambda t: _plain(ref.read_csv(t, as_int, dialect)),
                         ref.write_csv(objs, props, rows, bools_as_int=as_int, dialect=dialect),
                         '', suffix='-%s-%d.csv' % (dialect, as_int))
            # the auto-detecting reference reader agrees as well
            ok, text = _call(ctx.tostring, 'csv', **dump_kw)
            if ok:
                _expect_value(out, 'csv.ref-reader', CL_READER, want,
                              lambda t: _plain(ref.read_csv(t, None, dialect)), text, text=text, via='auto symbols')
            if dialect == 'excel':
                # defaults: dialect excel, symbols auto-detected; make_context; load(); load_csv()
                kw = {'bools_as_int': True} if as_int else {}
                ok, text = _call(ctx.tostring, 'csv', **kw)
                if ok:
                    _expect_context(out, 'csv.roundtrip.string', CL_STRING, want, ctx,
                                    lambda: concepts.make_context(text, 'csv'), text=text, via='make_context')
                    if text != ref.write_csv(objs, props, rows, bools_as_int=as_int):
                        out.add('csv.layout', CL_LAYOUT, ref.write_csv(objs, props, rows, bools_as_int=as_int), text,
                                via='default dialect')
                else:
                    out.add('csv.roundtrip.string', CL_STRING, 'tostring returns', text, via='default dialect')
                _suffixes(out, tmp, ctx, want, labels, opts['encodings'], 'csv', kw)
            path = os.path.join(tmp, 'load_csv-%s-%d.csv' % (dialect, as_int))
            ok, err = _call(ctx.tofile, path, 'csv', 'utf-8', **dump_kw)
            if ok:
                _expect_context(out, 'csv.roundtrip.file', CL_FILE, want, ctx,
                                lambda: concepts.load_csv(path, dialect), via='load_csv', dump=dump_kw)
            else:
                out.add('csv.roundtrip.file', CL_FILE, 'tofile returns', err, dump=dump_kw)
    # a non-empty object header cell is written first in the header row and ignored on load
    ok, text = _call(ctx.tostring, 'csv', object_header='name')
    if not ok:
        out.add('csv.roundtrip.string', CL_STRING, 'tostring returns', text, via='object_header')
        return
    _expect_context(out, 'csv.roundtrip.string', CL_STRING, want, ctx, lambda: Context.fromstring(text, 'csv'),
                    text=text, via='object_header')
    ok, got = _call(ref.read_csv, text, False, 'excel', True)
    if not ok or _plain(got) != want or got[3] != 'name':
        out.add('csv.ref-reader', CL_READER, want + ['name'], _plain(got) + [got[3]] if ok else got,
                text=text, via='object_header')
    if text != ref.write_csv(objs, props, rows, object_header='name'):
        out.add('csv.layout', CL_LAYOUT, ref.write_csv(objs, props, rows, object_header='name'), text,
                via='object_header')


def _check_pyliteral(out, tmp, ctx, want, labels, opts):
    objs, props, rows = want
    frmat = 'python-literal'
    ok, text = _call(ctx.tostring, frmat)
    if not ok:
        out.add('py.roundtrip.string', CL_STRING, 'tostring returns', text)
        return
    _expect_context(out, 'py.roundtrip.string', CL_STRING, want, ctx, lambda: Context.fromstring(text, frmat),
                    text=text)
    _expect_context(out, 'py.roundtrip.string', CL_STRING, want, ctx, lambda: concepts.make_context(text, frmat),
                    text=text, via='make_context')
    _expect_value(out, 'py.ref-reader', CL_READER, want, lambda t: _plain(ref.read_pyliteral(t)), text, text=text)
    ref_text = ref.write_pyliteral(objs, props, rows)
    _expect_context(out, 'py.ref-writer', CL_WRITER, want, ctx, lambda: Context.fromstring(ref_text, frmat),
                    text=ref_text)
    for k, enc in enumerate(opts['encodings']):
        if not encodable(labels, enc) or not encodable([text], enc):
            continue
        path = os.path.join(tmp, 'py-%d.py' % k)
        ok, err = _call(ctx.tofile, path, frmat, enc)
        if not ok:
            out.add('py.roundtrip.file', CL_FILE, 'tofile returns', err, encoding=enc)
            continue
        _expect_context(out, 'py.roundtrip.file', CL_FILE, want, ctx, lambda: Context.fromfile(path, frmat, enc),
                        encoding=enc)
        ok, ftext = _call(_read_text, path, enc)
        if ok:
            _expect_value(out, 'py.ref-reader', CL_READER, want, lambda t: _plain(ref.read_pyliteral(t)), ftext,
                          encoding=enc, via='tofile')
            if _unix(ftext) != text + '\n':
                out.add('py.layout', CL_LAYOUT, text + '\n', ftext, encoding=enc, via='tofile == tostring')
        else:
            out.add('py.ref-reader', CL_READER, 'file decodes as %s' % enc, ftext, encoding=enc)
        rpath = os.path.join(tmp, 'py-%d-ref.py' % k)
        _write_text(rpath, ref_text + '\n', enc)
        _expect_context(out, 'py.ref-writer', CL_WRITER, want, ctx, lambda: Context.fromfile(rpath, frmat, enc),
                        encoding=enc, via='file')
    _suffixes(out, tmp, ctx, want, labels, opts['encodings'], frmat, {})


def _check_wiki(out, tmp, ctx, want, labels, opts):
    objs, props, rows = want
    ref_text = ref.write_wikitable(objs, props, rows)
    for name in ('wiki-table', 'wikitable'):
        ok, text = _call(ctx.tostring, name)
        if not ok:
            out.add('wiki.ref-reader', CL_READER, 'tostring returns', text, frmat=name)
            continue
        _expect_value(out, 'wiki.ref-reader', CL_READER, want, lambda t: _plain(ref.read_wikitable(t)), text,
                      text=text, frmat=name)
        if text != ref_text:
            out.add('wiki.layout', CL_LAYOUT, ref_text, text, frmat=name)
    for k, enc in enumerate(opts['encodings']):
        if not encodable(labels, enc):
            continue
        path = os.path.join(tmp, 'wiki-%d.txt' % k)
        ok, err = _call(ctx.tofile, path, 'wiki-table', enc)
        if not ok:
            out.add('wiki.ref-reader', CL_READER, 'tofile returns', err, encoding=enc)
            continue
        ok, ftext = _call(_read_text, path, enc)
        if ok:
            ftext = _unix(ftext)
            _expect_value(out, 'wiki.ref-reader', CL_READER, want, lambda t: _plain(ref.read_wikitable(t)), ftext,
                          encoding=enc, via='tofile')
        if not ok or ftext != ref_text + '\n':
            out.add('wiki.layout', CL_LAYOUT, ref_text + '\n', ftext, encoding=enc, via='tofile')


def _check_fimi(out, tmp, ctx, want):
    objs, props, rows = want
    true_cells = [[j for j, b in enumerate(row) if b] for row in rows]
    exp_text = ref.write_fimi(true_cells)
    ok, text = _call(ctx.tostring, frmat='fimi')
    if not ok or text != exp_text:
        out.add('fimi.rows.string', CL_FIMI, exp_text, text)
    if ok:
        _expect_value(out, 'fimi.rows.string', CL_FIMI, true_cells, ref.read_fimi, text, text=text, via='ref reader')
    for k, kw in enumerate(({}, {'encoding': 'ascii'}, {'encoding': 'utf-8'})):
        path = os.path.join(tmp, 'ctx-%d.dat' % k)
        ok, err = _call(ctx.tofile, path, 'fimi', **kw)
        ok2, ftext = _call(_read_text, path, 'ascii') if ok else (False, err)
        if not ok2 or ftext != exp_text:
            out.add('fimi.rows.file', CL_FIMI, exp_text, ftext, **kw)
        elif ref.read_fimi(ftext) != true_cells:
            out.add('fimi.rows.file', CL_FIMI, true_cells, ref.read_fimi(ftext), via='ref reader', **kw)

    # concept .dat files: members of each concept's intent / extent
    o = Oracle(rows)
    exp_concepts = {(tuple(sorted(e)), tuple(sorted(i))) for e, i in o.concepts()}
    ok, cl = _call(algorithms.get_concepts, ctx)
    if not ok:
        out.add('dat.intents', CL_DAT, 'get_concepts returns', cl)
        return
    by_label = [([objs.index(x) for x in c.objects], [props.index(x) for x in c.properties]) for c in cl]
    writers = [('ConceptList.tofile', lambda p, **kw: cl.tofile(p, **kw)),
               ('write_concepts_dat', lambda p, **kw: formats.write_concepts_dat(p, cl, **kw)),
               ('write_concepts_dat(iterconcepts)',
                lambda p, **kw: formats.write_concepts_dat(p, algorithms.iterconcepts(ctx), **kw))]
    for w, (wname, write) in enumerate(writers):
        lines = {}
        for extents, kw in ((False, {}), (True, {'extents': True}), (False, {'extents': False})):
            ob = 'dat.extents' if extents else 'dat.intents'
            path = os.path.join(tmp, 'concepts-%d-%d-%d.dat' % (w, extents, len(kw)))
            ok, err = _call(write, path, **kw)
            ok2, ftext = _call(_read_text, path, 'ascii') if ok else (False, err)
            ok3, got = _call(ref.read_fimi, ftext) if ok2 else (False, ftext)
            exp = [c[0] if extents else c[1] for c in by_label]
            if not ok3 or got != exp:
                out.add(ob, CL_DAT, exp, got, writer=wname, text=ftext if ok2 else None, **kw)
                continue
            if ftext != ref.write_fimi(exp):
                out.add(ob, CL_DAT, ref.write_fimi(exp), ftext, writer=wname, via='layout', **kw)
            lines[extents] = got
            ok4, back = _call(lambda: list(formats.read_concepts_dat(path)))
            if not ok4 or back != [tuple(r) for r in exp]:
                out.add('dat.readback', 'read_concepts_dat reads the members back', [tuple(r) for r in exp], back,
                        writer=wname, **kw)
        if False in lines and True in lines:
            got = sorted(zip(map(tuple, lines[True]), map(tuple, lines[False])))
            if got != sorted(exp_concepts):
                out.add('dat.concepts', CL_DAT + ' (line i of the extents file and of the intents file are the '
                        'concepts of the table, each once)', sorted(exp_concepts), got, writer=wname)


# --------------------------------------------------------------------------------------------

def check_case(case):
    out = _Failures()
    objs, props = list(case['objects']), list(case['properties'])
    rows = [[bool(v) for v in r] for r in case['rows']]
    opts = case.get('options', OPTIONS)
    labels = objs + props
    assert len(set(labels)) == len(labels), 'case labels must be disjoint and duplicate-free'
    ctx = common.context_of_case(case)
    want = [objs, props, rows]
    tmp = tempfile.mkdtemp(prefix='verif-c12-')
    try:
        if all(representable(x, 'table') for x in labels):
            _check_table(out, tmp, ctx, want, labels, opts)
        if all(representable(x, 'cxt') for x in labels):
            _check_cxt(out, tmp, ctx, want, labels, opts)
        if all(representable(x, 'csv') for x in labels):
            _check_csv(out, tmp, ctx, want, labels, opts)
        if all(representable(x, 'python-literal') for x in labels):
            _check_pyliteral(out, tmp, ctx, want, labels, opts)
        if all(representable(x, 'wiki-table') for x in labels):
            _check_wiki(out, tmp, ctx, want, labels, opts)
        _check_fimi(out, tmp, ctx, want)
    finally:
        shutil.rmtree(tmp, ignore_errors=True)
    return list(out)[:MAX_FAILURES]
