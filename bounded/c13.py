"""C13 bounded stand-in: every edit history of a Definition matches the ordered-table model.

A case is a history `{kind:'history', init:[objects, properties, bools], ops:[[name, args...], ...]}`.
`check_case` applies the operations to a real `concepts.Definition` and to `spec.definition_model.Model`
in lock step and compares after every step (see OBLIGATIONS).  The oracle is the plain model written from
the property statement / the operation table of DESIGN "### C13"; nothing of the library is used to
compute expected values.

Operation encodings (`other` is a triple `[objects, properties, bools]` or the string 'self' for the
aliased call):
  ['setitem', o, p, v]  ['setitem_int', i, v]
  ['add_object', o] ['add_object', o, [p..]]   ['set_object', o, [p..]]      (dually *_property)
  ['remove_object', o] ['rename_object', old, new] ['move_object', o, i]      (dually *_property)
  ['remove_empty_objects'] ['remove_empty_properties']
  ['union_update', other] ['union_update', other, ignore] ['ior', other]      (dually intersection_update / iand)
"""
import copy
import hashlib
import itertools
import json
import operator
import sys

from . import common
from .common import fail

if common.VERIF not in sys.path:
    sys.path.insert(0, common.VERIF)

from spec.definition_model import Model, ModelReject, SELF

Definition = common.concepts.Definition

OBLIGATIONS = {
    'step.triple': 'the resulting (objects, properties, bools) triple equals that of the plain model',
    'step.return': 'every return value along the way equals that of the plain model',
    'step.raises': 'a call the model accepts does not raise',
    'reject.raises': 'a call the model rejects (unknown or clashing name, conflicting cells) raises',
    'reject.unchanged': 'a call the model rejects raises and leaves the definition unchanged',
    'other.unchanged': 'in-place union/intersection only reads the other definition',
    'fresh.equal': 'after every step the definition equals a fresh definition built from its own triple',
    'residue.state': 'no residue of removed or renamed names is kept (stored cells = true cells of bools, '
                     'name index = name list)',
    'residue.probe': 'no residue of removed or renamed names can reappear later (re-added name has all-false cells)',
    'bools.shape': 'bools always has one row per object and one cell per property',
}

RULE = ('cases = edit histories of a Definition run in lock step with the plain ordered-table model; '
        '(a) one-operation histories from every definition over a bounded name universe x every operation instance, '
        '(b) seeded random histories; non-trivial = history with at least one operation that changes the model '
        'triple, distinct by the JSON of the case')
SCOPE = {
    'quick': 'EXHAUSTIVE: all 113 definitions with objects in ordered subsets of {a,b}, properties in ordered subsets of '
             '{x,y}, all cell fillings x every operation instance (names from the universe + 1 fresh + 1 cross-axis name; '
             'add/set name lists: all lists of <= 2 names over universe+fresh incl. duplicates, + 4 special lists with several '
             'new names in non-alphabetical order; move indexes -1..len+1; setitem with int key) x for union/intersection '
             '(method ignore False/True, |=, &=) every second definition of the same universe + the aliased call (d |= d); moves additionally on all 3x1 / 1x3 definitions with indexes -3..4. '
             'SAMPLED: 250 seeded random histories of length <= 40 over 4+4 names, argument lists <= 4 names',
    'thorough': 'EXHAUSTIVE: as quick (2+2 universe and the 3x1 / 1x3 moves), with all name lists <= 3 names. '
                'Universes 3+2 ({a,b,c} x {x,y}) and 2+3: all definitions x all non-list operation instances exhaustively; '
                'add/set name lists: all lists <= 2 names + seeded sample of 12 lists of 3 names per definition and axis; '
                'union/intersection: seeded sample of 24 second definitions per definition (SAMPLED). '
                '6000 seeded random histories of length <= 40 over 4+4 names, argument lists <= 4 names (SAMPLED)',
}

SPECIAL_LISTS = (['zz', 'aa', 'mm'], ['mm', 'zz', 'aa', 'zz'])


# --------------------------------------------------------------------------------------------
# running one operation on the real object / on the model

def triple(d):
    return (d.objects, d.properties, d.bools)


def internals(d):
    return (list(d._objects._items), set(d._objects._seen),
            list(d._properties._items), set(d._properties._seen), set(d._pairs))


def _others(op, d, m):
    """(real other, model other) for the union/intersection family; (None, None) otherwise."""
    if op[0] not in ('union_update', 'intersection_update', 'ior', 'iand'):
        return None, None
    if op[1] == 'self':
        return d, m
    O, P, B = op[1]
    return Definition(O, P, [tuple(r) for r in B]), Model(O, P, B)


def real_apply(d, op, other):
    name = op[0]
    if name == 'setitem':
        return d.__setitem__((op[1], op[2]), op[3])
    if name == 'setitem_int':
        return d.__setitem__(op[1], op[2])
    if name in ('union_update', 'intersection_update'):
        return getattr(d, name)(other, *op[2:])
    if name == 'ior':
        return operator.ior(d, other)
    if name == 'iand':
        return operator.iand(d, other)
    return getattr(d, name)(*op[1:])


def model_apply(m, op, other):
    name = op[0]
    if name == 'setitem':
        return m.setitem((op[1], op[2]), op[3])
    if name == 'setitem_int':
        return m.setitem(op[1], op[2])
    if name in ('union_update', 'intersection_update'):
        return getattr(m, name)(other, *op[2:])
    if name in ('ior', 'iand'):
        return getattr(m, name)(other)
    return getattr(m, name)(*op[1:])


def invariants(d, step, op, fresh_check=True):
    """The per-state clauses: shape of bools, equality with a fresh definition, no residue in the state."""
    out = []
    objs, props, bools = triple(d)
    if not (isinstance(objs, tuple) and isinstance(props, tuple) and isinstance(bools, list)
            and len(bools) == len(objs) and all(isinstance(r, tuple) and len(r) == len(props) for r in bools)):
        out.append(fail('bools.shape', OBLIGATIONS['bools.shape'], [len(objs), len(props)],
                        [len(bools), [len(r) for r in bools]], step=step, op=op))
        return out
    if fresh_check:
        fresh = Definition(objs, props, bools)
        eq = [d == fresh, fresh == d, not (d != fresh)]
        if eq != [True] * 3:
            out.append(fail('fresh.equal', OBLIGATIONS['fresh.equal'], [True] * 3, eq, step=step, op=op,
                            triple=[objs, props, bools]))
    cells = {(o, p) for o, row in zip(objs, bools) for p, v in zip(props, row) if v}
    items_o, seen_o, items_p, seen_p, pairs = internals(d)
    bad = []
    if pairs != cells:
        bad.append(['_pairs', sorted(pairs), sorted(cells)])
    if seen_o != set(items_o) or len(set(items_o)) != len(items_o):
        bad.append(['_objects', items_o, sorted(seen_o)])
    if seen_p != set(items_p) or len(set(items_p)) != len(items_p):
        bad.append(['_properties', items_p, sorted(seen_p)])
    if len({id(d._objects), id(d._properties)}) != 2 or len({id(d._objects._items), id(d._properties._items)}) != 2 \
            or d._objects._seen is d._properties._seen:
        bad.append(['axes share a container'])
    if bad:
        out.append(fail('residue.state', OBLIGATIONS['residue.state'], 'stored state derivable from the triple', bad,
                        step=step, op=op, triple=[objs, props, bools]))
    return out


def probe(d, m, gone_o, gone_p, step, op):
    """Re-add every name that was removed/renamed away and is absent now: it must come back all-false."""
    back_o = sorted(n for n in gone_o if n not in m.O)
    back_p = sorted(n for n in gone_p if n not in m.P)
    if not back_o and not back_p:
        return []
    dd, mm = copy.deepcopy(d), m.clone()
    for n in back_o:
        dd.add_object(n)
        mm.add_object(n)
    for n in back_p:
        dd.add_property(n)
        mm.add_property(n)
    exp, got = mm.triple(), triple(dd)
    if got != exp:
        return [fail('residue.probe', OBLIGATIONS['residue.probe'], exp, got, step=step, op=op,
                     readded=[back_o, back_p])]
    return []


def check_case(case):
    out = []
    O, P, B = case['init']
    d = Definition(O, P, [tuple(r) for r in B])
    m = Model(O, P, B)
    if triple(d) != m.triple():
        return [fail('step.triple', OBLIGATIONS['step.triple'], m.triple(), triple(d), step=0, op=['init'])]
    out += invariants(d, 0, ['init'], fresh_check=False)   # the start *is* a fresh definition of its triple
    if out:
        return out[:10]
    gone_o, gone_p = set(), set()
    for step, op in enumerate(case['ops'], 1):
        before_t, before_i = triple(d), internals(d)
        other, mother = _others(op, d, m)
        other_before = (triple(other), internals(other)) if other is not None and other is not d else None
        rejected = exp = raised = got = None
        try:
            exp = model_apply(m, op, mother)
        except ModelReject as r:
            rejected = r
        try:
            got = real_apply(d, op, other)
        except Exception as e:       # noqa: BLE001  (the class is part of the contract)
            raised = e
        if rejected is not None:
            if raised is None or not isinstance(raised, rejected.exc_class):
                out.append(fail('reject.raises', OBLIGATIONS['reject.raises'],
                                '%s (%s)' % (rejected.exc_class.__name__, rejected.why),
                                'no exception' if raised is None else '%s: %s' % (type(raised).__name__, raised),
                                step=step, op=op, before=before_t))
            if triple(d) != before_t or internals(d) != before_i:
                out.append(fail('reject.unchanged', OBLIGATIONS['reject.unchanged'], before_t, triple(d),
                                step=step, op=op, internals_before=before_i, internals_after=internals(d)))
            if out:
                return out[:10]
        else:
            if raised is not None:
                out.append(fail('step.raises', OBLIGATIONS['step.raises'], m.triple(),
                                '%s: %s' % (type(raised).__name__, raised), step=step, op=op, before=before_t))
                return out[:10]
            after_t = triple(d)
            if after_t != m.triple():
                out.append(fail('step.triple', OBLIGATIONS['step.triple'], m.triple(), after_t, step=step, op=op,
                                before=before_t))
                return out[:10]
            if exp is SELF:
                if got is not d:
                    out.append(fail('step.return', OBLIGATIONS['step.return'], 'the definition itself', got,
                                    step=step, op=op))
            elif not (got == exp and type(got) is type(exp)):
                out.append(fail('step.return', OBLIGATIONS['step.return'], exp, got, step=step, op=op))
        if other_before is not None and (triple(other), internals(other)) != other_before:
            out.append(fail('other.unchanged', OBLIGATIONS['other.unchanged'], other_before[0], triple(other),
                            step=step, op=op))
        out += invariants(d, step, op)
        if out:
            return out[:10]
        lost_o = set(before_t[0]) - set(m.O)
        lost_p = set(before_t[1]) - set(m.P)
        if lost_o or lost_p:
            gone_o |= lost_o
            gone_p |= lost_p
            out += probe(d, m, gone_o, gone_p, step, op)
            if out:
                return out[:10]
    return out[:10]


def nontrivial(case):
    """Key of the case when at least one operation changes the model triple."""
    O, P, B = case['init']
    m = Model(O, P, B)
    changed = False
    for op in case['ops']:
        before = m.state()
        mother = None
        if op[0] in ('union_update', 'intersection_update', 'ior', 'iand'):
            mother = m if op[1] == 'self' else Model(*op[1])
        try:
            model_apply(m, op, mother)
        except ModelReject:
            continue
        if m.state() != before:
            changed = True
            break
    if not changed:
        return None
    return hashlib.md5(json.dumps(case, sort_keys=True).encode()).digest()[:10]


# --------------------------------------------------------------------------------------------
# generators

def ordered_subsets(univ):
    for r in range(len(univ) + 1):
        for perm in itertools.permutations(univ, r):
            yield list(perm)


def all_definitions(ouniv, puniv):
    """All triples with objects an ordered subset of ouniv, properties of puniv, all cell fillings."""
    for O in ordered_subsets(ouniv):
        for P in ordered_subsets(puniv):
            for rows in common.all_tables(len(O), len(P)):
                yield [O, P, [list(r) for r in rows]]


def name_lists(base, maxlen):
    for k in range(maxlen + 1):
        for t in itertools.product(base, repeat=k):
            yield list(t)


def plain_ops(init, ouniv, puniv, fresh_o, fresh_p):
    """Every operation instance without a name-list or a second definition."""
    O, P, _ = init
    no = list(ouniv) + [fresh_o, puniv[0]]      # + one fresh name + one name of the other axis
    np_ = list(puniv) + [fresh_p, ouniv[0]]
    for o in no:
        for p in np_:
            for v in (True, False):
                yield ['setitem', o, p, v]
    yield ['setitem_int', 0, True]
    yield ['setitem_int', 2, False]
    for o in no:
        yield ['add_object', o]
        yield ['remove_object', o]
        for new in no:
            yield ['rename_object', o, new]
        for i in range(-1, len(O) + 2):
            yield ['move_object', o, i]
    for p in np_:
        yield ['add_property', p]
        yield ['remove_property', p]
        for new in np_:
            yield ['rename_property', p, new]
        for i in range(-1, len(P) + 2):
            yield ['move_property', p, i]
    yield ['remove_empty_objects']
    yield ['remove_empty_properties']


def list_ops(ouniv, puniv, fresh_o, fresh_p, lists_p, lists_o):
    no = list(ouniv) + [fresh_o, puniv[0]]
    np_ = list(puniv) + [fresh_p, ouniv[0]]
    for o in no:
        for ps in lists_p:
            yield ['add_object', o, ps]
            yield ['set_object', o, ps]
    for p in np_:
        for os_ in lists_o:
            yield ['add_property', p, os_]
            yield ['set_property', p, os_]


def binary_ops(other):
    yield ['union_update', other]
    yield ['union_update', other, True]
    yield ['ior', other]
    yield ['intersection_update', other]
    yield ['intersection_update', other, True]
    yield ['iand', other]


def history(init, ops):
    return {'kind': 'history', 'init': init, 'ops': ops}


def per_operation_cases(ouniv, puniv, maxlen, rng, sample_lists=None, sample_others=None, skip=None):
    """One-operation histories from every definition over the universe.

    sample_lists: None = all name lists up to maxlen; n = all lists up to 2 names + n sampled lists of maxlen names
    per (definition); sample_others: None = every second definition, n = n sampled ones per definition."""
    fresh_o, fresh_p = 'n', 'z'
    base_p = list(puniv) + [fresh_p]
    base_o = list(ouniv) + [fresh_o]
    special_p = [list(s) for s in SPECIAL_LISTS] + [['zz', puniv[0], 'aa'], [ouniv[0], 'zz']]
    special_o = [list(s) for s in SPECIAL_LISTS] + [['zz', ouniv[0], 'aa'], [puniv[0], 'zz']]
    defs = list(all_definitions(ouniv, puniv))
    if sample_lists is None:
        full_p = list(name_lists(base_p, maxlen)) + special_p
        full_o = list(name_lists(base_o, maxlen)) + special_o
    else:
        short_p = list(name_lists(base_p, 2)) + special_p
        short_o = list(name_lists(base_o, 2)) + special_o
    for init in defs:
        if skip is not None and skip(init):
            continue
        for op in plain_ops(init, ouniv, puniv, fresh_o, fresh_p):
            yield history(init, [op])
        if sample_lists is None:
            lp, lo = full_p, full_o
        else:
            lp = short_p + [[rng.choice(base_p) for _ in range(maxlen)] for _ in range(sample_lists)]
            lo = short_o + [[rng.choice(base_o) for _ in range(maxlen)] for _ in range(sample_lists)]
        for op in list_ops(ouniv, puniv, fresh_o, fresh_p, lp, lo):
            yield history(init, [op])
        others = defs if sample_others is None else [rng.choice(defs) for _ in range(sample_others)]
        for other in others:
            for op in binary_ops(other):
                yield history(init, [op])
        for op in binary_ops('self'):
            yield history(init, [op])


def move_supplement():
    """Moves need >= 3 names to tell list.insert with a negative index from other conventions:
    all orders of 3 names on one axis, 1 name on the other, all fillings x move of every name to -3..len+1."""
    for O in itertools.permutations(['a', 'b', 'c']):
        for rows in common.all_tables(3, 1):
            init = [list(O), ['x'], [list(r) for r in rows]]
            tinit = [['x'], list(O), [[r[0] for r in rows]]]
            for n in ('a', 'b', 'c'):
                for i in range(-3, 5):
                    yield history(init, [['move_object', n, i]])
                    yield history(tinit, [['move_property', n, i]])


OU4 = ['o1', 'o2', 'o3', 'o4']
PU4 = ['p1', 'p2', 'p3', 'p4']


def _random_definition(rng, opool, ppool):
    O = rng.sample(opool, rng.randint(0, min(4, len(opool))))
    P = rng.sample(ppool, rng.randint(0, min(4, len(ppool))))
    dens = rng.choice((0.2, 0.5, 0.8))
    return [O, P, [[rng.random() < dens for _ in P] for _ in O]]


def random_history(rng, maxlen=40):
    """Seeded random history over 4+4 names (each axis may also use one name of the other axis)."""
    opool = OU4 + PU4[:1]
    ppool = PU4 + OU4[:1]
    init = _random_definition(rng, OU4, PU4)
    m = Model(*init)
    ops = []

    def known(L, pool, p=0.8):
        return rng.choice(L) if L and rng.random() < p else rng.choice(pool)

    def unknown(L, pool, p=0.8):
        cand = [x for x in pool if x not in L]
        return rng.choice(cand) if cand and rng.random() < p else rng.choice(pool)

    def names(pool):
        return [rng.choice(pool) for _ in range(rng.randint(0, 4))]

    for _ in range(rng.randint(1, maxlen)):
        kind = rng.choice(('setitem', 'setitem', 'setitem', 'add', 'add', 'set', 'set', 'remove', 'remove', 'rename',
                           'rename', 'move', 'move', 'empty', 'binary', 'binary', 'self', 'int'))
        obj_axis = rng.random() < 0.5
        L, pool, opp = (m.O, opool, ppool) if obj_axis else (m.P, ppool, opool)
        suffix = 'object' if obj_axis else 'property'
        if kind == 'setitem':
            op = ['setitem', known(m.O, opool, 0.7), known(m.P, ppool, 0.7), rng.random() < 0.6]
        elif kind == 'int':
            if rng.random() < 0.8:
                continue
            op = ['setitem_int', rng.randint(0, 2), True]
        elif kind == 'add':
            op = ['add_' + suffix, known(L, pool, 0.4), names(opp)] if rng.random() < 0.85 \
                else ['add_' + suffix, known(L, pool, 0.4)]
        elif kind == 'set':
            op = ['set_' + suffix, known(L, pool, 0.5), names(opp)]
        elif kind == 'remove':
            op = ['remove_' + suffix, known(L, pool, 0.85)]
        elif kind == 'rename':
            op = ['rename_' + suffix, known(L, pool, 0.85), unknown(L, pool, 0.85)]
        elif kind == 'move':
            op = ['move_' + suffix, known(L, pool, 0.9), rng.randint(-2, len(L) + 2)]
        elif kind == 'empty':
            op = ['remove_empty_' + ('objects' if obj_axis else 'properties')]
        elif kind == 'self':
            if rng.random() < 0.6:
                continue
            op = rng.choice(list(binary_ops('self')))
        else:
            other = _random_definition(rng, opool, ppool)
            if rng.random() < 0.65:        # make the shared cells agree so that the call is accepted
                O2, P2, B2 = other
                other = [O2, P2, [[((o, p) in m.C) if (o in m.O and p in m.P) else B2[i][j]
                                   for j, p in enumerate(P2)] for i, o in enumerate(O2)]]
            op = rng.choice(list(binary_ops(other)))
        ops.append(op)
        try:
            model_apply(m, op, (m if op[1] == 'self' else Model(*op[1]))
                        if op[0] in ('union_update', 'intersection_update', 'ior', 'iand') else None)
        except ModelReject:
            pass
    return history(init, ops)


def gen_cases(tier, rng):
    small_o, small_p = ['a', 'b'], ['x', 'y']
    if tier == 'quick':
        yield from per_operation_cases(small_o, small_p, 2, rng)
        yield from move_supplement()
        for _ in range(250):
            yield random_history(rng)
    else:
        yield from per_operation_cases(small_o, small_p, 3, rng)
        yield from move_supplement()

        def in_small(init):        # already covered by the 2+2 universe
            return set(init[0]) <= set(small_o) and set(init[1]) <= set(small_p)
        yield from per_operation_cases(['a', 'b', 'c'], small_p, 3, rng, sample_lists=12, sample_others=24,
                                       skip=in_small)
        yield from per_operation_cases(small_o, ['x', 'y', 'w'], 3, rng, sample_lists=12, sample_others=24,
                                       skip=in_small)
        for _ in range(6000):
            yield random_history(rng)
