"""C14 bounded stand-in: derived definitions are correct and unaliased; Context <-> Definition are inverse.

Case kinds
  {kind:'derive', a:T, b:T|'self'|None, op:[name, args...], edits:bool}
      op in ['copy'] ['transposed'] ['neg'] ['inverted'] ['invert'] ['take', objects?, properties?, reorder?]
            ['union', ignore?] ['or'] ['intersection', ignore?] ['and'];  T = [objects, properties, bools].
      The result must be the table of the plain model (spec.definition_model.m_*), a NEW definition sharing no
      mutable state with a (and b): with edits=True every single follow-up edit of EDITS is applied to the source,
      to `other` and to the result (each time after a fresh derivation) and the untouched sides must not change.
  {kind:'context', a:T, ops:[...]?}   Context(*d).definition() == d, Context(*c.definition()) == c,
      shape / fill_ratio / tostring / crc32 agree; comparison of a context with non-contexts.  With `ops` the
      definition is first taken through that edit history (C13 encoding).
  {kind:'ctxpair', a:T, b:T}          two contexts are equal exactly when their triples are equal.
"""
import fractions
import hashlib
import itertools
import json
import operator
import sys

from . import common
from .common import fail
from . import c13
from .c13 import triple, internals

if common.VERIF not in sys.path:
    sys.path.insert(0, common.VERIF)

from spec.definition_model import (Model, ModelReject, m_copy, m_union, m_intersection, m_take,   # noqa: E402
                                   m_transposed, m_inverted)

Definition = common.concepts.Definition
Context = common.concepts.Context

OBLIGATIONS = {
    'derive.table': 'copy/union/intersection/take/transposed/inverted return the mathematically expected table',
    'derive.new': 'the result is a new definition',
    'derive.raises': 'a derivation the model accepts does not raise',
    'derive.source-unchanged': 'deriving does not change the sources',
    'conflict.raises': 'union/intersection detect conflicts on shared cells (ValueError) unless ignored',
    'take.keyerror': 'take with unknown names raises KeyError',
    'involution': 'transposed and inverted are involutions',
    'alias.identity': 'the result shares no mutable state with its sources (no common container object)',
    'alias.source-edit': 'editing a source afterwards never changes the result (nor the other source)',
    'alias.result-edit': 'editing the result afterwards never changes the sources',
    'derive.fill_ratio': 'fill_ratio of a derived definition is the density of its true cells',
    'ctx.definition-roundtrip': 'Context(*definition) followed by .definition() gives back an equal definition',
    'ctx.context-roundtrip': 'context.definition() followed by Context(*d) gives back an equal context',
    'ctx.eq': 'two contexts are equal exactly when their triples are equal',
    'ctx.eq-noncontext': 'a context is not equal to a non-context (NotImplemented -> False for ==, True for !=)',
    'agree.shape': 'shape agrees between a context and its definition',
    'agree.fill_ratio': 'fill_ratio agrees between a context and its definition',
    'agree.tostring': 'the table string agrees between a context and its definition',
    'agree.crc32': 'crc32 agrees between a context and its definition',
}

RULE = ('cases = (definition | pair of definitions) x derivation x (table check | table check + every single follow-up '
        'edit on source, other, result); contexts and pairs of contexts for the Context<->Definition clauses; '
        'non-trivial = accepted derivation whose source table has at least one cell / context case / context pair, '
        'distinct by the JSON of the case')
SCOPE = {
    'quick': 'EXHAUSTIVE (table, new object, no shared container, sources unchanged, involution, conflict/KeyError): all 113 '
             'definitions over ordered subsets of {a,b} x {x,y} x [copy, transposed, -, inverted, ~, take with objects/properties '
             'in (omitted, None, [], every ordered subset, duplicates, unknown name, name of the other axis) x reorder False/True]; '
             'all 113x113 ordered pairs (+ self) x [union, union(ignore), |, intersection, intersection(ignore), &]. '
             'Follow-up edits (17-21 single edits x source/other/result): EXHAUSTIVE for the unary derivations except take; '
             'SAMPLED for take (every 16th case) and pairs (300 seeded pairs x 4 forms). '
             'Contexts: all tables <= 3x3 with default labels + all 104 contexts over the 2+2 universe + 150 seeded edit '
             'histories ending in a valid context (SAMPLED); context pairs: all 104x104 ordered pairs (EXHAUSTIVE)',
    'thorough': 'as quick, with follow-up edits EXHAUSTIVE also for take and for all 113x113 pairs x 4 forms; additionally '
                'SAMPLED: 30000 seeded pairs over ordered subsets of {a,b,c} x {x,y,w} (table checks) of which 3000 with '
                'follow-up edits, 20000 seeded take cases over that universe (2000 with edits); contexts: all tables with '
                'n*m <= 12, 3000 seeded edit histories; context pairs additionally 20000 seeded pairs <= 3x3 (half of them '
                'single-cell / single-label variations of each other)',
}


# --------------------------------------------------------------------------------------------

def mk(t):
    O, P, B = t
    return Definition(O, P, [tuple(r) for r in B])


def snap(d):
    return (triple(d), internals(d)) if d is not None else None


def containers(d):
    return [d._objects, d._objects._items, d._objects._seen,
            d._properties, d._properties._items, d._properties._seen, d._pairs]


def real_derive(a, b, op):
    name = op[0]
    if name == 'neg':
        return -a
    if name == 'invert':
        return ~a
    if name == 'or':
        return operator.or_(a, b)
    if name == 'and':
        return operator.and_(a, b)
    if name in ('union', 'intersection'):
        return getattr(a, name)(b, *op[1:])
    return getattr(a, name)(*op[1:])        # copy, transposed, inverted, take


def model_derive(ma, mb, op):
    name = op[0]
    if name == 'copy':
        return m_copy(ma)
    if name in ('transposed', 'neg'):
        return m_transposed(ma)
    if name in ('inverted', 'invert'):
        return m_inverted(ma)
    if name == 'take':
        return m_take(ma, *op[1:])
    if name == 'union':
        return m_union(ma, mb, *op[1:])
    if name == 'or':
        return m_union(ma, mb, False)
    if name == 'intersection':
        return m_intersection(ma, mb, *op[1:])
    if name == 'and':
        return m_intersection(ma, mb, False)
    raise ValueError(name)


def edits_for(t):
    """The single follow-up edits for a target whose triple is t (C13 operation encoding)."""
    O, P, B = t
    ops = [['setitem', 'NEWO', 'NEWP', True],
           ['add_object', 'NEWO', ['NEWP']],
           ['add_property', 'NEWP', ['NEWO']],
           ['set_object', 'NEWO', []],
           ['set_property', 'NEWP', []],
           ['union_update', [['NEWO'], ['NEWP'], [[True]]], True],
           ['intersection_update', [[], [], []], True],
           ['remove_empty_objects'],
           ['remove_empty_properties']]
    if O:
        ops += [['remove_object', O[0]], ['rename_object', O[-1], 'REN'], ['move_object', O[-1], 0],
                ['add_object', O[0], ['NEWP']]]
    if P:
        ops += [['remove_property', P[0]], ['rename_property', P[-1], 'REN'], ['move_property', P[-1], 0],
                ['add_property', P[0], ['NEWO']]]
    if O and P:
        ops += [['setitem', O[0], P[0], not B[0][0]], ['setitem', O[-1], P[-1], not B[-1][-1]],
                ['set_object', O[0], [P[-1]] if not B[0][-1] else []],
                ['set_property', P[0], [O[-1]] if not B[-1][0] else []]]
    return ops


def apply_edit(d, op):
    other = mk(op[1]) if op[0] in ('union_update', 'intersection_update') else None
    c13.real_apply(d, op, other)


def alias_checks(case, exp_triple):
    """Every single follow-up edit on source / other / result, each after a fresh derivation."""
    out = []
    op = case['op']
    has_b = case.get('b') not in (None, 'self')

    def derive():
        a = mk(case['a'])
        b = a if case.get('b') == 'self' else (mk(case['b']) if has_b else None)
        return a, b, real_derive(a, b, op)

    targets = [('source', case['a'])] + ([('other', case['b'])] if has_b else []) + [('result', exp_triple)]
    for which, t in targets:
        for edit in edits_for(t):
            a, b, r = derive()
            target = {'source': a, 'other': b, 'result': r}[which]
            watched = [(n, x) for n, x in (('source', a), ('other', b if has_b else None), ('result', r))
                       if x is not None and n != which]
            before = [snap(x) for _, x in watched]
            try:
                apply_edit(target, edit)
            except Exception:      # noqa: BLE001  (whether an edit is accepted is C13's business)
                continue
            for (n, x), s in zip(watched, before):
                if snap(x) != s:
                    ob = 'alias.result-edit' if which == 'result' else 'alias.source-edit'
                    out.append(fail(ob, OBLIGATIONS[ob], s[0], triple(x), edited=which, edit=edit, changed=n, op=op))
                    if len(out) >= 3:
                        return out
    return out


def check_derive(case):
    out = []
    op = case['op']
    a = mk(case['a'])
    ma = Model(*case['a'])
    if case.get('b') == 'self':
        b, mb = a, ma
    elif case.get('b') is not None:
        b, mb = mk(case['b']), Model(*case['b'])
    else:
        b = mb = None
    sa, sb = snap(a), (snap(b) if b is not None and b is not a else None)
    rejected = raised = exp = r = None
    try:
        exp = model_derive(ma, mb, op)
    except ModelReject as rej:
        rejected = rej
    try:
        r = real_derive(a, b, op)
    except Exception as e:       # noqa: BLE001
        raised = e
    unchanged = snap(a) == sa and (sb is None or snap(b) == sb)
    if not unchanged:
        out.append(fail('derive.source-unchanged', OBLIGATIONS['derive.source-unchanged'],
                        [sa[0], sb and sb[0]], [triple(a), b is not None and triple(b)], op=op))
    if rejected is not None:
        ob = 'take.keyerror' if op[0] == 'take' else 'conflict.raises'
        if raised is None or not isinstance(raised, rejected.exc_class):
            out.append(fail(ob, OBLIGATIONS[ob], '%s (%s)' % (rejected.exc_class.__name__, rejected.why),
                            'returned %r' % (r,) if raised is None else '%s: %s' % (type(raised).__name__, raised), op=op))
        return out[:10]
    if raised is not None:
        out.append(fail('derive.raises', OBLIGATIONS['derive.raises'], exp.triple(),
                        '%s: %s' % (type(raised).__name__, raised), op=op))
        return out[:10]
    if type(r) is not Definition or r is a or r is b:
        out.append(fail('derive.new', OBLIGATIONS['derive.new'], 'a new Definition', repr(r), op=op))
        return out[:10]
    et = exp.triple()
    if triple(r) != et or not (r == mk(et)) or (r != mk(et)):
        out.append(fail('derive.table', OBLIGATIONS['derive.table'], et, triple(r), op=op))
        return out[:10]
    out += c13.invariants(r, 'result', op)
    n, m_ = len(et[0]), len(et[1])
    if n * m_:
        k = sum(map(sum, et[2]))
        fr = r.fill_ratio
        if fr != fractions.Fraction(k, n * m_) or r.shape != (n, m_):
            out.append(fail('derive.fill_ratio', OBLIGATIONS['derive.fill_ratio'], [k, n * m_], [str(fr), list(r.shape)], op=op))
    if op[0] in ('transposed', 'neg', 'inverted', 'invert'):
        rr = real_derive(r, None, op)
        if triple(rr) != sa[0] or rr is r or rr is a:
            out.append(fail('involution', OBLIGATIONS['involution'], sa[0], triple(rr), op=op))
    mine = {id(x) for x in containers(r)}
    shared = [i for src in ((a,) if b is None or b is a else (a, b)) for i, x in enumerate(containers(src)) if id(x) in mine]
    if shared or len(mine) != 7:
        out.append(fail('alias.identity', OBLIGATIONS['alias.identity'], 'no common container',
                        {'shared_container_indexes': shared, 'distinct_in_result': len(mine)}, op=op))
    if case.get('edits'):
        out += alias_checks(case, [list(et[0]), list(et[1]), [list(row) for row in et[2]]])
    return out[:10]


# --------------------------------------------------------------------------------------------
# contexts

_CTX = {}


def ctx(t):
    """Context of a triple (cached: contexts are immutable, the cache only saves construction time)."""
    key = json.dumps(t)
    c = _CTX.get(key)
    if c is None:
        if len(_CTX) > 5000:
            _CTX.clear()
        c = _CTX[key] = Context(t[0], t[1], [tuple(r) for r in t[2]])
    return c


def valid_context_triple(O, P):
    return bool(O) and bool(P) and not set(O) & set(P)


def check_context(case):
    out = []
    d = mk(case['a'])
    m = Model(*case['a'])
    for op in case.get('ops', ()):
        other = mother = None
        if op[0] in ('union_update', 'intersection_update', 'ior', 'iand'):
            other, mother = (d, m) if op[1] == 'self' else (mk(op[1]), Model(*op[1]))
        try:
            c13.model_apply(m, op, mother)
        except ModelReject:
            continue
        try:
            c13.real_apply(d, op, other)
        except Exception:       # noqa: BLE001  (whether the history is accepted is C13's business)
            return out
    objs, props, bools = t = triple(d)      # the clauses below are about this definition, whatever C13 says
    if not valid_context_triple(objs, props):
        return out
    c = Context(*d)
    n, k = len(objs), len(props)
    d2 = c.definition()
    if (c.objects, c.properties, c.bools) != t or type(d2) is not Definition or d2 is d or triple(d2) != t \
            or not (d2 == d) or not (d == d2) or d2 != d:
        out.append(fail('ctx.definition-roundtrip', OBLIGATIONS['ctx.definition-roundtrip'], t,
                        [[c.objects, c.properties, c.bools], triple(d2) if isinstance(d2, Definition) else repr(d2)]))
    c2 = Context(*d2)
    c0 = Context(objs, props, bools)
    res = [c2 == c, c == c2, not (c2 != c), c0 == c, Context(*c0.definition()) == c0]
    if res != [True] * 5:
        out.append(fail('ctx.context-roundtrip', OBLIGATIONS['ctx.context-roundtrip'], [True] * 5, res, triple=t))
    if not (c.shape == d.shape == (n, k) and tuple(c.shape) == tuple(d.shape)):
        out.append(fail('agree.shape', OBLIGATIONS['agree.shape'], [n, k], [list(c.shape), list(d.shape)], triple=t))
    true = sum(map(sum, bools))
    if not (c.fill_ratio == d.fill_ratio == fractions.Fraction(true, n * k)):
        out.append(fail('agree.fill_ratio', OBLIGATIONS['agree.fill_ratio'], '%d/%d' % (true, n * k),
                        [str(c.fill_ratio), str(d.fill_ratio)], triple=t))
    if not (c.tostring() == d.tostring() == str(d)):
        out.append(fail('agree.tostring', OBLIGATIONS['agree.tostring'], d.tostring(), c.tostring(), triple=t))
    if c.crc32() != d.crc32():
        out.append(fail('agree.crc32', OBLIGATIONS['agree.crc32'], d.crc32(), c.crc32(), triple=t))
    else:
        # for every encoding, in any order of calls on the same objects (the table text differs between utf-8 and utf-16)
        repr(c), str(c)
        for enc in ('utf-16', 'utf-8', 'utf-16'):
            if c.crc32(enc) != d.crc32(encoding=enc):
                out.append(fail('agree.crc32', OBLIGATIONS['agree.crc32'] + ' (encoding %s, after earlier calls)' % enc,
                                d.crc32(encoding=enc), c.crc32(enc), triple=t))
                break
    for x in (None, 0, 'a', t, list(t), [list(objs), list(props), bools], d, frozenset()):
        res = [c == x, c != x, x == c, x != c, c.__eq__(x) is NotImplemented, c.__ne__(x) is NotImplemented]
        if res != [False, True, False, True, True, True]:
            out.append(fail('ctx.eq-noncontext', OBLIGATIONS['ctx.eq-noncontext'],
                            [False, True, False, True, True, True], res, other=repr(x)))
            break
    return out[:10]


def check_ctxpair(case):
    out = []
    ta, tb = case['a'], case['b']
    ca, cb = ctx(ta), ctx(tb)
    exp = (tuple(ta[0]), tuple(ta[1]), [tuple(r) for r in ta[2]]) == (tuple(tb[0]), tuple(tb[1]), [tuple(r) for r in tb[2]])
    res = [ca == cb, cb == ca, not (ca != cb), not (cb != ca)]
    if res != [exp] * 4:
        out.append(fail('ctx.eq', OBLIGATIONS['ctx.eq'], [exp] * 4, res, a=ta, b=tb))
    if exp:      # equal triples built independently are equal contexts as well
        fresh = Context(tb[0], tb[1], [tuple(r) for r in tb[2]])
        if not (ca == fresh and fresh == ca) or ca != fresh:
            out.append(fail('ctx.eq', OBLIGATIONS['ctx.eq'], True, False, a=ta, b=tb, note='independently built'))
    # the definitions of the two contexts are equal (as ordered triples) exactly when the contexts are
    da, db = ca.definition(), cb.definition()
    if (triple(da) == triple(db)) is not exp:
        out.append(fail('ctx.eq', OBLIGATIONS['ctx.eq'], exp, triple(da) == triple(db), a=ta, b=tb,
                        note='triples of the definitions'))
    return out[:10]


def check_case(case):
    kind = case['kind']
    if kind == 'derive':
        return check_derive(case)
    if kind == 'context':
        return check_context(case)
    if kind == 'ctxpair':
        return check_ctxpair(case)
    raise ValueError(kind)


def nontrivial(case):
    kind = case['kind']
    if kind == 'derive':
        if not (case['a'][0] and case['a'][1]):
            return None
        ma = Model(*case['a'])
        mb = ma if case.get('b') == 'self' else (Model(*case['b']) if case.get('b') is not None else None)
        try:
            model_derive(ma, mb, case['op'])
        except ModelReject:
            return None
    elif kind == 'context':
        if not case.get('ops') and not valid_context_triple(case['a'][0], case['a'][1]):
            return None
    return hashlib.md5(json.dumps(case, sort_keys=True).encode()).digest()[:10]


# --------------------------------------------------------------------------------------------
# generators

UNARY = (['copy'], ['transposed'], ['neg'], ['inverted'], ['invert'])
BINARY = (['union'], ['union', True], ['or'], ['intersection'], ['intersection', True], ['and'])
BINARY_EDIT = (['union', True], ['or'], ['intersection', True], ['and'])


def derive(a, b, op, edits=False):
    return {'kind': 'derive', 'a': a, 'b': b, 'op': list(op), 'edits': bool(edits)}


def take_args(ouniv, puniv):
    """Argument choices of take over a universe: None, [], every ordered subset, duplicates, unknown, other axis."""
    def choices(univ, other):
        out = [None] + [list(s) for s in c13.ordered_subsets(univ)]
        out += [[univ[0], univ[0]], [univ[-1], univ[0], univ[-1]], ['q'], [univ[0], 'q'], [other[0]]]
        return out
    co, cp = choices(ouniv, puniv), choices(puniv, ouniv)
    for o in co:
        for p in cp:
            for reorder in (False, True):
                yield ['take', o, p, reorder]
    for o in co:
        yield ['take', o]
        yield ['take', o, None]
    yield ['take']


def ctx_triples_universe():
    for t in c13.all_definitions(['a', 'b'], ['x', 'y']):
        if valid_context_triple(t[0], t[1]):
            yield t


def _vary(rng, t):
    """A context triple differing from t in exactly one cell, one label or one order (or equal)."""
    O, P, B = [list(t[0]), list(t[1]), [list(r) for r in t[2]]]
    how = rng.choice(('same', 'cell', 'olabel', 'plabel', 'oswap', 'pswap', 'rowswap'))
    if how == 'cell':
        i, j = rng.randrange(len(O)), rng.randrange(len(P))
        B[i][j] = not B[i][j]
    elif how == 'olabel':
        O[rng.randrange(len(O))] = 'other'
    elif how == 'plabel':
        P[rng.randrange(len(P))] = 'other'
    elif how == 'oswap' and len(O) > 1:
        O[0], O[1] = O[1], O[0]
    elif how == 'pswap' and len(P) > 1:
        P[0], P[1] = P[1], P[0]
    elif how == 'rowswap' and len(O) > 1:
        O[0], O[1] = O[1], O[0]
        B[0], B[1] = B[1], B[0]
    return [O, P, B]


def gen_cases(tier, rng):
    quick = tier == 'quick'
    ou, pu = ['a', 'b'], ['x', 'y']
    defs = list(c13.all_definitions(ou, pu))
    # unary derivations, follow-up edits throughout
    for a in defs:
        for op in UNARY:
            yield derive(a, None, op, edits=True)
    # take
    targs = list(take_args(ou, pu))
    k = 0
    for a in defs:
        for op in targs:
            k += 1
            yield derive(a, None, op, edits=(not quick) or k % 16 == 0)
    # binary: every ordered pair, table checks; edits sampled (quick) / all (thorough)
    for a in defs:
        for b in defs:
            for op in BINARY:
                yield derive(a, b, op, edits=(not quick) and op in [list(x) for x in BINARY_EDIT])
        for op in BINARY:
            yield derive(a, 'self', op, edits=False)
    if quick:
        for _ in range(300):
            a, b = rng.choice(defs), rng.choice(defs)
            for op in BINARY_EDIT:
                yield derive(a, b, op, edits=True)
    else:
        ou3, pu3 = ['a', 'b', 'c'], ['x', 'y', 'w']

        def rand_def():
            O = rng.sample(ou3, rng.randint(0, 3))
            P = rng.sample(pu3, rng.randint(0, 3))
            dens = rng.choice((0.2, 0.5, 0.8))
            return [O, P, [[rng.random() < dens for _ in P] for _ in O]]
        for i in range(30000):
            a = rand_def()
            b = rand_def()
            if rng.random() < 0.5:      # make the shared cells agree
                ma = Model(*a)
                b = [b[0], b[1], [[((o, p) in ma.C) if (o in ma.O and p in ma.P) else b[2][r][c]
                                   for c, p in enumerate(b[1])] for r, o in enumerate(b[0])]]
            yield derive(a, b, rng.choice(BINARY), edits=i % 10 == 0)
        for i in range(20000):
            a = rand_def()

            def arg(univ, other):
                r = rng.random()
                if r < 0.15:
                    return None
                names = [rng.choice(univ) for _ in range(rng.randint(0, 4))]
                if r > 0.9:
                    names.insert(rng.randint(0, len(names)), rng.choice(['q', other[0]]))
                return names
            yield derive(a, None, ['take', arg(a[0] or ou3, pu3), arg(a[1] or pu3, ou3), rng.random() < 0.5],
                         edits=i % 10 == 0)
    # contexts
    tables = common.tables_upto(3, 3) if quick else common.tables_cells(12)
    for rows in tables:
        n, m_ = len(rows), len(rows[0])
        yield {'kind': 'context', 'a': [list(common.labels(n, 'o')), list(common.labels(m_, 'p')),
                                        [list(r) for r in rows]]}
    ctxs = list(ctx_triples_universe())
    for t in ctxs:
        yield {'kind': 'context', 'a': t}
    for _ in range(150 if quick else 3000):
        h = c13.random_history(rng, 25)
        yield {'kind': 'context', 'a': h['init'], 'ops': h['ops']}
    # pairs of contexts
    for ta in ctxs:
        for tb in ctxs:
            yield {'kind': 'ctxpair', 'a': ta, 'b': tb}
    # labels that differ only in ways a rendered text form may hide: trailing/leading blanks, padding width, case
    pool = ['a', 'a ', ' a', 'ab', 'A', 'a  ', 'ab ']
    for la in pool:
        for lb in pool:
            for extra in ('ab', 'abc'):
                ta = [[extra, la], ['p'], [[True], [False]]]
                tb = [[extra, lb], ['p'], [[True], [False]]]
                if la != extra and lb != extra:
                    yield {'kind': 'ctxpair', 'a': ta, 'b': tb}
                    yield {'kind': 'ctxpair', 'a': [['o'], [extra, la], [[True, False]]], 'b': [['o'], [extra, lb], [[True, False]]]}
    if not quick:
        for i in range(20000):
            n, m_ = rng.randint(1, 3), rng.randint(1, 3)
            ta = [list(common.labels(n, 'o')), list(common.labels(m_, 'p')),
                  [list(r) for r in common.random_table(rng, n, m_)]]
            if i % 2:
                tb = _vary(rng, ta)
            else:
                n2, m2 = rng.randint(1, 3), rng.randint(1, 3)
                tb = [list(common.labels(n2, 'o')), list(common.labels(m2, 'p')),
                      [list(r) for r in common.random_table(rng, n2, m2)]]
            yield {'kind': 'ctxpair', 'a': ta, 'b': tb}
