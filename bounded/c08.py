"""C08 bounded stand-in: order and logical-relation predicates on concepts match their extents.

Run-time contract on the real Concept.__le__/__ge__/__lt__/__gt__, implies/subsumes/properly_implies/
properly_subsumes and incompatible_with/complement_of/subcontrary_with/orthogonal_to for every ordered
pair of concepts (including x with itself), against set inclusion/intersection/union of the extents
(index sets read off the concepts, the universe of objects taken from the table) and, reversed, of the
intents.  Only the truthiness of the results is compared (the statement specifies nothing else).
"""
from . import common
from .common import Oracle, fail, idx

RULE = ('cases = boolean tables (K scopes of DESIGN 3.4); per table all ordered pairs of concepts incl. (x, x), '
        '12 predicates per pair, then the partial-order laws on the observed relation matrices (all triples, via '
        'row masks); non-trivial = table with >= 2 concepts, distinct up to row/column permutation')
SCOPE = {'quick': 'all tables <= 3x3, structured families <= 4, 40 random <= 6x6, 3 wide tables (> 64 bit)',
         'thorough': 'all tables with n*m <= 12, structured families <= 6, 400 random <= 7x7, 6 wide tables'}

MAX_FAIL = 10

C_LE = 'x <= y (implies) iff extent(x) is a subset of extent(y) iff intent(y) is a subset of intent(x)'
C_CONV = '>=, <, > (subsumes, properly_*) are the converse/strict versions'
C_PO = 'the predicates form a partial order in which distinct concepts are never mutually <='
C_INC = 'incompatible_with holds iff no object lies in both extents'
C_COM = 'complement_of iff additionally the extents together contain every object'
C_SUB = 'subcontrary_with iff they share an object and together contain every object'
C_ORT = 'orthogonal_to iff they share an object, neither contains the other, and some object lies in neither'


def gen_cases(tier, rng):
    return common.standard_cases(tier, rng)


def check_case(case):
    out = []
    ctx = common.context_of_case(case)
    lat = ctx.lattice
    o = Oracle(case['rows'])
    cs = list(lat)
    N = len(cs)
    ext = [idx(c._extent) for c in cs]
    int_ = [idx(c._intent) for c in cs]
    if len(set(ext)) != N or set(ext) != o.extents():
        return [fail('pre.concepts', 'precondition (C03): the lattice members are exactly the formal concepts, once each',
                     sorted(map(sorted, o.extents())), sorted(map(sorted, ext)))]
    allobj = frozenset(range(o.n))

    def add(*a, **kw):
        out.append(fail(*a, **kw))
        return len(out) >= MAX_FAIL

    LE = [0] * N   # observed relation matrices as row masks: bit b of LE[a] <=> bool(cs[a] <= cs[b])
    GE = [0] * N
    LT = [0] * N
    GT = [0] * N
    for a, x in enumerate(cs):
        ea, ia = ext[a], int_[a]
        for b, y in enumerate(cs):
            eb, ib = ext[b], int_[b]
            args = {'x': sorted(ea), 'y': sorted(eb)}
            sub, sup = ea <= eb, eb <= ea
            if sub != (ib <= ia):
                if add('order.intent-dual', C_LE, sub, ib <= ia, **args):
                    return out
            obs = (bool(x <= y), bool(x.implies(y)))
            if obs != (sub, sub):
                if add('order.le', C_LE, [sub, sub], obs, columns=['x <= y', 'x.implies(y)'], **args):
                    return out
            obs2 = (bool(x >= y), bool(x.subsumes(y)))
            if obs2 != (sup, sup):
                if add('order.ge', C_CONV, [sup, sup], obs2, columns=['x >= y', 'x.subsumes(y)'], **args):
                    return out
            lt = sub and ea != eb
            obs3 = (bool(x < y), bool(x.properly_implies(y)))
            if obs3 != (lt, lt):
                if add('order.lt', C_CONV, [lt, lt], obs3, columns=['x < y', 'x.properly_implies(y)'], **args):
                    return out
            gt = sup and ea != eb
            obs4 = (bool(x > y), bool(x.properly_subsumes(y)))
            if obs4 != (gt, gt):
                if add('order.gt', C_CONV, [gt, gt], obs4, columns=['x > y', 'x.properly_subsumes(y)'], **args):
                    return out
            if obs[0]:
                LE[a] |= 1 << b
            if obs2[0]:
                GE[a] |= 1 << b
            if obs3[0]:
                LT[a] |= 1 << b
            if obs4[0]:
                GT[a] |= 1 << b
            # logical relations, by truthiness
            share = bool(ea & eb)
            cover = (ea | eb) == allobj
            for name, clause, exp in (
                    ('incompatible_with', C_INC, not share),
                    ('complement_of', C_COM, (not share) and cover),
                    ('subcontrary_with', C_SUB, share and cover),
                    ('orthogonal_to', C_ORT, share and not sub and not sup and not cover)):
                got = bool(getattr(x, name)(y))
                if got != exp:
                    if add('relation.' + name, clause, exp, got, **args):
                        return out

    # partial-order laws on the observed matrices
    for a in range(N):
        bit = 1 << a
        if not LE[a] & bit or not GE[a] & bit or LT[a] & bit or GT[a] & bit:
            if add('po.reflexive', C_PO, {'<=': True, '>=': True, '<': False, '>': False},
                   {'<=': bool(LE[a] & bit), '>=': bool(GE[a] & bit), '<': bool(LT[a] & bit), '>': bool(GT[a] & bit)},
                   x=sorted(ext[a])):
                return out
        for b in range(N):
            ab, ba = bool(LE[a] >> b & 1), bool(LE[b] >> a & 1)
            if a != b and ab and ba:
                if add('po.antisymmetric', C_PO, 'not (x <= y and y <= x) for distinct x, y', [ab, ba],
                       x=sorted(ext[a]), y=sorted(ext[b])):
                    return out
            if ab != bool(GE[b] >> a & 1) or bool(LT[a] >> b & 1) != bool(GT[b] >> a & 1):
                if add('po.converse', C_CONV, 'x <= y iff y >= x, x < y iff y > x',
                       {'x<=y': ab, 'y>=x': bool(GE[b] >> a & 1), 'x<y': bool(LT[a] >> b & 1), 'y>x': bool(GT[b] >> a & 1)},
                       x=sorted(ext[a]), y=sorted(ext[b])):
                    return out
            if bool(LT[a] >> b & 1) != (ab and a != b):
                if add('po.strict', C_CONV, 'x < y iff x <= y and x is not y',
                       {'x<y': bool(LT[a] >> b & 1), 'x<=y': ab, 'same': a == b}, x=sorted(ext[a]), y=sorted(ext[b])):
                    return out
            if ab and LE[b] & ~LE[a]:
                z = (LE[b] & ~LE[a]).bit_length() - 1
                if add('po.transitive', C_PO, 'x <= y and y <= z imply x <= z', False,
                       x=sorted(ext[a]), y=sorted(ext[b]), z=sorted(ext[z])):
                    return out
    return out[:MAX_FAIL]
