"""Differential replay (bounded, /venv/bin/python) of the character-level mutants of pyvc/mutants_chars.py: every mutant is applied to the
source text of its module, the mutated module is executed IN MEMORY (nothing is written to /repo) and its observable is compared with the
clean tree's over an enumerated scope; the verdict listed for the mutant ('equivalent' / 'breaks') must be what the comparison finds.

Observable, table (REP tables only, every indent of the scope):  loads(dumps(objects, properties, bools, indent=k))
Observable, FIMI:  the text written (write_concepts_dat through a real file, Fimi.dumps) and the tuples read_concepts_dat reads back
Observable, csv (REP of bounded/csv_rep.py only):  loads(dumps(objects, properties, bools, object_header=h, bools_as_int=a), bools_as_int=a or None),
                under the default csv.field_size_limit() and under the limit 1 (labels of at most one character); a mutant of tools.py is observed
                through the clean Csv class with tools.write_csv_file replaced

Run by hand:  /venv/bin/python -m bounded.chars_mutants      (the proof side judges the same list: python3-vt -m pyvc.mutants)
"""
import importlib
import itertools
import os
import sys
import tempfile
import types

from bounded.table_rep import rep

ROOT = '/repo'


def load_mutated(relpath, old, new):
    """the module of /repo/<relpath> with `old` replaced by `new`, executed under its own name in a fresh namespace (relative imports resolve
    against the installed package); the format registry of the clean tree is restored afterwards"""
    from concepts.formats import base
    with open(os.path.join(ROOT, relpath), encoding='utf-8') as f:
        src = f.read()
    assert src.count(old) >= 1, ('mutant does not apply', relpath, old)
    name = relpath[:-3].replace('/', '.')
    mod = types.ModuleType(name)
    mod.__package__ = name.rpartition('.')[0]
    mod.__file__ = os.path.join(ROOT, relpath)
    saved = dict(base.FormatMeta._map), dict(base.FormatMeta.by_suffix)
    try:
        exec(compile(src.replace(old, new, 1), mod.__file__, 'exec'), mod.__dict__)
    finally:
        base.FormatMeta._map.clear()
        base.FormatMeta._map.update(saved[0])
        base.FormatMeta.by_suffix.clear()
        base.FormatMeta.by_suffix.update(saved[1])
    return mod


def table_scope():
    labels_o = ['a', '', 'b c', 'long label', 'X']
    labels_p = ['p', 'q r', 'X', 'a long one']
    for no, np_ in ((1, 1), (2, 1), (1, 2), (2, 2), (2, 3), (3, 3)):
        for objects in (labels_o[:no], labels_o[1:1 + no], ['', '', ''][:no]):
            for properties in (labels_p[:np_], labels_p[1:1 + np_]):
                for cells in itertools.product((False, True), repeat=no * np_):
                    bools = [tuple(cells[r * np_:(r + 1) * np_]) for r in range(no)]
                    assert rep(objects, properties, bools)
                    for k in (0, 2):
                        yield list(objects), list(properties), bools, k


def observe_table(cls, scope):
    out = []
    for objects, properties, bools, k in scope:
        try:
            r = cls.loads(cls.dumps(objects, properties, bools, indent=k))
            out.append((list(r.objects), list(r.properties), [tuple(b) for b in r.bools]))
        except Exception as e:      # noqa: BLE001
            out.append(type(e).__name__)
    return out


def csv_scope():
    """(objects, properties, bools, object_header, bools_as_int on dumping, bools_as_int on loading, csv.field_size_limit()) -- all in REP"""
    import csv
    from bounded.csv_rep import rep
    big = csv.field_size_limit()
    labels_o = ['a', '', 'x\ry', ' x ', 'X', 'x,y', '"', 'x\r\ny', "it's", '0']
    labels_p = ['p', 'x\ny', 'a;b', '', 'q r ', '1', '"p"', '\r']
    shapes = []
    for no, np_ in ((0, 0), (0, 1), (0, 2), (1, 0), (2, 0), (1, 1), (2, 1), (1, 2), (2, 2), (3, 3)):
        for shift in range(0, 4):
            objects = [labels_o[(shift * 3 + i) % len(labels_o)] for i in range(no)]
            properties = [labels_p[(shift * 3 + i) % len(labels_p)] for i in range(np_)]
            fills = itertools.product((False, True), repeat=no * np_) if no * np_ <= 4 else [(False,) * 9, (True,) * 9, (True, False, False, False, True, False, True, True, False)]
            for cells in fills:
                shapes.append((objects, properties, [tuple(cells[r * np_:(r + 1) * np_]) for r in range(no)]))
    # no property and blanks at the end of the text; ragged rows
    shapes += [(['a', ' x '], [], [(), ()]), (['\t'], [], [()]), ([], ['p', 'q '], []), (['a', 'b'], ['p'], [(True,), ()]), (['a', 'b'], ['p', 'q'], [(True, False), (True,)]),
               (['a', 'b'], ['p'], [(), ()])]
    for objects, properties, bools in shapes:
        for header in (None, 'objects', 'x,"y'):
            for a in (False, True):
                for mode in (a, None):
                    if rep(objects, properties, bools, a, mode, header, big):
                        yield objects, properties, bools, header, a, mode, big
    small = ['', 'a', ',', '"', '\n']
    for no, np_ in ((1, 1), (2, 1), (2, 2)):
        for shift in range(0, 5):
            objects = [small[(shift + i) % 5] for i in range(no)]
            properties = [small[(shift * 2 + i + 1) % 5] for i in range(np_)]
            for cells in itertools.product((False, True), repeat=no * np_):
                bools = [tuple(cells[r * np_:(r + 1) * np_]) for r in range(no)]
                for header in (None, 'h'):
                    for a in (False, True):
                        for mode in (a, None):
                            assert rep(objects, properties, bools, a, mode, header, 1)
                            yield objects, properties, bools, header, a, mode, 1


def observe_csv(cls, scope):
    import csv
    out = []
    big = csv.field_size_limit()
    try:
        for objects, properties, bools, header, a, mode, lim in scope:
            csv.field_size_limit(lim)
            try:
                r = cls.loads(cls.dumps(list(objects), list(properties), list(bools), object_header=header, bools_as_int=a), bools_as_int=mode)
                out.append((list(r.objects), list(r.properties), [tuple(b) for b in r.bools]))
            except Exception as e:      # noqa: BLE001
                out.append(type(e).__name__)
    finally:
        csv.field_size_limit(big)
    return out


class Members:
    def __init__(self, xs):
        self.xs = xs

    def iter_set(self):
        return iter(self.xs)


def observe_fimi(mod, tmpdir):
    out = []
    pool = [[], [0], [0, 1], [2, 10], [7, 123456789012345678901234567890]]
    path = os.path.join(tmpdir, 'concepts.dat')
    for k in range(0, 3):
        for rows in itertools.product(pool, repeat=k):
            try:
                mod.write_concepts_dat(path, [(Members(r), Members(r[::-1])) for r in rows], extents=True)
                with open(path, encoding='ascii', newline='') as f:
                    text = f.read()
                out.append((text, list(mod.read_concepts_dat(path))))
            except Exception as e:      # noqa: BLE001
                out.append(type(e).__name__)
    for no in range(0, 3):
        for np_ in range(0, 3):
            for cells in itertools.product((False, True), repeat=no * np_):
                bools = [cells[r * np_:(r + 1) * np_] for r in range(no)]
                try:
                    out.append(mod.Fimi.dumps(['o'] * no, ['p'] * np_, bools))
                except Exception as e:      # noqa: BLE001
                    out.append(type(e).__name__)
    return out


def main(verbose=True):
    sys.path.insert(0, os.path.dirname(os.path.dirname(os.path.abspath(__file__))))
    spec = importlib.util.spec_from_file_location('mutants_chars', os.path.join(os.path.dirname(os.path.dirname(os.path.abspath(__file__))),
                                                                                'pyvc', 'mutants_chars.py'))
    mc = importlib.util.module_from_spec(spec)          # loaded by path: pyvc/__init__ must not be imported here (z3 is not installed in /venv)
    spec.loader.exec_module(mc)
    from concepts.formats import Format, fimi as clean_fimi
    scope = list(table_scope())
    clean_table = observe_table(Format['table'], scope)
    assert all(not isinstance(o, str) and o == (ob, pr, bo) for o, (ob, pr, bo, _) in zip(clean_table, scope)), 'the clean tree does not round-trip the scope'
    wrong = []
    with tempfile.TemporaryDirectory() as d:
        clean_f = observe_fimi(clean_fimi, d)
        for relpath, old, new, units, expect in mc.MUTANTS:
            mod = load_mutated(relpath, old, new)
            if relpath == mc.FTB:
                got = observe_table(mod.Table, scope)
                differs = sum(1 for a, b in zip(got, clean_table) if a != b)
                total = len(scope)
            else:
                got = observe_fimi(mod, d)
                differs = sum(1 for a, b in zip(got, clean_f) if a != b)
                total = len(clean_f)
            found = 'breaks' if differs else 'equivalent'
            ok = found == expect
            if verbose:
                print('%-6s %-10s differs on %5d of %5d  %s: %r -> %r' % ('ok' if ok else 'WRONG', expect, differs, total, relpath, old[:40], new[:40]))
            if not ok:
                wrong.append((relpath, old, new, expect, found))
    # ---- the csv format
    import concepts.tools as clean_tools
    cscope = list(csv_scope())
    clean_csv = observe_csv(Format['csv'], cscope)
    assert all(not isinstance(o, str) and o == (ob, pr, bo) for o, (ob, pr, bo, *_) in zip(clean_csv, cscope)), 'the clean tree does not round-trip the csv scope'
    for relpath, old, new, units, expect in mc.CSV_MUTANTS:
        mod = load_mutated(relpath, old, new)
        if relpath == mc.FCSV:
            got = observe_csv(mod.Csv, cscope)
        else:
            saved = clean_tools.write_csv_file
            clean_tools.write_csv_file = mod.write_csv_file
            try:
                got = observe_csv(Format['csv'], cscope)
            finally:
                clean_tools.write_csv_file = saved
        differs = sum(1 for a, b in zip(got, clean_csv) if a != b)
        found = 'breaks' if differs else 'equivalent'
        ok = found == expect
        if verbose:
            print('%-6s %-10s differs on %5d of %5d  %s: %r -> %r' % ('ok' if ok else 'WRONG', expect, differs, len(cscope), relpath, old[:40], new[:40]))
        if not ok:
            wrong.append((relpath, old, new, expect, found))
    return len(mc.MUTANTS) + len(mc.CSV_MUTANTS), wrong


if __name__ == '__main__':
    n, wrong = main()
    print(n, 'mutants replayed;', len(wrong), 'wrong')
    sys.exit(1 if wrong else 0)
