"""Replay (bounded, /venv/bin/python): the representability precondition REP of lemma.csv.chars.roundtrip (contracts/formats_chars_csv.py) is
EXACT on an enumerated scope: the real ``Csv.loads(Csv.dumps(objects, properties, bools, object_header=h, bools_as_int=a), bools_as_int=mode)``
returns the given triple IF AND ONLY IF REP holds.  "If" is what the lemma proves for all tables; "only if" is negative knowledge.

REP (L = csv.field_size_limit(), here >= 1):
  len(bools) == len(objects);  every label is a str of at most L characters (ANY characters);  h is None or such a str;
  mode == a,  or  mode is None and len(objects) >= 1 and (not a, or the first row has a cell, or no row has a cell).
What REP does NOT ask, against the property statement of C12 and against the row-level lemma.csv.roundtrip: a label may be '' or equal to a cell
symbol ('X', '0', '1': objects are never looked up in `values`), there may be no property at all (the row of a lone '' object is written as `""`),
the rows of `bools` may have different lengths (they come back as given), labels may contain commas, quotes, '\\r', '\\n', NUL, blanks at the ends.
ONE class of successes outside REP, counted separately ("accident"): loading with the OTHER bools_as_int when there is no cell at all.

Observed outside REP: a label longer than L -> _csv.Error ("field larger than field limit"); a label that is not a str comes back as its str()
(None as '') -- wrong result WITHOUT an exception; len(bools) != len(objects) -> the surplus objects / rows are lost WITHOUT an exception; no object with
mode None -> StopIteration; a 0/1 file whose first row has no cell, read with mode None -> KeyError; the other bools_as_int -> KeyError.

Not part of a property check (C12's bounded module is bounded/c12.py); run by hand:  /venv/bin/python -m bounded.csv_rep
"""
import csv
import itertools

GOOD = ['a', '', 'X', '0', '1', ' x ', 'x,y', 'x"y', '"', '""', 'x\ny', 'x\ry', 'x\r\ny', '\n', '\r', ',', 'x\x00', '\x85', 'x y', '\xe9', '\t']
BAD = [5, None, 1.5]
LABELS = GOOD + BAD
SMALL = ['a', '', 'X', '0', 'x,y', '"', 'x\ny', '\r', ' x ', 5, None, 'x\r\ny']
HEADERS = [None, 'objects', '', 'x,"y\r\nz']


def label_ok(x, lim):
    return isinstance(x, str) and len(x) <= lim


def rep(objects, properties, bools, a, mode, header, lim):
    if not (lim >= 1 and len(bools) == len(objects) and all(label_ok(x, lim) for x in list(objects) + list(properties))
            and (header is None or label_ok(header, lim))):
        return False
    if mode is None:
        return len(objects) >= 1 and (not a or len(bools[0]) >= 1 or all(len(row) == 0 for row in bools))
    return mode == a


def accident(objects, properties, bools, a, mode, header, lim):
    """the successes outside REP: read with the other bools_as_int, and there is no cell at all to decode"""
    return mode is not None and mode != a and rep(objects, properties, bools, a, a, header, lim) and all(len(row) == 0 for row in bools)


def roundtrips(fmt, objects, properties, bools, a, mode, header):
    try:
        r = fmt.loads(fmt.dumps(objects, properties, bools, object_header=header, bools_as_int=a), bools_as_int=mode)
    except Exception as e:      # noqa: BLE001  (_csv.Error, KeyError, StopIteration, ValueError: all observed)
        return False, type(e).__name__
    got = (list(r.objects), list(r.properties), list(r.bools))
    want = (list(objects), list(properties), [tuple(b) for b in bools])
    # same VALUES and same TYPES: 5 == 5.0, True == 1 and '5' != 5 are all to be told apart
    ok = got == want and all(type(x) is type(y) for x, y in zip(got[0] + got[1], want[0] + want[1]))
    return ok, 'ok' if ok else 'wrong-result-without-exception'


def check(fmt, outcomes, objects, properties, bools, lim, headers=HEADERS, modes=None):
    k = 0
    for a in (False, True):
        for mode in (modes if modes is not None else (a, None, not a)):
            for header in headers:
                ok, how = roundtrips(fmt, list(objects), list(properties), bools, a, mode, header)
                want = rep(objects, properties, bools, a, mode, header, lim)
                lucky = accident(objects, properties, bools, a, mode, header, lim)
                assert ok == (want or lucky), (objects, properties, bools, a, mode, header, lim, how)
                how = 'ok-by-accident (the other bools_as_int, no cell)' if ok and not want else how
                outcomes[how] = outcomes.get(how, 0) + 1
                k += 1
    return k


def main():
    from concepts.formats import Format
    fmt = Format['csv']
    lim = csv.field_size_limit()
    n = 0
    outcomes = {}
    fills = {(1, 1): [[(True,)], [(False,)]], (1, 2): [[(True, False)], [(False, False)]], (2, 1): [[(False,), (True,)], [(False,), (False,)]],
             (2, 2): [[(True, False), (False, True)], [(False, False), (False, False)]]}
    # ---- every choice of labels, n, m <= 2 (the full label list but for 2 x 2)
    for (no, np_), tables in fills.items():
        pool = SMALL if (no, np_) == (2, 2) else LABELS
        for objects in itertools.product(pool, repeat=no):
            for properties in itertools.product(pool, repeat=np_):
                for bools in tables:
                    n += check(fmt, outcomes, objects, properties, bools, lim, headers=HEADERS[:2] if (no, np_) == (2, 2) else HEADERS)
    # ---- shapes: no object, no property, ragged rows, len(bools) != len(objects); all fills up to 3 x 3 over representable labels
    shapes = [([], [], []), ([], ['p'], []), ([], ['p', 'q'], []), (['a'], [], [()]), ([''], [], [()]), (['', ''], [], [(), ()]), (['X', ''], [], [(), ()]),
              (['a', 'b'], ['p'], [(True,), ()]), (['a', 'b'], ['p'], [(), (True,)]), (['a', 'b'], ['p', 'q'], [(True, False), (True,)]),
              (['a', 'b'], ['p'], [(), ()]), (['a', 'b', 'c'], ['p'], [(), (), (False,)]), (['a'], ['p'], [(True, False, True)]),
              (['a', 'b'], ['p'], [(True,)]), (['a'], ['p'], [(True,), (False,)]), (['a', 'b'], [], [()]), (['a'], ['p'], []), ([], ['p'], [(True,)])]
    for objects, properties, bools in shapes:
        n += check(fmt, outcomes, objects, properties, bools, lim)
    for no in (1, 2, 3):
        for np_ in (1, 2, 3):
            for objects in (['a', '', 'x,y'][:no], ['X', '0', '\n'][:no]):
                for properties in (['p', '', '"q"'][:np_], ['1', 'X', 'x\r\ny'][:np_]):
                    for cells in itertools.product((False, True), repeat=no * np_):
                        bools = [cells[r * np_:(r + 1) * np_] for r in range(no)]
                        n += check(fmt, outcomes, objects, properties, bools, lim, headers=HEADERS[:2])
    # ---- the field size limit: the default one at its edge ...
    edge, over = 'x' * lim, 'x' * (lim + 1)
    quoted_edge, quoted_over = '"' + ',' * (lim - 1), '"' * (lim + 1)
    for objects, properties, header in (([edge], ['p'], None), ([over], ['p'], None), (['a'], [edge], None), (['a'], [over], None), (['a'], ['p'], edge),
                                        (['a'], ['p'], over), ([quoted_edge], ['p'], None), ([quoted_over], ['p'], None), (['a', over], [], None)):
        n += check(fmt, outcomes, objects, properties, [(True,) * len(properties)] * len(objects), lim, headers=[header])
    # ---- ... and a small one (process-wide state: restored)
    try:
        csv.field_size_limit(2)
        pool = ['', 'a', 'ab', 'abc', 'a"', '"""', ',\n', 'a\r\n']
        for objects in itertools.product(pool, repeat=2):
            for properties in itertools.product(pool, repeat=1):
                n += check(fmt, outcomes, objects, properties, [(True,), (False,)], 2, headers=[None, 'ab', 'abc'])
        csv.field_size_limit(0)          # outside REP (L >= 1): only a file of empty cells can be read
        for objects, properties, bools, a, want in ((['', ''], [''], [(False,), (False,)], False, True), ([''], [], [()], True, True),
                                                    ([''], [''], [(True,)], False, False), ([''], [''], [(False,)], True, False)):
            assert roundtrips(fmt, objects, properties, bools, a, a, None)[0] == want
            n += 1
    finally:
        csv.field_size_limit(lim)
    return n, outcomes


if __name__ == '__main__':
    print(main())
