"""Linkage check (DESIGN 2.1): the live function objects the proofs talk about are the extracted ones.

Input: JSON list of {unit, expr, file, line, name}; `expr` is evaluated in a namespace with a sample context.
Output: JSON {checked, mismatches}.
"""
import json
import os
import sys

from . import common
import concepts


def namespace():
    import importlib
    for m in ('algorithms', 'lattices', 'lattice_members', 'contexts', 'tools', 'junctors', 'visualize', 'matrices',
              'definitions', 'formats', 'algorithms.lindig', 'algorithms.fcbo', 'algorithms.common'):
        importlib.import_module('concepts.' + m)
    ctx = concepts.Context(('a', 'b', 'c'), ('p', 'q', 'r'), [(1, 0, 1), (1, 1, 0), (0, 1, 1)])
    lat = ctx.lattice
    d = concepts.Definition(('a',), ('p',), [(True,)])
    return {'ctx': ctx, 'lat': lat, 'c': lat[1], 'd': d, 'concepts': concepts}


def main():
    with open(sys.argv[1]) as f:
        links = json.load(f)
    ns = namespace()
    mism, n = [], 0
    for l in links:
        n += 1
        # an expression over `type(c)` is evaluated for every concept class of the sample lattice (Infimum, Atom, Concept,
        # Supremum): an override in a subclass means the function under contract is not the one that runs there
        variants = [dict(ns, c=x) for x in ns['lat']] if 'type(c)' in l['expr'] else [ns]
        for ns_ in variants:
          try:
            obj = eval(l['expr'], ns_)
            fn = getattr(obj, '__func__', obj)
            fn = getattr(fn, 'fget', fn)
            code = fn.__code__
            ok_file = os.path.realpath(code.co_filename) == os.path.realpath(l['file'])
            if not ok_file and code.co_filename.startswith('<frozen '):
                # frozen stdlib module: compare with the source file of the same installation (module.__file__)
                import importlib
                m = importlib.import_module(code.co_filename[len('<frozen '):-1])
                ok_file = os.path.realpath(getattr(m, '__file__', '')) == os.path.realpath(l['file'])
            ok_line = code.co_firstlineno <= l['line'] <= code.co_firstlineno + 4
            ok_name = code.co_name == l['name']
            if not (ok_file and ok_line and ok_name):
                mism.append(dict(l, why='live object%s is %s:%d %s' % (
                    ' for ' + type(ns_['c']).__name__ if len(variants) > 1 else '', code.co_filename, code.co_firstlineno, code.co_name)))
                break
          except Exception as e:
            mism.append(dict(l, why='%s: %s' % (type(e).__name__, e)))
            break
    print(json.dumps({'checked': n, 'mismatches': mism}))
    return 1 if mism else 0


if __name__ == '__main__':
    sys.exit(main())
