"""C17 bounded stand-in: all results are deterministic across processes and hash seeds.

A *case* is one corpus section with its parameters.  `observe(spec)` executes that section against the real
library and returns a long text of tagged observation lines (memory addresses masked: 0x... -> 0xADDR).
`check_case(case)` runs `observe` in separate interpreter processes (`python -m bounded.c17 --observe <json>`,
VERIF_REPO passed on) under several PYTHONHASHSEED values - each process additionally with a different
allocation pattern (junk objects created and partly dropped before and while the library objects are built, since
concepts are hashed by address in tools.maximal / Lattice._annotate) - and compares the outputs byte for byte.
A failure reports the first differing line for the two processes.

Sections (obligation ids `seed.<section>`):
  text-forms        table/csv/cxt/python-literal/wiki/fimi text, dict and JSON forms with and without lattice,
                    files written and loaded back, round trips, graphviz source
  lattice-order     iteration order, index/dindex, neighbour orders, upset/downset(_union), generalization,
                    attributes()/minimal(), join/meet, lookups, str(lattice), fcbo orders, _tolist
  relations         relations() list: str, tostring, reprs, with and without unary
  error-message     messages that list names: overlap (>= 3 common names), duplicates, conflicting values in
                    union/intersection, take() with several unknown names, fromdict errors, rename/move/remove
  definition-order  object/property order, bools, str/tostring/repr/crc32 of Definitions after every step of an edit
                    history (set_/add_ object/property with several new names in non-alphabetical order, union,
                    intersection, |=, &=, take, rename, move, remove, remove_empty_*, inverted, transposed)
  unknown-name      which unknown name a KeyError reports when several unknown labels are looked up
                    (Context.intension/extension/__getitem__, Lattice.__getitem__/__call__)
"""
import io
import json
import os
import random
import re
import shutil
import subprocess
import sys
import tempfile

from . import common
from .common import fail, concepts

RULE = ('case = one corpus section (text-forms, lattice-order, relations, error-message, definition-order, unknown-name) '
        'with its parameters (a labelled table with >= 6 multi-character names per side in non-alphabetical order, an edit '
        'history, name lists); each case is observed in one interpreter process per PYTHONHASHSEED, every process with its '
        'own junk-allocation pattern, outputs compared byte for byte; non-trivial = distinct (section, parameters); an '
        'observation of fewer than 3 lines or a crashing observation script is itself a failure')
SCOPE = {'quick': '17 cases (2 text-forms, 4 lattice-order, 2 relations, 2 error-message, 6 definition-order histories of '
                  '<= 14 steps, 1 unknown-name) x PYTHONHASHSEED 0, 1, 2 x allocation patterns 0, 2, 5',
         'thorough': '136 cases (12 text-forms, 30 lattice-order up to 9x9, 12 relations, 8 error-message, 70 definition-order '
                     'histories of <= 30 steps, 4 unknown-name) x PYTHONHASHSEED 0, 1, 2, 3, 12345, 987654321, random x '
                     'allocation patterns 0, 1, 2, 3, 5, 8, 13'}

SEEDS = {'quick': ['0', '1', '2'],
         'thorough': ['0', '1', '2', '3', '12345', '987654321', 'random']}
ALLOCS = {'quick': [0, 2, 5],
          'thorough': [0, 1, 2, 3, 5, 8, 13]}

CLAUSE = ('for the same inputs and the same sequence of calls every observable result is identical in every interpreter '
          'process regardless of string-hash randomisation and object addresses (addresses in reprs masked): %s')

SECTION_WHAT = {
    'text-forms': 'table/csv/cxt/literal/JSON text and dict form',
    'lattice-order': 'lattice iteration order and indices, neighbor and traversal orders',
    'relations': 'relations list',
    'error-message': 'error messages listing names',
    'definition-order': 'object/property order of definitions after any edit or combination',
    'unknown-name': 'error message naming an unknown label',
}

# multi-character labels, deliberately not in alphabetical order (string hashing is what the seed changes)
OBJECTS = ['Ravenna', 'kiwi', 'Zebra finch', 'otter', 'Lynx', 'ibis', 'manatee', 'quokka', 'Axolotl', 'wombat',
           'narwhal', 'Grünfink']
PROPERTIES = ['swims', 'flies', 'nocturnal', 'Arboreal', 'venomous', 'striped', 'herbivore', 'social', 'Migratory',
              'burrows', 'bioluminescent', 'kälteresistent']
FRESH = ['zz top', 'aardvark', 'mm-middle', 'Beta', 'omega3', 'delta', 'Yankee', 'charlie', 'xylophone', 'Echo',
         'november', 'foxtrot', 'Whiskey', 'golf', 'uniform', 'Hotel', 'tango', 'india', 'Sierra', 'juliett']


# --------------------------------------------------------------------------------------------
# observation side (runs in the subprocess)

_ADDR = re.compile(r'0x[0-9a-fA-F]+')
_KEEP = []


class _Junk:
    """Same shape as a lattice concept (instance dict with five attributes): competes for the same allocator pools."""

    def __init__(self, i):
        self.lattice = None
        self._extent = i
        self._intent = i
        self.upper_neighbors = (i,)
        self.lower_neighbors = [i]


def perturb(k, salt=0):
    """Create junk and drop part of it, leaving holes in the allocator pools (pattern k; k = 0: nothing)."""
    if not k:
        return
    rng = random.Random(k * 1009 + salt)
    junk = [_Junk(i) for i in range(rng.randrange(40, 160) * k)]
    junk += [(i, str(i)) for i in range(rng.randrange(10, 50) * k)]
    rng.shuffle(junk)
    _KEEP.append(junk[::2] if k % 2 else junk[1::3])
    del junk


class Out:
    def __init__(self):
        self.lines = []

    def __call__(self, tag, value):
        text = value if isinstance(value, str) else repr(value)
        text = _ADDR.sub('0xADDR', text)
        parts = text.split('\n')
        if len(parts) == 1:
            self.lines.append('%s: %s' % (tag, text))
        else:
            for i, p in enumerate(parts):
                self.lines.append('%s[%d]: %s' % (tag, i, p))

    def err(self, tag, fn, *args, **kwargs):
        """Observe the result or the exception (type, str, repr) of a call."""
        try:
            res = fn(*args, **kwargs)
        except Exception as e:     # noqa: BLE001 - the text of any exception is the observation
            self('%s !%s' % (tag, type(e).__name__), str(e))
            self('%s !repr' % tag, repr(e))
            return None
        self('%s ok' % tag, res if isinstance(res, str) else repr(res))
        return res

    def text(self):
        return '\n'.join(self.lines) + '\n'


def _context(table):
    return concepts.Context(tuple(table['objects']), tuple(table['properties']), [tuple(r) for r in table['rows']])


def _definition(table):
    return concepts.Definition(tuple(table['objects']), tuple(table['properties']), [tuple(r) for r in table['rows']])


def _idx(cs):
    return [c.index for c in cs]


def obs_text_forms(out, p, alloc):
    perturb(alloc, 1)
    ctx = _context(p['table'])
    out('repr', repr(ctx))
    out('str', str(ctx))
    out('crc32', ctx.crc32())
    out('shape', repr((ctx.shape, ctx.fill_ratio)))
    for frmat in ('table', 'cxt', 'csv', 'python-literal', 'wiki-table', 'wikitable', 'fimi'):
        out('tostring.%s' % frmat, ctx.tostring(frmat))
    out('tostring.csv.int', ctx.tostring('csv', bools_as_int=True, object_header='Name of the animal'))
    out('tostring.table.indent', ctx.tostring('table', indent=3))
    out('todict.nolattice', repr(ctx.todict(ignore_lattice=True)))
    out('todict.none', repr(ctx.todict(ignore_lattice=None)))
    perturb(alloc, 2)
    d = ctx.todict()
    out('todict', repr(d))
    out('todict.json', json.dumps(d))
    out('todict.json.sorted', json.dumps(d, sort_keys=True, indent=1))
    out('literal.with-lattice', ctx.tostring('python-literal'))
    for sort_keys in (True, False):
        for ignore in (False, True):
            buf = io.StringIO()
            ctx.tojson(buf, sort_keys=sort_keys, ignore_lattice=ignore, indent=None)
            out('tojson.%s.%s' % (sort_keys, ignore), buf.getvalue())
    # round trips through every loadable text form
    for frmat in ('table', 'cxt', 'csv', 'python-literal'):
        text = ctx.tostring(frmat)
        back = concepts.Context.fromstring(text, frmat=frmat)
        out('roundtrip.%s' % frmat, repr((back == ctx, back.objects, back.properties, back.bools, back.crc32())))
        out('roundtrip.%s.text' % frmat, back.tostring(frmat))
        out('roundtrip.%s.lattice' % frmat, repr(back.lattice._tolist()))
    buf = io.StringIO()
    ctx.tojson(buf)
    buf.seek(0)
    back = concepts.Context.fromjson(buf)
    out('fromjson', repr(back.todict()))
    out('fromjson.str', str(back.lattice))
    # dict form with the lattice entries in another order (raw=True sorts them again)
    lat = list(d['lattice'])
    rng = random.Random(41)
    order = list(range(len(lat)))
    rng.shuffle(order)
    pos = {old: new for new, old in enumerate(order)}
    shuffled = [(lat[old][0], lat[old][1], tuple(pos[i] for i in lat[old][2]), tuple(pos[i] for i in lat[old][3]))
                for old in order]
    back = concepts.Context.fromdict(dict(d, lattice=shuffled), raw=True)
    out('fromdict.raw', repr(back.lattice._tolist()))
    out('fromdict.raw.str', str(back.lattice))
    back = concepts.Context.fromdict(dict(d), ignore_lattice=True)
    out('fromdict.ignore', repr(back.todict()))
    # definition text forms
    dfn = ctx.definition()
    out('definition.repr', repr(dfn))
    out('definition.str', str(dfn))
    out('definition.crc32', dfn.crc32())
    for frmat in ('table', 'cxt', 'csv', 'python-literal', 'wiki-table', 'fimi'):
        out('definition.tostring.%s' % frmat, dfn.tostring(frmat))
    # files
    tmp = tempfile.mkdtemp(prefix='verif-c17-')
    try:
        for frmat, name in (('cxt', 'a.cxt'), ('csv', 'a.csv'), ('table', 'a.txt'), ('python-literal', 'a.py')):
            path = os.path.join(tmp, name)
            ctx.tofile(path, frmat=frmat)
            with open(path, 'rb') as f:
                out('file.%s.bytes' % frmat, repr(f.read()))
            back = concepts.load(path)
            out('file.%s.load' % frmat, repr((back == ctx, back.crc32(), back.lattice._tolist())))
            out('file.%s.definition' % frmat, repr(concepts.Definition.fromfile(path, frmat=frmat))
                if frmat != 'python-literal' else '-')
        path = os.path.join(tmp, 'a.json')
        ctx.tojson(path, indent=2)
        with open(path, 'rb') as f:
            out('file.json.bytes', repr(f.read()))
        out('file.json.load', repr(concepts.Context.fromjson(path).todict()))
        cl = concepts.algorithms.get_concepts(ctx)
        for extents in (False, True):
            path = os.path.join(tmp, 'c%d.dat' % extents)
            cl.tofile(path, extents=extents)
            with open(path, 'rb') as f:
                out('file.dat.%s' % extents, repr(f.read()))
            out('file.dat.%s.read' % extents, repr(list(concepts.formats.read_concepts_dat(path))))
    finally:
        shutil.rmtree(tmp, ignore_errors=True)
    out('graphviz', ctx.lattice.graphviz().source)


def obs_lattice_order(out, p, alloc):
    perturb(alloc, 3)
    ctx = _context(p['table'])
    perturb(alloc, 4)
    lat = ctx.lattice
    perturb(alloc, 5)
    out('repr', repr(lat))
    out('str', str(lat))
    out('len', len(lat))
    out('tolist', repr(lat._tolist()))
    for c in lat:
        out('c%d' % c.index, repr((c.index, c.dindex, type(c).__name__, c.extent, c.intent, c.objects, c.properties,
                                  _idx(c.upper_neighbors), _idx(c.lower_neighbors), _idx(c.atoms))))
        out('c%d.str' % c.index, str(c))
        out('c%d.repr' % c.index, repr(c))
        out('c%d.tuple' % c.index, repr(tuple(c)))
        out('c%d.minimal' % c.index, repr(c.minimal()))
        attrs = []
        for a in c.attributes():
            attrs.append(a)
            if len(attrs) >= 12:
                break
        out('c%d.attributes' % c.index, repr(attrs))
        out('c%d.upset' % c.index, repr(_idx(c.upset())))
        out('c%d.downset' % c.index, repr(_idx(c.downset())))
    out('infimum', repr(lat.infimum))
    out('supremum', repr(lat.supremum))
    out('atoms', repr(lat.atoms))
    out('slice', repr(lat[1:4]))
    # traversals from several seed sets, given in scrambled orders and with repetitions
    rng = random.Random(int(p.get('query_seed', 7)))
    all_c = list(lat)
    for q in range(int(p.get('queries', 8))):
        k = rng.randint(1, min(6, len(all_c)))
        seeds = [rng.choice(all_c) for _ in range(k)]
        if q % 2:
            seeds = seeds + seeds[:2]
        tag = 'q%d%s' % (q, _idx(seeds))
        out('%s.upset_union' % tag, repr(_idx(lat.upset_union(seeds))))
        out('%s.downset_union' % tag, repr(_idx(lat.downset_union(seeds))))
        out('%s.upset_union.repr' % tag, repr(list(lat.upset_union(iter(seeds)))))
        out('%s.generalization' % tag, repr(_idx(lat.upset_generalization(seeds))))
        out('%s.join' % tag, repr(lat.join(seeds)))
        out('%s.meet' % tag, repr(lat.meet(seeds)))
        a, b = seeds[0], seeds[-1]
        out('%s.binary' % tag, repr((a | b, a & b, a <= b, a < b, a >= b, a > b, a.incompatible_with(b),
                                     a.complement_of(b), bool(a.subcontrary_with(b)), a.orthogonal_to(b))))
    out('join.empty', repr((lat.join([]), lat.meet([]))))
    out('upset_union.empty', repr((list(lat.upset_union([])), list(lat.downset_union([])))))
    # lookups by labels
    objs, props = list(ctx.objects), list(ctx.properties)
    for q in range(6):
        os_ = rng.sample(objs, rng.randint(1, min(3, len(objs))))
        ps_ = rng.sample(props, rng.randint(1, min(3, len(props))))
        out('lookup%d' % q, repr((os_, ps_, lat[tuple(os_)], lat[tuple(ps_)], lat(ps_), ctx[os_], ctx[ps_],
                                  ctx.intension(os_), ctx.extension(ps_), ctx.neighbors(os_))))
    out('lookup.empty', repr(lat[()]))
    # the generators
    alg = concepts.algorithms
    out('fast_generate_from', repr([(e.members(), i.members()) for e, i in alg.fast_generate_from(ctx)]))
    out('fcbo_dual', repr([(e.members(), i.members()) for e, i in alg.fcbo_dual(ctx)]))
    out('iterconcepts', repr([(str(c), c.index_sets()) for c in alg.iterconcepts(ctx)]))
    out('get_concepts', repr([c.index_sets(as_set=False) for c in alg.get_concepts(ctx)]))
    out('lindig', repr([(e.members(), i.members(), [u.members() for u in up], [l.members() for l in lo])
                        for e, i, up, lo in list(ctx._lattice())]))
    # a second lattice of an equal context built after more allocation: same text
    perturb(alloc, 6)
    again = ctx.copy().lattice
    out('again', repr((again._eq(lat), again._tolist() == lat._tolist(), str(again) == str(lat))))
    out('again.str', str(again))


def obs_relations(out, p, alloc):
    perturb(alloc, 7)
    ctx = _context(p['table'])
    for unary in (False, True):
        rel = ctx.relations(include_unary=unary)
        tag = 'unary' if unary else 'binary'
        out('%s.str' % tag, str(rel))
        out('%s.tostring' % tag, rel.tostring())
        out('%s.tostring.noorth' % tag, rel.tostring(exclude_orthogonal=True))
        out('%s.repr' % tag, repr(rel))
        out('%s.reprs' % tag, repr([repr(r) for r in rel]))
        out('%s.strs' % tag, repr([str(r) for r in rel]))
        out('%s.fields' % tag, repr([(r.kind, r.left, r.right if r.__class__.binary else None, r.order, r.symbol, r.index)
                                     for r in rel]))
    out('direct', repr(concepts.junctors.Relations(ctx.properties, ctx._extents.bools(), include_unary=True)))


def obs_error_message(out, p, alloc):
    perturb(alloc, 8)
    objs, props, common_names, fresh = p['objects'], p['properties'], p['common'], p['fresh']
    Context, Definition = concepts.Context, concepts.Definition
    row = tuple(True for _ in props)
    # overlap of objects and properties (>= 3 common names, in different orders on both sides)
    o2 = objs[:2] + common_names + objs[2:]
    p2 = props[:1] + common_names[::-1] + props[1:]
    out.err('overlap', Context, o2, p2, [tuple(i % 2 == 0 for i in range(len(p2)))] * len(o2))
    p3 = common_names[1:] + props + common_names[:1]
    out.err('overlap.2', Context, o2, p3, [tuple(i % 3 == 0 for i in range(len(p3)))] * len(o2))
    out.err('overlap.fromdict', Context.fromdict, {'objects': o2, 'properties': p2, 'context': [[0]] * len(o2)})
    # duplicates
    out.err('dup.objects', Context, objs + objs[1:3], props, [row] * (len(objs) + 2))
    out.err('dup.properties', Context, objs, props + props[-2:], [row + row[:2]] * len(objs))
    out.err('dup.definition.objects', Definition, objs + [objs[3], objs[0]], props, [row] * (len(objs) + 2))
    out.err('dup.definition.properties', Definition, objs, props + [props[2], props[1]], [row + row[:2]] * len(objs))
    out.err('empty.objects', Context, [], props, [])
    out.err('empty.properties', Context, objs, [], [()] * len(objs))
    out.err('shape', Context, objs, props, [row[:-1]] * len(objs))
    # conflicting values in union / intersection
    bools_a = [tuple((i + j) % 2 == 0 for j in range(len(props))) for i in range(len(objs))]
    bools_b = [tuple((i * j) % 3 == 0 for j in range(len(props))) for i in range(len(objs))]
    a = Definition(objs, props, bools_a)
    b = Definition(objs[::-1] + fresh[:2], props[2:] + props[:2] + fresh[2:4],
                   [bools_b[i][2:] + bools_b[i][:2] + (True, False) for i in range(len(objs))][::-1]
                   + [tuple(True for _ in range(len(props) + 2))] * 2)
    out.err('union.conflict', a.union, b)
    out.err('union.conflict.rev', b.union, a)
    out.err('intersection.conflict', a.intersection, b)
    out.err('or.conflict', lambda: a | b)
    out.err('and.conflict', lambda: b & a)
    out.err('ior.conflict', a.copy().union_update, b)
    out.err('iand.conflict', b.copy().intersection_update, a)
    out.err('union.ignore', lambda: repr(a.union(b, ignore_conflicts=True)))
    out.err('intersection.ignore', lambda: repr(b.intersection(a, ignore_conflicts=True)))
    out('conflicting_pairs', repr(list(concepts.definitions.conflicting_pairs(a, b))))
    out('conflicting_pairs.rev', repr(list(concepts.definitions.conflicting_pairs(b, a))))
    # take() with several unknown names
    out.err('take.objects', a.take, [fresh[0], objs[0], fresh[1], fresh[2]])
    out.err('take.properties', a.take, None, [fresh[3], props[1], fresh[2], fresh[1], fresh[0]])
    out.err('take.both', a.take, [fresh[4], fresh[0], objs[1]], [fresh[3], fresh[2], props[0], fresh[1]], True)
    out.err('take.repeated', a.take, [fresh[1], fresh[0], fresh[1], fresh[0], fresh[2]])
    # item access and edits with unknown / existing names
    out.err('getitem.unknown', lambda: a[fresh[0], fresh[1]])
    out.err('getitem.unknown.property', lambda: a[objs[0], fresh[1]])
    out.err('rename.existing', a.copy().rename_object, objs[0], objs[2])
    out.err('rename.property.existing', a.copy().rename_property, props[0], props[2])
    out.err('rename.unknown', a.copy().rename_object, fresh[0], fresh[1])
    out.err('move.unknown', a.copy().move_object, fresh[2], 0)
    out.err('remove.unknown', a.copy().remove_object, fresh[3])
    out.err('remove.property.unknown', a.copy().remove_property, fresh[3])
    out.err('setitem.int', a.copy().__setitem__, 0, True)
    # fromdict errors
    good = {'objects': objs, 'properties': props, 'context': [[0, 1]] * len(objs)}
    out.err('fromdict.missing2', Context.fromdict, {'context': []})
    out.err('fromdict.missing3', Context.fromdict, {'lattice': []})
    out.err('fromdict.missing1', Context.fromdict, {'properties': props, 'objects': objs})
    out.err('fromdict.nonstring.objects', Context.fromdict, dict(good, objects=objs[:-1] + [17]))
    out.err('fromdict.nonstring.properties', Context.fromdict, dict(good, properties=[None] + props[1:]))
    out.err('fromdict.mismatch', Context.fromdict, dict(good, context=[[0]]))
    out.err('fromdict.duplicated', Context.fromdict, dict(good, context=[[0, 0]] * len(objs)))
    out.err('fromdict.invalid', Context.fromdict, dict(good, context=[[0, len(props)]] * len(objs)))
    out.err('fromdict.empty-lattice', Context.fromdict, dict(good, lattice=[]))
    out.err('fromdict.require', Context.fromdict, dict(good), require_lattice=True)
    # formats
    ctx = Context(objs, props, bools_a)
    out.err('format.unknown', ctx.tostring, 'no-such-' + fresh[0])
    out.err('format.infer', concepts.load, 'file.' + fresh[1].replace(' ', ''))
    out.err('csv.symbols', Context.fromstring, 'name,%s\n%s,Y,N\n' % (','.join(props[:2]), objs[0]), frmat='csv')
    out.err('copy.lattice', ctx.copy, include_lattice=True)


def _state(out, tag, d):
    out('%s.objects' % tag, repr(d.objects))
    out('%s.properties' % tag, repr(d.properties))
    out('%s.bools' % tag, ' '.join(''.join('X' if v else '.' for v in row) for row in d.bools) or '-')


def _final(out, tag, d):
    """Everything printable about a definition (through err(): an emptied definition has no cxt form, no fill ratio)."""
    _state(out, tag, d)
    out.err('%s.repr' % tag, repr, d)
    out.err('%s.str' % tag, str, d)
    out.err('%s.crc32' % tag, lambda: repr((d.crc32(), d.shape)))
    out.err('%s.fill_ratio' % tag, lambda: repr(d.fill_ratio))
    for frmat in ('cxt', 'csv', 'python-literal'):
        out.err('%s.tostring.%s' % (tag, frmat), d.tostring, frmat)
    out.err('%s.list' % tag, lambda: repr(list(d)))
    out('%s.unique' % tag, repr((d._objects, d._properties)))


def _apply(out, tag, d, op, others):
    """One step of an edit history; returns the (possibly new) definition."""
    name, args = op[0], op[1:]
    if name.endswith('_iter'):
        # the same edit with its names handed over as a one-shot iterator (seeded C17-L: iterators materialised into a set)
        out.err(tag, getattr(d, name[:-5]), args[0], iter(list(args[1])))
    elif name in ('set_object', 'set_property', 'add_object', 'add_property', 'rename_object', 'rename_property',
                'move_object', 'move_property', 'remove_object', 'remove_property',
                'remove_empty_objects', 'remove_empty_properties'):
        out.err(tag, getattr(d, name), *args)
    elif name == 'setitem':
        o, prop, value = args
        out.err(tag, d.__setitem__, (o, prop), value)
    elif name in ('union_update', 'intersection_update'):
        out.err(tag, getattr(d, name), others[args[0]].copy(), bool(args[1]))
    elif name == 'ior':
        def ior(d=d):
            d |= others[args[0]].copy()
        out.err(tag, ior)
    elif name == 'iand':
        def iand(d=d):
            d &= others[args[0]].copy()
        out.err(tag, iand)
    elif name in ('union', 'intersection'):
        res = out.err(tag, lambda: getattr(d, name)(others[args[0]], bool(args[1])))
        d = res if res is not None else d
    elif name == 'runion':     # the other definition on the left
        res = out.err(tag, lambda: others[args[0]].union(d, bool(args[1])))
        d = res if res is not None else d
    elif name == 'take':
        res = out.err(tag, lambda: d.take(args[0], args[1], reorder=bool(args[2])))
        d = res if res is not None else d
    elif name == 'inverted':
        d = ~d if args and args[0] else d.inverted()
    elif name == 'transposed':
        d = -d if args and args[0] else d.transposed()
    elif name == 'copy':
        c = d.copy()
        out(tag, repr((c == d, c is not d)))
        d = c
    else:
        raise ValueError('unknown history step %r' % (op,))
    return d


def obs_definition_order(out, p, alloc):
    perturb(alloc, 9)
    d = _definition(p['table']) if p.get('table') else concepts.Definition()
    others = [_definition(t) for t in p.get('others', [])]
    _state(out, 'start', d)
    for i, o in enumerate(others):
        _state(out, 'other%d' % i, o)
    for step, op in enumerate(p['history']):
        tag = 's%02d %s' % (step, json.dumps(op, ensure_ascii=True))
        d = _apply(out, tag, d, op, others)
        _state(out, 's%02d' % step, d)
        if step % 4 == 3:
            out('s%02d.str' % step, str(d))
    _final(out, 'final', d)
    for i, o in enumerate(others):
        _final(out, 'other%d.after' % i, o)      # the operands are never changed by combinations
        for name, fn in (('union', lambda: d.union(o, True)), ('runion', lambda: o.union(d, True)),
                         ('intersection', lambda: d.intersection(o, True)), ('rintersection', lambda: o.intersection(d, True)),
                         ('or', lambda: d | o), ('and', lambda: o & d)):
            res = out.err('final.%s.other%d' % (name, i), lambda: repr(fn()))
            del res
        out('final.conflicts.other%d' % i, repr(list(concepts.definitions.conflicting_pairs(d, o))))
        out('final.eq.other%d' % i, repr((d == o, d != o)))
    for name, x in (('inverted', d.inverted()), ('transposed', d.transposed()), ('copy', d.copy())):
        _final(out, 'final.%s' % name, x)
    if d.objects and d.properties:
        def lattice_text():
            ctx = concepts.Context(*d)
            return '%s\n%s\n%s' % (ctx, ctx.lattice, ctx.relations())
        out.err('final.context', lattice_text)


def obs_unknown_name(out, p, alloc):
    """Dependency probe: bitsets.frommembers looks the labels up in set order."""
    perturb(alloc, 10)
    ctx = _context(p['table'])
    lat = ctx.lattice
    unknown, objs, props = p['unknown'], list(ctx.objects), list(ctx.properties)
    out.err('intension', ctx.intension, unknown[:3] + objs[:1])
    out.err('extension', ctx.extension, props[:1] + unknown[1:])
    out.err('getitem', lambda: ctx[tuple(unknown)])
    out.err('neighbors', ctx.neighbors, unknown[::-1])
    out.err('lattice.getitem', lambda: lat[tuple(unknown[:2] + unknown[3:])])
    out.err('lattice.call', lat, unknown[2:] + unknown[:2])
    for i in range(len(unknown)):       # one unknown name among known ones: always the same message
        out.err('single%d' % i, ctx.intension, objs[:2] + [unknown[i]] + objs[2:])
    for i in range(len(unknown) - 1):   # two unknown names
        out.err('pair%d' % i, ctx.extension, [unknown[i], unknown[i + 1]])


SECTIONS = {'text-forms': obs_text_forms, 'lattice-order': obs_lattice_order, 'relations': obs_relations,
            'error-message': obs_error_message, 'definition-order': obs_definition_order,
            'unknown-name': obs_unknown_name}


def observe(corpus_spec):
    """Execute one corpus section; returns the observation text (deterministic iff the library is)."""
    out = Out()
    out('section', corpus_spec['section'])
    SECTIONS[corpus_spec['section']](out, corpus_spec['params'], int(corpus_spec.get('alloc', 0)))
    return out.text()


# --------------------------------------------------------------------------------------------
# checking side

def _spawn(case, seed, alloc):
    env = dict(os.environ)
    env['PYTHONHASHSEED'] = str(seed)
    env['VERIF_REPO'] = common.REPO
    env['PYTHONIOENCODING'] = 'utf-8'
    spec = {'section': case['section'], 'params': case['params'], 'alloc': alloc}
    text = json.dumps(spec)
    if len(text) < 60000:      # small specs travel on the command line, bigger ones through stdin
        return subprocess.Popen([sys.executable, '-m', 'bounded.c17', '--observe', text], cwd=common.VERIF, env=env,
                                stdin=subprocess.DEVNULL, stdout=subprocess.PIPE, stderr=subprocess.PIPE), None
    return subprocess.Popen([sys.executable, '-m', 'bounded.c17', '--observe', '-'], cwd=common.VERIF, env=env,
                            stdin=subprocess.PIPE, stdout=subprocess.PIPE, stderr=subprocess.PIPE), text.encode('utf-8')


def _first_difference(a, b):
    la, lb = a.split(b'\n'), b.split(b'\n')
    for i in range(max(len(la), len(lb))):
        x = la[i] if i < len(la) else b'<end of output>'
        y = lb[i] if i < len(lb) else b'<end of output>'
        if x != y:
            return i + 1, x.decode('utf-8', 'replace'), y.decode('utf-8', 'replace')
    return None


def check_case(case):
    section = case['section']
    seeds = [str(s) for s in case['seeds']]
    allocs = list(case.get('allocs') or [0])
    runs = []
    for i, seed in enumerate(seeds):
        alloc = allocs[i % len(allocs)]
        runs.append((seed, alloc) + _spawn(case, seed, alloc))
    results = []
    for seed, alloc, proc, stdin in runs:
        stdout, stderr = proc.communicate(stdin)
        results.append((seed, alloc, proc.returncode, stdout, stderr))
    out = []
    what = SECTION_WHAT[section]
    for seed, alloc, code, stdout, stderr in results:
        if code != 0 or stdout.count(b'\n') < 3:
            out.append(fail('seed.observe-runs', 'the observation script of the section runs to completion in every process',
                            'exit code 0 and an observation text', {'exit': code, 'lines': stdout.count(b'\n'),
                                                                    'stderr': stderr.decode('utf-8', 'replace')[-1500:]},
                            seed=seed, alloc=alloc, section=section))
    if out:
        return out[:3]
    seed0, alloc0, _, ref, _ = results[0]
    for seed, alloc, _, stdout, _ in results[1:]:
        if stdout != ref:
            line, x, y = _first_difference(ref, stdout)
            out.append(fail('seed.%s' % section, CLAUSE % what,
                            'PYTHONHASHSEED=%s alloc=%s line %d: %s' % (seed0, alloc0, line, x[:600]),
                            'PYTHONHASHSEED=%s alloc=%s line %d: %s' % (seed, alloc, line, y[:600]),
                            seeds=[seed0, seed], allocs=[alloc0, alloc], line=line, tag=x.split(':', 1)[0][:120]))
    return out[:3]


def nontrivial(case):
    """A key per (section, parameters)."""
    if case.get('kind') != 'seed':
        return None
    return (case['section'], json.dumps(case['params'], sort_keys=True))


# --------------------------------------------------------------------------------------------
# corpus

def _table(objects, properties, rows):
    return {'objects': list(objects), 'properties': list(properties), 'rows': [[bool(v) for v in r] for r in rows]}


def animals():
    """Fixed 8 x 8 table: contingent, equivalent, complementary, implied, full and empty columns; a repeated row."""
    objs = OBJECTS[:8]
    props = PROPERTIES[:8]
    rows = ['X..X.X.X',
            '.X...XX.',
            '.X.XXX..',
            'X.X..X.X',
            '..XX.XX.',
            'XX...X..',
            'X.X..X.X',
            '...X.XX.']
    return _table(objs, props, [[ch == 'X' for ch in r] for r in rows])


def _random_table(rng, n, m, density=None):
    objs = rng.sample(OBJECTS, n)
    props = rng.sample(PROPERTIES, m)
    return _table(objs, props, common.random_table(rng, n, m, density))


def _named(rows, rng):
    n, m = len(rows), len(rows[0])
    return _table(rng.sample(OBJECTS, n), rng.sample(PROPERTIES, m), rows)


FIXED_HISTORIES = [
    # several new multi-character names in non-alphabetical order through every kind of edit
    [['set_object', 'quokka', ['zz top', 'aardvark', 'mm-middle', 'Beta']],
     ['set_property', 'omega3', ['Yankee', 'charlie', 'xylophone', 'Echo', 'Ravenna']],
     ['add_object', 'Whiskey', ['tango', 'india', 'Sierra', 'golf', 'swims']],
     ['add_property', 'uniform', ['november', 'foxtrot', 'Hotel', 'kiwi', 'juliett']],
     ['set_object', 'Ravenna', ['delta', 'flies', 'Beta', 'zz top', 'golf']],
     ['set_property', 'swims', ['juliett', 'Axolotl', 'wombat', 'Echo']],
     ['setitem', 'narwhal', 'bioluminescent', True],
     ['setitem', 'kiwi', 'burrows', False],
     ['rename_object', 'Yankee', 'alpha'],
     ['rename_property', 'zz top', 'AA bottom'],
     ['move_object', 'Whiskey', 0],
     ['move_property', 'uniform', 2],
     ['remove_empty_objects'],
     ['remove_empty_properties'],
     ['add_object_iter', 'Xray', ['papa', 'oscar', 'Quebec', 'lima', 'mike']],
     ['add_property_iter', 'victor', ['Zulu', 'bravo', 'Kilo', 'romeo']],
     ['set_object_iter', 'Xray', ['lima', 'papa', 'delta-2', 'Oscar-2']],
     ['set_property_iter', 'victor', ['romeo', 'Zulu', 'Able', 'baker']]],
    [['union', 0, True],
     ['set_object', 'otter', ['golf', 'Hotel', 'Beta', 'social', 'delta', 'aardvark']],
     ['ior', 1],
     ['intersection', 0, True],
     ['add_property', 'Echo', ['wombat', 'Sierra', 'november', 'Axolotl']],
     ['take', ['Sierra', 'otter', 'Axolotl', 'wombat'], None, True],
     ['iand', 1],
     ['runion', 1, True],
     ['inverted', 1],
     ['transposed', 1],
     ['set_property', 'xylophone', ['tango', 'golf', 'charlie']],
     ['transposed', 0],
     ['remove_empty_properties'],
     ['remove_empty_objects'],
     ['copy']],
]


def _random_history(rng, table, n_others, steps):
    """An edit history over known and fresh names; keeps a model of the names only to pick arguments."""
    objs, props = list(table['objects']), list(table['properties'])
    fresh = list(FRESH)
    rng.shuffle(fresh)
    hist = []

    def new_names(k):
        out = []
        for _ in range(k):
            if fresh:
                out.append(fresh.pop())
        return out

    def some(seq, lo, hi):
        seq = list(seq)
        k = min(len(seq), rng.randint(lo, hi))
        return rng.sample(seq, k)

    for _ in range(steps):
        kind = rng.choice(['set_object', 'set_property', 'add_object', 'add_property'] * 3
                          + ['setitem', 'rename_object', 'rename_property', 'move_object', 'move_property',
                             'remove_object', 'remove_property', 'remove_empty_objects', 'remove_empty_properties',
                             'union_update', 'intersection_update', 'ior', 'iand', 'union', 'intersection', 'runion',
                             'take', 'inverted', 'transposed', 'copy'])
        if kind in ('set_object', 'add_object'):
            target = rng.choice(objs + new_names(1)) if objs else (new_names(1) or ['solo'])[0]
            names = some(props, 0, 2) + new_names(rng.randint(2, 4))
            rng.shuffle(names)
            hist.append([kind, target, names])
            if target not in objs:
                objs.append(target)
            props += [x for x in names if x not in props]
        elif kind in ('set_property', 'add_property'):
            target = rng.choice(props + new_names(1)) if props else (new_names(1) or ['solo'])[0]
            names = some(objs, 0, 2) + new_names(rng.randint(2, 4))
            rng.shuffle(names)
            hist.append([kind, target, names])
            if target not in props:
                props.append(target)
            objs += [x for x in names if x not in objs]
        elif kind == 'setitem':
            o = rng.choice(objs + new_names(1)) if objs else 'solo'
            pr = rng.choice(props + new_names(1)) if props else 'lone'
            hist.append([kind, o, pr, rng.random() < 0.6])
            if o not in objs:
                objs.append(o)
            if pr not in props:
                props.append(pr)
        elif kind in ('rename_object', 'rename_property'):
            seq = objs if kind == 'rename_object' else props
            nn = new_names(1)
            if seq and nn:
                old = rng.choice(seq)
                hist.append([kind, old, nn[0]])
                seq[seq.index(old)] = nn[0]
        elif kind in ('move_object', 'move_property'):
            seq = objs if kind == 'move_object' else props
            if seq:
                hist.append([kind, rng.choice(seq), rng.randrange(len(seq))])
        elif kind in ('remove_object', 'remove_property'):
            seq = objs if kind == 'remove_object' else props
            if len(seq) > 3:
                x = rng.choice(seq)
                hist.append([kind, x])
                seq.remove(x)
        elif kind in ('remove_empty_objects', 'remove_empty_properties', 'copy'):
            hist.append([kind])
        elif kind in ('union_update', 'intersection_update', 'union', 'intersection', 'runion'):
            if n_others:
                hist.append([kind, rng.randrange(n_others), rng.random() < 0.7])
        elif kind in ('ior', 'iand'):
            if n_others:
                hist.append([kind, rng.randrange(n_others)])
        elif kind == 'take':
            hist.append([kind, some(objs, 1, 5) if rng.random() < 0.8 else None,
                         some(props, 1, 5) if rng.random() < 0.8 else None, rng.random() < 0.5])
        elif kind in ('inverted', 'transposed'):
            hist.append([kind, int(rng.random() < 0.5)])
            if kind == 'transposed':
                objs, props = props, objs
    return hist


def _others(rng, table, k):
    """Definitions to combine with: overlapping names in other orders plus fresh ones, some cells disagreeing."""
    out = []
    for _ in range(k):
        objs = rng.sample(table['objects'], min(len(table['objects']), rng.randint(2, 5))) + rng.sample(FRESH, 3)
        props = rng.sample(table['properties'], min(len(table['properties']), rng.randint(2, 5))) + rng.sample(FRESH[10:], 2)
        objs = [x for i, x in enumerate(objs) if x not in objs[:i] and x not in props]
        props = [x for i, x in enumerate(props) if x not in props[:i]]
        rng.shuffle(objs)
        rng.shuffle(props)
        rows = []
        for o in objs:
            row = []
            for pr in props:
                if o in table['objects'] and pr in table['properties'] and rng.random() < 0.8:
                    row.append(table['rows'][table['objects'].index(o)][table['properties'].index(pr)])
                else:
                    row.append(rng.random() < 0.5)
            rows.append(row)
        out.append(_table(objs, props, rows))
    return out


def _case(tier, section, **params):
    return {'kind': 'seed', 'section': section, 'params': params, 'seeds': SEEDS[tier], 'allocs': ALLOCS[tier]}


def _error_params(rng):
    names = rng.sample(OBJECTS, 6)
    props = rng.sample(PROPERTIES, 6)
    common_names = rng.sample(FRESH[:10], rng.randint(3, 5))
    fresh = rng.sample(FRESH[10:], 6)
    return {'objects': names, 'properties': props, 'common': common_names, 'fresh': fresh}


def gen_cases(tier, rng):
    quick = tier == 'quick'
    base = animals()
    structured = dict(common.structured_tables(6))
    # --- text forms
    yield _case(tier, 'text-forms', table=base)
    for _ in range(1 if quick else 9):
        yield _case(tier, 'text-forms', table=_random_table(rng, rng.randint(6, 9), rng.randint(6, 9)))
    if not quick:
        yield _case(tier, 'text-forms', table=_named(structured['contranominal4'], rng))
        yield _case(tier, 'text-forms', table=_named(structured['interordinal3'], rng))
    # --- lattice order
    yield _case(tier, 'lattice-order', table=base, queries=8, query_seed=7)
    yield _case(tier, 'lattice-order', table=_named(structured['contranominal4'], rng), queries=10, query_seed=8)
    for i in range(2 if quick else 22):
        yield _case(tier, 'lattice-order', table=_random_table(rng, rng.randint(6, 7 if quick else 9),
                                                               rng.randint(6, 7 if quick else 9)),
                    queries=8 if quick else 16, query_seed=rng.randrange(1000))
    if not quick:
        for name in ('contranominal5', 'nominal6', 'ordinal6', 'interordinal4', 'duprow5', 'dupcol5'):
            yield _case(tier, 'lattice-order', table=_named(structured[name], rng), queries=12, query_seed=rng.randrange(1000))
    # --- relations
    yield _case(tier, 'relations', table=base)
    for _ in range(1 if quick else 9):
        yield _case(tier, 'relations', table=_random_table(rng, rng.randint(6, 8), rng.randint(6, 10)))
    if not quick:
        yield _case(tier, 'relations', table=_named(structured['interordinal4'], rng))
        yield _case(tier, 'relations', table=_named(structured['full4'], rng))
    # --- error messages
    for _ in range(2 if quick else 8):
        yield _case(tier, 'error-message', **_error_params(rng))
    # --- definition edit histories
    other_tables = _others(random.Random(99), base, 2)
    for hist in FIXED_HISTORIES:
        yield _case(tier, 'definition-order', table=base, others=other_tables, history=hist)
    yield _case(tier, 'definition-order', table=None, others=other_tables, history=FIXED_HISTORIES[0][:6])
    for _ in range(3 if quick else 67):
        table = base if rng.random() < 0.3 else _random_table(rng, rng.randint(6, 8), rng.randint(6, 8))
        others = _others(rng, table, 2)
        yield _case(tier, 'definition-order', table=table, others=others,
                    history=_random_history(rng, table, len(others), rng.randint(8, 14 if quick else 30)))
    # --- dependency probe
    for _ in range(1 if quick else 4):
        yield _case(tier, 'unknown-name', table=base if quick else _random_table(rng, 6, 6),
                    unknown=rng.sample(FRESH, 5))


def main(argv=None):
    import argparse
    ap = argparse.ArgumentParser()
    ap.add_argument('--observe', help="corpus spec as JSON, or '-' to read it from stdin")
    a = ap.parse_args(argv)
    raw = sys.stdin.buffer.read().decode('utf-8') if a.observe == '-' else a.observe
    text = observe(json.loads(raw))
    sys.stdout.buffer.write(text.encode('utf-8'))
    sys.stdout.flush()
    return 0


if __name__ == '__main__':
    sys.exit(main())
