"""C19 bounded stand-in: ill-formed input raises ValueError; accepted input is represented faithfully.

Run-time contract on the real Context(objects, properties, rows) and Context.fromdict(d, ...): for every valid
triple / serialized dict of a table and every single (and sampled double) corruption of it, acceptance is decided
by the rules of the property statement (`init_valid`, `dict_valid`: evaluated on the corrupted input itself, so a
double corruption that happens to be well-formed again is expected to be accepted) and compared with what the
real constructor does: accepted => objects/properties/bools reproduce the input exactly (cells by truthiness),
rejected => ValueError and no other exception type.

Only well-typed input is fed: names are strings (fromdict also: ints, to be rejected as non-strings), rows are
lists/tuples, cells are bools/ints/strings/None (truthiness), column indexes are ints.
"""
import random

from . import common
from .common import fail
from .c11 import oracle_encoding

import concepts

RULE = ('cases = boolean tables; per table the valid triple and the valid serialized dicts (with/without lattice, lists/tuples, '
        'truthy non-bool cells), every single corruption (drop/duplicate/move/rename a name, drop/extend a row, drop/add a '
        'cell, shift/repeat/out-of-range an index, str->int name, drop a key, empty lattice, require_lattice without one) and '
        'a seeded sample of double corruptions; non-trivial = table with >= 2 concepts, distinct up to row/column permutation')
SCOPE = {'quick': 'all tables <= 2x3 and <= 3x2 plus 40 seeded 3x3 tables, structured families <= 3; 12 double corruptions '
                  'per table and entry point',
         'thorough': 'all tables <= 3x3, structured families <= 4, 60 random <= 5x5; 40 double corruptions per table and '
                     'entry point'}


def gen_cases(tier, rng):
    if tier == 'quick':
        for n, m in ((1, 1), (1, 2), (2, 1), (2, 2), (1, 3), (3, 1), (2, 3), (3, 2)):
            for rows in common.all_tables(n, m):
                yield common.case_of_table(rows, doubles=12)
        for _ in range(40):
            yield common.case_of_table(common.random_table(rng, 3, 3), doubles=12)
        for name, rows in common.structured_tables(3):
            yield common.case_of_table(rows, family=name, doubles=12)
    else:
        for rows in common.tables_upto(3, 3):
            yield common.case_of_table(rows, doubles=40)
        for name, rows in common.structured_tables(4):
            yield common.case_of_table(rows, family=name, doubles=40)
        for _ in range(60):
            yield common.case_of_table(common.random_table(rng, rng.randint(2, 5), rng.randint(2, 5)), family='random',
                                       doubles=40)


# --------------------------------------------------------------------------------------------
# the rules of the statement

def names_ok(objects, properties):
    """both name lists non-empty, free of duplicates, mutually disjoint"""
    return (len(objects) > 0 and len(properties) > 0
            and len(set(objects)) == len(objects) and len(set(properties)) == len(properties)
            and not (set(objects) & set(properties)))


def init_valid(objects, properties, rows):
    return (names_ok(objects, properties) and len(rows) == len(objects)
            and all(len(r) == len(properties) for r in rows))


def dict_valid(d, require_lattice=False):
    if any(k not in d for k in ('objects', 'properties', 'context')):
        return False
    objects, properties, context = d['objects'], d['properties'], d['context']
    if not all(isinstance(x, str) for x in list(objects) + list(properties)):
        return False
    if len(context) != len(objects):
        return False
    if require_lattice and 'lattice' not in d:
        return False
    if d.get('lattice') is not None and len(d['lattice']) == 0:
        return False
    for r in context:
        if len(set(r)) != len(r) or any(not (isinstance(i, int) and 0 <= i < len(properties)) for i in r):
            return False
    return names_ok(objects, properties)


# --------------------------------------------------------------------------------------------
# corruptions: functions input -> list of (description, corrupted input); inputs are plain lists (deep-copied)

def _copy(v):
    if isinstance(v, dict):
        return {k: _copy(x) for k, x in v.items()}
    if isinstance(v, (list, tuple)):
        return [_copy(x) for x in v]
    return v


def name_corruptions(objects, properties):
    """Corruptions of the two name lists: [(desc, objects, properties)]."""
    out = []
    for which, seq in (('objects', objects), ('properties', properties)):
        other = properties if which == 'objects' else objects

        def put(desc, new_seq, new_other=None):
            no = other if new_other is None else new_other
            o, p = (new_seq, no) if which == 'objects' else (no, new_seq)
            out.append(('%s: %s' % (which, desc), list(o), list(p)))
        for i in range(len(seq)):
            put('drop name %d' % i, seq[:i] + seq[i + 1:])
            put('duplicate name %d at the end' % i, seq + [seq[i]])
            for j in range(len(seq)):
                if i != j:
                    put('name %d replaced by name %d' % (j, i), seq[:j] + [seq[i]] + seq[j + 1:])
                    moved = seq[:i] + seq[i + 1:]
                    moved.insert(j, seq[i])
                    put('move name %d to position %d' % (i, j), moved)
            put('move name %d to the other list' % i, seq[:i] + seq[i + 1:], other + [seq[i]])
            put('copy name %d to the other list' % i, seq, [seq[i]] + other)
        put('add a new name', seq + ['new'])
        put('all names dropped', [])
        if seq:
            # canonically equivalent but DISTINCT strings are distinct names (seeded C19-K: labels normalised on entry)
            put('first name becomes a decomposed accented letter', ['e\u0301'] + seq[1:])
            put('a precomposed and a decomposed form of one letter side by side', ['\xe9', 'e\u0301'] + seq[1:])
            put('first name becomes the angstrom sign', ['\u212b'] + seq[1:], ['\xc5'] + other[1:])
    return out


def init_corruptions(objects, properties, rows):
    out = [(d, o, p, rows) for d, o, p in name_corruptions(objects, properties)]
    for i in range(len(rows)):
        out.append(('drop row %d' % i, objects, properties, rows[:i] + rows[i + 1:]))
        out.append(('duplicate row %d' % i, objects, properties, rows[:i] + [rows[i]] + rows[i:]))
        out.append(('drop last cell of row %d' % i, objects, properties, rows[:i] + [rows[i][:-1]] + rows[i + 1:]))
        out.append(('drop first cell of row %d' % i, objects, properties, rows[:i] + [rows[i][1:]] + rows[i + 1:]))
        out.append(('extra cell in row %d' % i, objects, properties, rows[:i] + [rows[i] + [True]] + rows[i + 1:]))
        out.append(('row %d emptied' % i, objects, properties, rows[:i] + [[]] + rows[i + 1:]))
        if i + 1 < len(rows) and rows[i]:
            # ragged: one cell moved from row i to row i+1 (the set of lengths changes, the total does not)
            out.append(('move a cell from row %d to row %d' % (i, i + 1), objects, properties,
                        rows[:i] + [rows[i][:-1], rows[i + 1] + [rows[i][-1]]] + rows[i + 2:]))
    out.append(('extra row', objects, properties, rows + [[False] * len(properties)]))
    out.append(('no rows', objects, properties, []))
    out.append(('every row one cell short', objects, properties, [r[:-1] for r in rows]))
    out.append(('every row one cell long', objects, properties, [r + [False] for r in rows]))
    out.append(('rows transposed', objects, properties, [list(c) for c in zip(*rows)]))
    # type changes of cells (truthiness)
    out.append(('cells as 0/1', objects, properties, [[int(bool(v)) for v in r] for r in rows]))
    out.append(('cells as strings', objects, properties, [['X' if v else '' for v in r] for r in rows]))
    out.append(('cells as None/2', objects, properties, [[2 if v else None for v in r] for r in rows]))
    return out


def dict_corruptions(d):
    out = []

    def put(desc, **changes):
        new = dict(d)      # shallow: values are never modified in place
        for k, v in changes.items():
            if v is _DROP:
                new.pop(k, None)
            else:
                new[k] = v
        out.append((desc, new))
    objects, properties, context = d['objects'], d['properties'], d['context']
    m = len(properties)
    for k in ('objects', 'properties', 'context'):
        put('drop key %r' % k, **{k: _DROP})
    for desc, o, p in name_corruptions(objects, properties):
        put(desc, objects=o, properties=p)
    for which, seq in (('objects', objects), ('properties', properties)):
        for i in range(len(seq)):
            put('%s: name %d becomes an int' % (which, i), **{which: seq[:i] + [i + 7] + seq[i + 1:]})
            put('%s: name %d becomes None' % (which, i), **{which: seq[:i] + [None] + seq[i + 1:]})
    for i, r in enumerate(context):
        put('drop row %d' % i, context=context[:i] + context[i + 1:])
        put('duplicate row %d' % i, context=context[:i] + [r] + context[i:])

        def row(new, i=i):
            return context[:i] + [new] + context[i + 1:]
        put('row %d: index %d (= column count) added' % (i, m), context=row(r + [m]))
        put('row %d: index -1 added' % i, context=row([-1] + r))
        put('row %d: index %d added' % (i, m + 5), context=row(r + [m + 5]))
        for k, j in enumerate(r):
            if not isinstance(j, int):
                continue        # (second-level corruption of a row that already holds a non-index entry)
            put('row %d: index %d shifted up' % (i, j), context=row(r[:k] + [j + 1] + r[k + 1:]))
            put('row %d: index %d shifted down' % (i, j), context=row(r[:k] + [j - 1] + r[k + 1:]))
            put('row %d: index %d repeated' % (i, j), context=row(r + [j]))
            put('row %d: index %d dropped' % (i, j), context=row(r[:k] + r[k + 1:]))
        put('row %d reversed' % i, context=row(list(reversed(r))))
        # two invalid entries of types that cannot be ordered against each other in ONE row (seeded C19-L: the error message sorted them)
        put('row %d: an out-of-range index and None added' % i, context=row(r + [m + 1, None]))
        put('row %d: an out-of-range index and a string added' % i, context=row(r + [m + 1, '0']))
        put('row %d: a string and None added' % i, context=row(r + ['0', None]))
    put('extra row', context=context + [[]])
    put('no rows', context=[])
    put('empty stored lattice', lattice=[])
    put('empty stored lattice (tuple)', lattice=())
    put('extra key', comment='ignored')
    return out


_DROP = object()


# --------------------------------------------------------------------------------------------

def _try(f):
    try:
        return 'ok', f()
    except ValueError as e:
        return 'ValueError', str(e)
    except Exception as e:      # any other type is a contract failure
        return type(e).__name__, str(e)


def check_init(out, desc, objects, properties, rows, as_tuples=False):
    valid = init_valid(objects, properties, rows)
    args = (tuple(objects), tuple(properties), [tuple(r) for r in rows]) if as_tuples else \
        (list(objects), list(properties), [list(r) for r in rows])
    status, res = _try(lambda: concepts.Context(*args))
    shown = {'objects': objects, 'properties': properties, 'rows': rows}
    if valid:
        if status != 'ok':
            out.append(fail('init.accepts', 'Context(...) succeeds if both name lists are non-empty, free of duplicates and '
                            'mutually disjoint and there is exactly one row per object with exactly one cell per property',
                            'a context', '%s: %s' % (status, res), corruption=desc, input=shown))
            return
        exp = [tuple(objects), tuple(properties), [tuple(bool(v) for v in r) for r in rows]]
        got = [res.objects, res.properties, res.bools]
        if got != exp or not all(type(v) is bool for r in res.bools for v in r):
            out.append(fail('init.faithful', 'whatever is accepted is reproduced exactly by objects, properties and bools '
                            '(cells by truthiness)', exp, got, corruption=desc, input=shown))
    elif status != 'ValueError':
        out.append(fail('init.rejects', 'otherwise it raises ValueError and no context exists',
                        'ValueError', 'a context was returned' if status == 'ok' else '%s: %s' % (status, res),
                        corruption=desc, input=shown))


def check_dict(out, desc, d, stale_lattice=False, as_tuples=False, **kwargs):
    valid = dict_valid(d, require_lattice=kwargs.get('require_lattice', False))
    if valid and stale_lattice and d.get('lattice') and not kwargs.get('ignore_lattice'):
        kwargs['ignore_lattice'] = True      # a stored lattice of another table: behaviour not stated, do not load it
    arg = {k: (tuple(tuple(x) if isinstance(x, list) else x for x in v) if isinstance(v, list) else v)
           for k, v in d.items()} if as_tuples else {k: (v if k == 'lattice' else _copy(v)) for k, v in d.items()}
    status, res = _try(lambda: concepts.Context.fromdict(arg, **kwargs))
    shown = {'d': {k: v for k, v in d.items() if k != 'lattice' or not v}, 'kwargs': kwargs,
             'has_lattice': bool(d.get('lattice'))}
    if valid:
        if status != 'ok':
            out.append(fail('fromdict.accepts', 'fromdict applies the same rules (a well-formed serialized dict is accepted)',
                            'a context', '%s: %s' % (status, res), corruption=desc, input=shown))
            return
        m = len(d['properties'])
        exp = [tuple(d['objects']), tuple(d['properties']), [tuple(j in r for j in range(m)) for r in d['context']]]
        got = [res.objects, res.properties, res.bools]
        if got != exp:
            out.append(fail('fromdict.faithful', 'whatever is accepted is reproduced exactly by objects, properties and bools',
                            exp, got, corruption=desc, input=shown))
    elif status != 'ValueError':
        out.append(fail('fromdict.rejects', 'fromdict additionally rejects missing keys, non-string names, a row count '
                        'different from the object count, out-of-range or repeated column indexes and an empty stored '
                        'lattice, all with ValueError', 'ValueError',
                        'a context was returned' if status == 'ok' else '%s: %s' % (status, res),
                        corruption=desc, input=shown))


def check_case(case):
    out = []
    objects, properties = list(case['objects']), list(case['properties'])
    rows = [list(r) for r in case['rows']]
    rng = random.Random(1905)
    ndouble = case.get('doubles', 12)

    # ---- Context(objects, properties, rows)
    check_init(out, 'none', objects, properties, rows)
    check_init(out, 'none (tuples)', objects, properties, rows, as_tuples=True)
    singles = init_corruptions(objects, properties, rows)
    for k, (desc, o, p, r) in enumerate(singles):
        check_init(out, desc, o, p, r, as_tuples=bool(k % 2))
    for _ in range(ndouble):
        d1, o, p, r = rng.choice(singles)
        second = init_corruptions(o, p, r)
        d2, o2, p2, r2 = rng.choice(second)
        check_init(out, '%s; then %s' % (d1, d2), o2, p2, r2)
    # the complementary double corruption that restores well-formedness: drop a name together with its row / column
    for i in range(len(objects)):
        check_init(out, 'drop object %d and its row' % i, objects[:i] + objects[i + 1:], properties, rows[:i] + rows[i + 1:])
    for j in range(len(properties)):
        check_init(out, 'drop property %d and its column' % j, properties=properties[:j] + properties[j + 1:],
                   objects=objects, rows=[r[:j] + r[j + 1:] for r in rows])

    # ---- Context.fromdict
    enc = oracle_encoding(case)
    d0 = {k: v for k, v in enc.items() if k != 'lattice'}
    check_dict(out, 'none', d0)
    check_dict(out, 'none (tuples)', d0, as_tuples=True)
    check_dict(out, 'none, ignore_lattice', d0, ignore_lattice=True)
    check_dict(out, 'none, require_lattice without a stored lattice', d0, require_lattice=True)
    check_dict(out, 'none, raw', d0, raw=True)
    check_dict(out, 'stored lattice', enc)
    check_dict(out, 'stored lattice (tuples)', enc, as_tuples=True)
    check_dict(out, 'stored lattice, require_lattice', enc, require_lattice=True)
    check_dict(out, 'stored lattice, ignore_lattice', enc, ignore_lattice=True)
    check_dict(out, 'stored lattice, raw', enc, raw=True)
    # every corruption of the dict is rejected under EVERY combination of the flags (the flags select what is done with a
    # well-formed dict, they do not relax validation): notably an empty stored lattice
    for empty in ([], ()):
        for ign in (False, True):
            for req in (False, True):
                for raw_ in (False, True):
                    check_dict(out, 'empty stored lattice; ignore_lattice=%s require_lattice=%s raw=%s' % (ign, req, raw_),
                               dict(d0, lattice=empty), ignore_lattice=ign, require_lattice=req, raw=raw_)
    singles = dict_corruptions(d0)
    for k, (desc, d) in enumerate(singles):
        check_dict(out, desc, d, as_tuples=bool(k % 2))
    for k, (desc, d) in enumerate(dict_corruptions(enc)):
        # with a stored lattice only the rejections (and acceptance with the lattice ignored) are defined
        check_dict(out, 'stored lattice; ' + desc, d, stale_lattice=True, require_lattice=bool(k % 3 == 0))
    for _ in range(ndouble):
        d1, d = rng.choice(singles)
        if any(k not in d for k in ('objects', 'properties', 'context')):
            second = [('drop key %r' % k, {x: v for x, v in d.items() if x != k}) for k in list(d)]
        else:
            second = dict_corruptions(d)
        d2, dd = rng.choice(second)
        check_dict(out, '%s; then %s' % (d1, d2), dd, require_lattice=rng.random() < 0.2)
    for i in range(len(objects)):
        check_dict(out, 'drop object %d and its row' % i,
                   dict(d0, objects=objects[:i] + objects[i + 1:], context=d0['context'][:i] + d0['context'][i + 1:]))
    return out[:10]
