"""Bounded stand-in / replay side: shared enumerators, brute-force oracle, reporting.

Runs under /venv/bin/python (imports the real `concepts` from VERIF_REPO, default /repo).
Everything here is *bounded* checking of run-time contracts on the real functions; it is the
counterexample finder and replay tool of the deductive checks and is never counted as proof.

A *case* is a JSON-serialisable dict; `check_case(case)` of a property module is a pure function
from a case to a list of failures (dicts with obligation / clause / expected / observed).  The
replay of a violation is `check_case` on the stored case in a fresh interpreter.
"""
import itertools
import json
import os
import random
import re
import sys
import time

REPO = os.environ.get('VERIF_REPO', '/repo')
if REPO not in sys.path:
    sys.path.insert(0, REPO)

VERIF = os.path.dirname(os.path.dirname(os.path.abspath(__file__)))

import concepts  # noqa: E402  (the real code under /repo)

assert os.path.realpath(os.path.dirname(os.path.dirname(concepts.__file__))) == os.path.realpath(REPO), \
    f'concepts imported from {concepts.__file__}, expected {REPO}'


# --------------------------------------------------------------------------------------------
# enumerators

def all_tables(n, m):
    """All boolean n x m tables as tuples of tuples of bool (row major)."""
    for bits in itertools.product((False, True), repeat=n * m):
        yield tuple(tuple(bits[i * m:(i + 1) * m]) for i in range(n))


def tables_upto(max_n, max_m):
    for n in range(1, max_n + 1):
        for m in range(1, max_m + 1):
            yield from all_tables(n, m)


def tables_cells(max_cells, max_dim=8):
    """All tables with n*m <= max_cells (n,m >= 1, each <= max_dim)."""
    for n in range(1, max_dim + 1):
        for m in range(1, max_dim + 1):
            if n * m <= max_cells:
                yield from all_tables(n, m)


def random_table(rng, n, m, density=None):
    if density is None:
        density = rng.choice((0.15, 0.3, 0.5, 0.7, 0.85))
    return tuple(tuple(rng.random() < density for _ in range(m)) for _ in range(n))


def structured_tables(k):
    """Named families up to size k: contranominal, nominal, ordinal, interordinal, chain, dup rows/cols,
    empty/full rows and columns."""
    out = []
    for s in range(1, k + 1):
        out.append(('contranominal%d' % s, tuple(tuple(i != j for j in range(s)) for i in range(s))))
        out.append(('nominal%d' % s, tuple(tuple(i == j for j in range(s)) for i in range(s))))
        out.append(('ordinal%d' % s, tuple(tuple(i <= j for j in range(s)) for i in range(s))))
        out.append(('interordinal%d' % s, tuple(tuple([i <= j for j in range(s)] + [i >= j for j in range(s)])
                                                for i in range(s))))
        out.append(('full%d' % s, tuple(tuple(True for j in range(s)) for i in range(s))))
        out.append(('empty%d' % s, tuple(tuple(False for j in range(s)) for i in range(s))))
    for s in range(2, k + 1):
        base = tuple(tuple((i + j) % 3 != 0 for j in range(s)) for i in range(s))
        out.append(('duprow%d' % s, base + (base[0],)))
        out.append(('dupcol%d' % s, tuple(r + (r[0],) for r in base)))
        out.append(('fullrow%d' % s, base + (tuple(True for _ in range(s)),)))
        out.append(('emptycol%d' % s, tuple(r + (False,) for r in base)))
        out.append(('fullcol%d' % s, tuple(r + (True,) for r in base)))
        out.append(('emptyrow%d' % s, base + (tuple(False for _ in range(s)),)))
    return out


def wide_tables(rng):
    """Tables wider than a machine word (bitset ints > 64 bits)."""
    out = []
    for n, m in ((300, 3), (66, 4), (1, 70), (3, 130), (70, 1), (130, 3), (2, 65), (65, 2), (3, 300)):
        rows = [list(r) for r in random_table(rng, n, m, rng.choice((0.5, 0.8, 0.95)))]
        # the last object / property must not be universal (its covers are the ones only the last atom generates), nor the first
        rows[-1][0] = False
        rows[0][-1] = False
        if n > 1 and m > 1:
            rows[-1][-1] = True
            rows[0][0] = True
        out.append(('wide%dx%d' % (n, m), tuple(tuple(r) for r in rows)))
    return out


def labels(n, prefix):
    """Labels whose alphabetical order is the reverse of their position."""
    return tuple('%s%s' % (prefix, chr(ord('z') - i) if i < 26 else 'A%03d' % (999 - i)) for i in range(n))


def case_of_table(rows, objects=None, properties=None, **extra):
    n, m = len(rows), len(rows[0])
    case = {'kind': 'table',
            'objects': list(objects) if objects is not None else list(labels(n, 'o')),
            'properties': list(properties) if properties is not None else list(labels(m, 'p')),
            'rows': [[bool(v) for v in r] for r in rows]}
    case.update(extra)
    return case


def context_of_case(case):
    """The context of a table case.  With `siblings` (other tables over the SAME labels) the sibling contexts are
    created *after* the main one and kept alive with it: results for one context must not depend on which other
    contexts exist in the process (shared-state regressions need two live contexts to manifest)."""
    ctx = concepts.Context(tuple(case['objects']), tuple(case['properties']),
                           [tuple(r) for r in case['rows']])
    sibs = []
    for rows in case.get('siblings', ()):
        sib = concepts.Context(tuple(case['objects']), tuple(case['properties']), [tuple(r) for r in rows])
        if case.get('siblings_use', True):
            sib.intension(case['objects'][:1])
            sib.extension(case['properties'][:1])
            sib[case['objects'][:1]]
            list(sib.lattice)
            for a in sib.lattice:
                for b in sib.lattice:
                    a | b, a & b
        sibs.append(sib)
    if sibs:
        _KEEPALIVE.append((ctx, sibs))
        del _KEEPALIVE[:-4]
    return ctx


_KEEPALIVE = []


def sibling_cases(rng, count):
    """Cases with sibling contexts over the same labels: the complement table, the transposed-pattern table of
    the same shape, a random table."""
    for _ in range(count):
        n, m = rng.randint(2, 4), rng.randint(2, 4)
        rows = random_table(rng, n, m)
        sibs = [[[not v for v in r] for r in rows], [list(r) for r in random_table(rng, n, m)],
                [[(i + j) % 2 == 0 for j in range(m)] for i in range(n)]]
        yield case_of_table(rows, family='siblings', siblings=sibs)


def standard_cases(tier, rng, quick_dim=3, thorough_cells=12, random_quick=40, random_thorough=400,
                   max_random=7, wide=True, structured=True):
    """The K scopes of DESIGN 3.4 as cases.  quick: all tables <= quick_dim x quick_dim;
    thorough: all tables with n*m <= thorough_cells, plus structured families and seeded random ones."""
    if tier == 'quick':
        for rows in tables_upto(quick_dim, quick_dim):
            yield case_of_table(rows)
        if quick_dim >= 3:
            # four objects are the smallest size at which equal-sized incomparable covers with nested generators occur
            for rows in all_tables(4, 2):
                yield case_of_table(rows)
            for _ in range(150):
                yield case_of_table(random_table(rng, 4, 3, 0.5), family='random4x3')
            for _ in range(60):
                yield case_of_table(random_table(rng, rng.randint(4, 5), 4, 0.5), family='random5x4')
        yield from sibling_cases(rng, 12)
        if structured:
            for name, rows in structured_tables(4):
                yield case_of_table(rows, family=name)
        for _ in range(random_quick):
            n, m = rng.randint(2, min(6, max_random)), rng.randint(2, min(6, max_random))
            yield case_of_table(random_table(rng, n, m), family='random')
        if wide:
            for name, rows in wide_tables(rng)[:3]:
                yield case_of_table(rows, family=name)
    else:
        for rows in tables_cells(thorough_cells):
            yield case_of_table(rows)
        yield from sibling_cases(rng, 200)
        if structured:
            for name, rows in structured_tables(6):
                yield case_of_table(rows, family=name)
        for _ in range(random_thorough):
            n, m = rng.randint(2, max_random), rng.randint(2, max_random)
            yield case_of_table(random_table(rng, n, m), family='random')
        if wide:
            for name, rows in wide_tables(rng):
                yield case_of_table(rows, family=name)


def subsets(seq):
    seq = list(seq)
    for r in range(len(seq) + 1):
        yield from itertools.combinations(seq, r)


def limited_subsets(seq, rng, limit=64):
    """All subsets when there are at most `limit`, otherwise the small ones plus a seeded sample."""
    seq = list(seq)
    if 2 ** len(seq) <= limit:
        yield from subsets(seq)
        return
    yield ()
    yield tuple(seq)
    for x in seq[:8]:
        yield (x,)
    for _ in range(limit):
        yield tuple(x for x in seq if rng.random() < 0.5)


# --------------------------------------------------------------------------------------------
# brute-force oracle (from the property statements; independent of the repository's algorithms)

class Oracle:
    """Spec functions Up, Dn, Cl over index sets of a boolean table."""

    def __init__(self, rows):
        self.rows = [tuple(bool(v) for v in r) for r in rows]
        self.n = len(self.rows)
        self.m = len(self.rows[0]) if self.rows else 0

    def up(self, objs):
        objs = list(objs)
        return frozenset(j for j in range(self.m) if all(self.rows[i][j] for i in objs))

    def dn(self, props):
        props = list(props)
        return frozenset(i for i in range(self.n) if all(self.rows[i][j] for j in props))

    def cl(self, objs):
        return self.dn(self.up(objs))

    def cl2(self, props):
        return self.up(self.dn(props))

    def extents(self):
        """All closed object sets (intersections of column extents incl. the empty intersection)."""
        if getattr(self, '_ext', None) is None:
            cols = [frozenset(i for i in range(self.n) if self.rows[i][j]) for j in range(self.m)]
            ext = {frozenset(range(self.n))}
            for c in cols:
                ext |= {e & c for e in ext}
            self._ext = ext
        return self._ext

    def concepts(self):
        return {(e, self.up(e)) for e in self.extents()}

    def upper_covers(self, e):
        ext = self.extents()
        above = [f for f in ext if e < f]
        return {f for f in above if not any(e < g < f for g in above)}

    def lower_covers(self, e):
        ext = self.extents()
        below = [f for f in ext if f < e]
        return {f for f in below if not any(f < g < e for g in below)}

    @staticmethod
    def shortlex_key(s):
        return (len(s), sorted(s))

    @staticmethod
    def longlex_key(s):
        return (-len(s), sorted(s))


def idx(bitset_int):
    """Indices of the set bits of a python int (bitsets.MemberBits is an int)."""
    i, out, b = 0, [], int(bitset_int)
    while b:
        if b & 1:
            out.append(i)
        b >>= 1
        i += 1
    return frozenset(out)


def canon_table_key(rows):
    """Canonical form of a table up to row and column permutation (cheap: sort rows, then columns, iterate)."""
    rows = [tuple(r) for r in rows]
    for _ in range(3):
        rows = sorted(rows)
        cols = sorted(zip(*rows)) if rows and rows[0] else []
        rows = [tuple(r) for r in zip(*cols)] if cols else rows
    return (len(rows), len(rows[0]) if rows else 0, tuple(rows))


# --------------------------------------------------------------------------------------------
# reporting

def fail(obligation, clause, expected=None, observed=None, **extra):
    d = {'obligation': obligation, 'clause': clause, 'expected': _j(expected), 'observed': _j(observed)}
    d.update({k: _j(v) for k, v in extra.items()})
    return d


def _j(v):
    """Make a value JSON-serialisable in a readable way."""
    if isinstance(v, (str, int, float, bool)) or v is None:
        return v
    if isinstance(v, dict):
        return {str(k): _j(x) for k, x in v.items()}
    if isinstance(v, (set, frozenset)):
        try:
            return sorted(_j(x) for x in v)
        except TypeError:
            return sorted((_j(x) for x in v), key=repr)
    if isinstance(v, (list, tuple)):
        return [_j(x) for x in v]
    return repr(v)


def load_known_findings():
    path = os.path.join(VERIF, 'known_findings.json')
    with open(path) as f:
        return json.load(f)['findings']


def match_known(prop, failure, findings=None):
    """A failure is a known finding iff a `known` entry of the same property matches obligation (exact)
    and the regex on the observed text.  `fixed` entries never match (they suppress nothing)."""
    if findings is None:
        findings = load_known_findings()
    for f in findings:
        if f.get('status') != 'known' or f['property'] != prop:
            continue
        m = f['match']
        if m.get('obligation') and m['obligation'] != failure['obligation']:
            continue
        if m.get('observed_regex') and not re.search(m['observed_regex'], json.dumps(failure.get('observed'))):
            continue
        return f
    return None


class Report:
    """Collects what a bounded run covered; writes replay files for failures."""

    def __init__(self, prop, tier, seed, replay_dir=None):
        self.prop, self.tier, self.seed = prop, tier, seed
        self.evaluations = 0
        self.nontrivial = set()
        self.samples = []
        self.violations = []      # (replay_path, failure)
        self.known = []           # (finding, failure)
        self.extra = {}
        self.replay_dir = replay_dir or os.path.join(VERIF, 'replays')
        self.t0 = time.time()
        self._findings = load_known_findings()
        self._nrep = 0

    def count(self, n=1):
        self.evaluations += n

    def nontrivial_key(self, key):
        self.nontrivial.add(key)

    def sample(self, obj, limit=4):
        # keep the 1st, 10th, 100th, 1000th case offered (spread over the enumeration)
        self._offered = getattr(self, '_offered', 0) + 1
        if self._offered in (1, 10, 100, 1000) and len(self.samples) < limit:
            self.samples.append(_j(obj))

    def record(self, module, case, failures):
        """Record the failures of one case; returns True when there is a new (not known) violation."""
        new = False
        for f in failures:
            k = match_known(self.prop, f, self._findings)
            if k is not None:
                if not any(k is kk for kk, _ in self.known):
                    self.known.append((k, f))
                continue
            new = True
            if self._nrep < 5:     # at most 5 replay files per run
                os.makedirs(self.replay_dir, exist_ok=True)
                path = os.path.join(self.replay_dir, '%s-bounded-%d.json' % (self.prop, self._nrep))
                self._nrep += 1
                with open(path, 'w') as fh:
                    json.dump({'property': self.prop, 'kind': 'native-failure', 'module': module,
                               'obligation': f['obligation'], 'clause': f['clause'],
                               'expected': f.get('expected'), 'observed': f.get('observed'),
                               'failure': f, 'case': case}, fh, indent=1)
                self.violations.append((path, f))
        return new

    def result(self):
        return {'evaluations': self.evaluations,
                'distinct_nontrivial': len(self.nontrivial),
                'samples': self.samples,
                'violations': [{'replay': p, 'obligation': f['obligation'], 'clause': f['clause'],
                                'observed': f.get('observed')} for p, f in self.violations],
                'known_findings': [{'what': k['what'], 'obligation': f['obligation']} for k, f in self.known],
                'wall_s': round(time.time() - self.t0, 2),
                'extra': self.extra}


def run_cases(rep, module_name, gen_cases, check_case, nontrivial=None, stop_after=5):
    """Drive check_case over generated cases.  `nontrivial(case)` returns a hashable key for a case that
    counts as distinct non-trivial, or None."""
    for case in gen_cases:
        rep.count()
        if nontrivial is not None:
            k = nontrivial(case)
            if k is not None:
                rep.nontrivial_key(k)
        rep.sample(case)
        try:
            failures = check_case(case)
        except Exception as e:     # an escaping exception on a valid case is itself a contract failure
            import traceback
            failures = [fail('no-exception', 'check_case raised on a valid case',
                             expected='no exception', observed='%s: %s' % (type(e).__name__, e),
                             traceback=traceback.format_exc()[-1500:])]
        if failures and rep.record(module_name, case, failures) and len(rep.violations) >= stop_after:
            break


def nontrivial_table(case):
    """Rule: a table case is non-trivial when its lattice has >= 2 concepts; distinct up to row/col permutation."""
    if case.get('kind') != 'table':
        return None
    o = Oracle(case['rows'])
    if len(o.extents()) < 2:
        return None
    if o.n * o.m > 64:
        return ('big', o.n, o.m, hash(tuple(map(tuple, case['rows']))))
    return canon_table_key(case['rows'])
