"""C06 bounded stand-in: canonical order - shortlex iteration, index/dindex ranks, bottom first, top last.

Run-time postcondition of Context.lattice (LatInv.2/3/5/6 of DESIGN) on the real objects: iteration order,
Concept.index / Concept.dindex, Lattice.infimum / supremum / atoms and the order inside every neighbor tuple,
against the brute-force order keys of common.Oracle (shortlex = (size, sorted object POSITIONS), longlex =
(-size, sorted object positions)).  The default labels are reverse alphabetical, so a tie broken by label instead
of by position shows.
"""
from . import common
from .common import Oracle, fail, idx

RULE = ('cases = boolean tables (K scopes of DESIGN 3.4) with object labels whose alphabetical order is the reverse of '
        'their position; one evaluation = the whole lattice of one table (all members, all neighbor tuples, all '
        'comparable pairs); non-trivial = table with >= 2 concepts, distinct up to row/column permutation')
SCOPE = {'quick': 'all tables <= 3x3, structured families <= 4, 40 random <= 6x6, 3 wide tables (> 64 bit)',
         'thorough': 'all tables with n*m <= 12, structured families <= 6, 400 random <= 7x7, 6 wide tables'}

slex = Oracle.shortlex_key
llex = Oracle.longlex_key


def gen_cases(tier, rng):
    return common.standard_cases(tier, rng)


def _s(sets):
    return [sorted(s) for s in sets]


def check_case(case):
    ctx = common.context_of_case(case)
    out = _check(case, lambda: ctx.lattice, '')
    if out:
        return out
    # the same clauses for a lattice loaded with raw=True ("re-sort when set", anchor Lattice._fromlist): the stored concept list kept
    # in canonical order but every neighbour list reversed, and the stored list reversed as a whole
    import concepts
    d = ctx.todict(ignore_lattice=False)
    lat = d.get('lattice')
    if lat:
        d1 = dict(d, lattice=[(ex, in_, tuple(reversed(up)), tuple(reversed(lo))) for ex, in_, up, lo in lat])
        out = _check(case, lambda: concepts.Context.fromdict(d1, raw=True).lattice, 'raw.neighbours-reversed/')
        if out:
            return out
        nn = len(lat)
        d2 = dict(d, lattice=[(ex, in_, tuple(nn - 1 - i for i in up), tuple(nn - 1 - i for i in lo)) for ex, in_, up, lo in reversed(lat)])
        out = _check(case, lambda: concepts.Context.fromdict(d2, raw=True).lattice, 'raw.list-reversed/')
    return out


def _check(case, build, prefix):
    out = []
    o = Oracle(case['rows'])
    try:
        lattice = build()
        members = list(lattice)
    except Exception as e:
        return [fail(prefix + 'lattice.build', 'context.lattice can be built and iterated', 'a lattice',
                     '%s: %s' % (type(e).__name__, e))]
    ext = [idx(c._extent) for c in members]

    # iteration order: shortlex of extents (strictly increasing keys)
    if ext != sorted(ext, key=slex) or any(slex(a) >= slex(b) for a, b in zip(ext, ext[1:])):
        out.append(fail(prefix + 'iter.shortlex', 'iterating the lattice visits concepts in short-lexicographic order of their extents '
                        '(fewer objects first, ties by object position in the context)',
                        _s(sorted(ext, key=slex)), _s(ext)))
    # the order of the whole set of concepts of the table (oracle side)
    canon = sorted(o.extents(), key=slex)
    if set(ext) == set(canon) and len(ext) == len(canon) and ext != canon:
        out.append(fail(prefix + 'iter.shortlex.oracle', 'iteration order is the shortlex order of all extents of the table',
                        _s(canon), _s(ext)))
    # index = position, dindex = position in longlex order
    bad = [(sorted(e), c.index, k) for k, (c, e) in enumerate(zip(members, ext)) if c.index != k]
    if bad:
        out.append(fail(prefix + 'index.position', 'concept.index is its position in iteration (shortlex) order',
                        [[e, k] for e, _, k in bad[:5]], [[e, i] for e, i, _ in bad[:5]]))
    drank = {e: k for k, e in enumerate(sorted(ext, key=llex))}
    bad = [(sorted(e), c.dindex, drank[e]) for c, e in zip(members, ext) if c.dindex != drank[e]]
    if bad and len(set(ext)) == len(ext):
        out.append(fail(prefix + 'dindex.position', 'concept.dindex is its position in long-lexicographic order (more objects first)',
                        [[e, k] for e, _, k in bad[:5]], [[e, i] for e, i, _ in bad[:5]]))
    # infimum first and least, supremum last and greatest
    inf, sup = lattice.infimum, lattice.supremum
    if inf is not members[0]:
        out.append(fail(prefix + 'infimum.first', 'lattice.infimum is the first concept', repr(members[0]), repr(inf)))
    e_inf = idx(inf._extent)
    if e_inf != o.cl(()) or any(not e_inf <= e for e in ext) or any(not e_inf <= e for e in o.extents()):
        out.append(fail(prefix + 'infimum.least', 'lattice.infimum is the least concept', sorted(o.cl(())), sorted(e_inf)))
    if sup is not members[-1]:
        out.append(fail(prefix + 'supremum.last', 'lattice.supremum is the last concept', repr(members[-1]), repr(sup)))
    e_sup = idx(sup._extent)
    if e_sup != frozenset(range(o.n)) or any(not e <= e_sup for e in ext):
        out.append(fail(prefix + 'supremum.greatest', 'lattice.supremum is the greatest concept', list(range(o.n)), sorted(e_sup)))
    # atoms = upper covers of the infimum (same objects, same order as infimum.upper_neighbors)
    atoms = lattice.atoms
    a_ext = [idx(a._extent) for a in atoms]
    if set(a_ext) != o.upper_covers(e_inf) or len(set(a_ext)) != len(a_ext):
        out.append(fail(prefix + 'atoms.covers', 'lattice.atoms are the upper covers of the infimum',
                        _s(sorted(o.upper_covers(e_inf), key=slex)), _s(a_ext)))
    if len(atoms) != len(inf.upper_neighbors) or any(a is not b for a, b in zip(atoms, inf.upper_neighbors)):
        out.append(fail(prefix + 'atoms.identity', 'lattice.atoms are the very upper neighbors of the infimum, in the same order',
                        [repr(x) for x in inf.upper_neighbors], [repr(x) for x in atoms]))
    if any(not any(a is c for c in members) for a in atoms):
        out.append(fail(prefix + 'atoms.member', 'lattice.atoms are member objects of the lattice', 'elements of list(lattice)',
                        [repr(a) for a in atoms]))
    # neighbor tuples: upper in shortlex order, lower in longlex order
    for c, e in zip(members, ext):
        up = [idx(d._extent) for d in c.upper_neighbors]
        if up != sorted(up, key=slex):
            out.append(fail(prefix + 'upper.shortlex', 'every upper_neighbors tuple is in shortlex order',
                            _s(sorted(up, key=slex)), _s(up), concept=sorted(e)))
            break
    for c, e in zip(members, ext):
        lo = [idx(d._extent) for d in c.lower_neighbors]
        if lo != sorted(lo, key=llex):
            out.append(fail(prefix + 'lower.longlex', 'every lower_neighbors tuple is in longlex order',
                            _s(sorted(lo, key=llex)), _s(lo), concept=sorted(e)))
            break
    # index and dindex are linear extensions of the order
    done_i = done_d = False
    for x, ex in zip(members, ext):
        for y, ey in zip(members, ext):
            if ex < ey:
                if not done_i and not x.index < y.index:
                    done_i = True
                    out.append(fail(prefix + 'index.linear-extension', 'x < y implies index(x) < index(y)',
                                    'index(%r) < index(%r)' % (sorted(ex), sorted(ey)), [x.index, y.index]))
                if not done_d and not x.dindex > y.dindex:
                    done_d = True
                    out.append(fail(prefix + 'dindex.linear-extension', 'x < y implies dindex(x) > dindex(y)',
                                    'dindex(%r) > dindex(%r)' % (sorted(ex), sorted(ey)), [x.dindex, y.dindex]))
    return out[:10]
