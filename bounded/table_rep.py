"""Replay (bounded, /venv/bin/python): the representability precondition REP of lemma.table.roundtrip (contracts/formats_chars_table.py)
is EXACT on an enumerated scope: the real ``Table.loads(Table.dumps(objects, properties, bools, indent=k))`` returns the given triple
IF AND ONLY IF REP holds.  "If" is what the lemma proves for all tables and every indent; "only if" is the negative knowledge recorded in
the module docstring (every way of violating REP makes the real round trip fail: wrong result or exception).

REP differs from the property statement (C12: "labels non-empty, no leading/trailing whitespace or line breaks, no '|' or '#'") in ONE
point: an OBJECT label may be empty (its cell is all padding; the line still starts with the column bar).  A property label may not --
with ONE ACCIDENTAL EXCEPTION that the lemma does not cover and this replay counts separately: a table whose ONLY property is '' comes
back right, because the zero-width column leaves nothing between the bars and ''.split('|') == [''] happens to have one item (with
two or more properties an empty one is lost).  So on the scope:  round trip succeeds  <=>  REP or ACCIDENT.

Also replayed here: the FIMI index rows (write_concepts_dat / read_concepts_dat through a real file, Fimi.dumps read by the same reader).

Not part of a property check (C12's bounded module is bounded/c12.py); run by hand:  /venv/bin/python -m bounded.table_rep
"""
import itertools

GOOD = ['a', 'b c', 'X', 'x\x0cy', 'x y', '﻿x', 'x\x00', '%s', '%-3d', 'x\x1cy']
BAD_BOTH = [' ', '\x1c', ' x', 'x ', '\tx', 'x\x85', '　x', 'x\ny', 'x\ry', 'x\r', '\nx', 'x\n', 'x|y', '|', 'x|', '|x', '#', 'x#y', '#x', 'x#']
LABELS = GOOD + [''] + BAD_BOTH


def rep_object(x):
    return ('\n' not in x and '\r' not in x and '|' not in x and '#' not in x
            and (x == '' or (not x[0].isspace() and not x[-1].isspace())))


def rep_property(x):
    return x != '' and rep_object(x)


def rep(objects, properties, bools):
    return (len(objects) >= 1 and len(bools) == len(objects) and len(properties) >= 1
            and all(len(row) == len(properties) for row in bools) and all(map(rep_object, objects)) and all(map(rep_property, properties)))


def accident(objects, properties, bools):
    """the one success outside REP: a single, empty property label (everything else as REP asks)"""
    return list(properties) == [''] and rep(objects, ['p'], bools)


def roundtrips(fmt, objects, properties, bools, **kwargs):
    try:
        r = fmt.loads(fmt.dumps(objects, properties, bools, **kwargs))
    except Exception as e:      # noqa: BLE001  (ValueError, TypeError, IndexError: all observed)
        return False, type(e).__name__
    ok = (list(r.objects), list(r.properties), list(r.bools)) == (list(objects), list(properties), [tuple(b) for b in bools])
    return ok, 'ok' if ok else 'wrong-result-without-exception'


def main(indents=(0, 3)):
    from concepts.formats import Format
    table = Format['table']
    n = 0
    outcomes = {}
    fills = {(1, 1): [[(True,)], [(False,)]], (1, 2): [[(True, False)], [(False, False)]], (2, 1): [[(False,), (True,)], [(False,), (False,)]],
             (2, 2): [[(True, False), (False, True)], [(True, True), (False, False)]]}
    for (no, np_), tables in fills.items():
        for objects in itertools.product(LABELS, repeat=no):
            for properties in itertools.product(LABELS, repeat=np_):
                want = rep(objects, properties, tables[0])
                lucky = accident(objects, properties, tables[0])
                for bools in tables:
                    for k in indents:
                        ok, how = roundtrips(table, list(objects), list(properties), bools, indent=k)
                        assert ok == (want or lucky), (objects, properties, bools, k, how)
                        how = 'ok-by-accident (single empty property label)' if ok and not want else how
                        outcomes[how] = outcomes.get(how, 0) + 1
                        n += 1
    # all fills up to 3 x 3 over representable labels (empty object labels, all-blank rows and columns included), more indents
    for no in (1, 2, 3):
        for np_ in (1, 2, 3):
            for objects in (['a', '', 'b c'][:no], ['', '', ''][:no], ['long label', 'b', ''][:no]):
                for properties in (['p', 'q r', 'X'][:np_], ['pp', 'x', 'a long one'][:np_]):
                    for cells in itertools.product((False, True), repeat=no * np_):
                        bools = [cells[r * np_:(r + 1) * np_] for r in range(no)]
                        for k in (0, 1, 7, -2):
                            ok, how = roundtrips(table, objects, properties, bools, indent=k)
                            assert ok and rep(objects, properties, bools), (objects, properties, bools, k, how)
                            outcomes[how] = outcomes.get(how, 0) + 1
                            n += 1
    # shapes outside REP
    for objects, properties, bools in ((['a'], [], [()]), (['a', 'b'], [], [(), ()]), ([], ['a'], []), (['a'], ['b'], []), (['a', 'b'], ['c'], [(True,)]),
                                       (['a'], ['b'], [(True,), (False,)]), (['a'], ['b', 'c'], [(True,)]), (['a'], ['b'], [(True, False)])):
        ok, how = roundtrips(table, objects, properties, bools)
        assert not ok and not rep(objects, properties, bools), (objects, properties, bools)
        outcomes[how] = outcomes.get(how, 0) + 1
        n += 1
    return n, outcomes


def fimi(maxlen=3):
    """write_concepts_dat -> read_concepts_dat through a real file, and Fimi.dumps read by the reader's csv call: the index tuples come
    back, an empty set is an empty line and comes back as the empty tuple"""
    import csv
    import io
    import os
    import tempfile
    from concepts.formats import Format, fimi as fm

    class Members:
        def __init__(self, xs):
            self.xs = xs

        def iter_set(self):
            return iter(self.xs)
    n = 0
    pool = [[], [0], [3], [0, 1], [2, 10], [0, 5, 123456789012345678901234567890], [7, 8, 9, 10, 11, 99, 100, 101]]
    with tempfile.TemporaryDirectory() as d:
        path = os.path.join(d, 'concepts.dat')
        for k in range(0, maxlen + 1):
            for rows in itertools.product(pool, repeat=k):
                for extents in (False, True):
                    pairs = [(Members(r), Members(['never'])) if extents else (Members(['never']), Members(r)) for r in rows]
                    fm.write_concepts_dat(path, pairs, extents=extents)
                    with open(path, encoding='ascii', newline='') as f:
                        text = f.read()
                    assert text == ''.join(' '.join(str(i) for i in r) + '\n' for r in rows), (rows, text)
                    assert list(fm.read_concepts_dat(path)) == [tuple(r) for r in rows], rows
                    n += 1
    cls = Format['fimi']
    for no in range(0, 4):
        for np_ in range(0, 4):
            for cells in itertools.product((False, True), repeat=no * np_):
                bools = [cells[r * np_:(r + 1) * np_] for r in range(no)]
                text = cls.dumps(['o%d' % i for i in range(no)], ['p%d' % i for i in range(np_)], bools)
                with io.StringIO(text, newline='') as f:
                    got = [tuple(map(int, values)) for values in csv.reader(f, dialect=cls.dialect)]
                assert got == [tuple(i for i, v in enumerate(row) if v) for row in bools], (bools, text)
                n += 1
    return n


if __name__ == '__main__':
    print(main())
    print('fimi', fimi())
