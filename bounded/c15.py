"""C15 bounded stand-in: the lattice is invariant under relabelling, duplication and transposition.

Relational run-time contract: nothing is compared with an oracle, only the real library with itself on two
related contexts.  Everything is compared AS STATEMENTS ABOUT LABELS (frozensets of label strings), never by
position or bit pattern:

* permutation of rows and/or columns (labels moving with them): set and number of concepts (three routes: the
  lattice, algorithms.fast_generate_from, algorithms.fcbo_dual), covering relation (from upper_neighbors and from
  lower_neighbors), join and meet of all pairs (binary ``|``/``&`` and n-ary Lattice.join/meet), the concept
  predicates per ordered pair, and Context.relations() (implication oriented, the other kinds as unordered pairs);
* transposition (Context(properties, objects, transposed rows) and Context(*definition.transposed())): exactly
  the dual lattice - extent/intent swapped, order and covers reversed, join and meet exchanged;
* a copy of an existing row (new object label): family of intents and number of concepts unchanged; a copy of an
  existing column or a column that applies to every object (new property label): family of extents and number of
  concepts unchanged.  Every choice of the duplicated row/column (seeded sample of 8 beyond 8 names), the new
  line placed last and first.
"""
import itertools
import random

from . import common
from .common import fail, concepts

RULE = ('cases = boolean tables (K scopes of DESIGN 3.4) with reverse-alphabetical labels; per table: all row x column '
        'permutations when n,m <= 3 else reversal, rows-only, columns-only and `perms` seeded random permutations; the '
        'transpose (two constructions); every duplicated row / column (placed last and first; 8 sampled beyond 8 names) '
        'and an added full column; all pairs of concepts (seeded sample of 300 pairs beyond 24 concepts); '
        'non-trivial = table with >= 2 concepts, distinct up to row/column permutation')
SCOPE = {'quick': 'common.standard_cases quick scope: all tables <= 3x3 (3x3: one table per row/column permutation class; all 36 '
                  'row x column permutations each, which reaches every other table of the class up to label names), the further '
                  'small/sibling/structured (<= 4)/random (<= 6x6) tables of that scope, 3 wide tables (> 64 bit); beyond 3x3: '
                  '4 fixed + 3 random permutations',
         'thorough': 'common.standard_cases thorough scope: all tables with n*m <= 12 (n,m <= 8), sibling cases, structured families '
                     '<= 6, 400 random <= 7x7, 6 wide tables; all permutations when n,m <= 3, else 4 fixed + 6 random permutations'}

nontrivial = common.nontrivial_table

MAX_ALL_PAIRS = 24       # concepts; beyond: seeded sample of PAIR_SAMPLE ordered pairs
PAIR_SAMPLE = 300
MAX_ALL_DUPS = 8         # names; beyond: first, last and a seeded sample


def gen_cases(tier, rng):
    seen = set()
    for case in common.standard_cases(tier, rng):
        case['perms'] = 3 if tier == 'quick' else 6
        if tier == 'quick' and 'family' not in case and len(case['rows']) == 3 and len(case['rows'][0]) == 3:
            # quick: one 3x3 table per row/column permutation class.  All 36 permutations of it are checked, and
            # the other members of the class are exactly those permuted tables (up to the names of the labels),
            # so the (table, permutation) pairs of the whole class are covered.  thorough keeps all 512.
            k = common.canon_table_key(case['rows'])
            if k in seen:
                continue
            seen.add(k)
        yield case


# --------------------------------------------------------------------------------------------
# label-level view of one context, through the real library only

def _fs(labels):
    return frozenset(labels)


def _key(fs):
    return (len(fs), sorted(fs))


def _route(pairs):
    """(list length, set of (extent labels, intent labels)) of an iterable of raw (extent, intent) pairs."""
    lst = [(_fs(e.members()), _fs(i.members())) for e, i in pairs]
    return len(lst), set(lst)


class View:
    def __init__(self, objects, properties, rows, ctx=None):
        self.objects, self.properties = tuple(objects), tuple(properties)
        self.rows = [tuple(bool(v) for v in r) for r in rows]
        self.ctx = ctx if ctx is not None else concepts.Context(self.objects, self.properties, self.rows)
        lat = self.lattice = self.ctx.lattice
        self.n = len(lat)
        # extent labels per concept object (cache only: concepts live as long as the lattice)
        self._ext = ext = {id(c): _fs(c.extent) for c in lat}
        self.by_extent = {ext[id(c)]: c for c in lat}
        self.pairs = {(ext[id(c)], _fs(c.intent)) for c in lat}
        self.up = {(ext[id(c)], self.ext(u)) for c in lat for u in c.upper_neighbors}
        self.down = {(self.ext(l), ext[id(c)]) for c in lat for l in c.lower_neighbors}

    def ext(self, concept):
        """Extent labels of a concept returned by the library (member of this lattice or not)."""
        e = self._ext.get(id(concept))
        return e if e is not None else _fs(concept.extent)

    def intents(self):
        return {i for _, i in self.pairs}

    def extents(self):
        return {e for e, _ in self.pairs}

    def fcbo(self):
        return _route(concepts.algorithms.fast_generate_from(self.ctx))

    def fcbo_dual(self):
        return _route(concepts.algorithms.fcbo_dual(self.ctx))

    def relations(self):
        out = []
        for r in self.ctx.relations(include_unary=True):
            if not r.__class__.binary:
                out.append(('unary', r.kind, r.left))
            elif r.kind == 'implication':
                out.append(('binary', r.kind, (r.left, r.right)))
            else:
                out.append(('binary', r.kind, tuple(sorted((r.left, r.right)))))
        binary_only = []
        for r in self.ctx.relations():
            if r.kind == 'implication':
                binary_only.append(('binary', r.kind, (r.left, r.right)))
            else:
                binary_only.append(('binary', r.kind, tuple(sorted((r.left, r.right)))))
        return sorted(out), sorted(binary_only)


def _pair_keys(view, rng):
    """Ordered pairs of extents (label sets) of the original view: all, or a seeded sample."""
    ext = sorted(view.by_extent, key=_key)
    if len(ext) <= MAX_ALL_PAIRS:
        return list(itertools.product(ext, repeat=2))
    out = [(ext[0], ext[-1]), (ext[-1], ext[0]), (ext[0], ext[0]), (ext[-1], ext[-1])]
    for _ in range(PAIR_SAMPLE):
        out.append((rng.choice(ext), rng.choice(ext)))
    return out


def _binary(view, a, b):
    """What the library says about the ordered pair of concepts with extents a, b (labels)."""
    x, y = view.by_extent[a], view.by_extent[b]
    lat = view.lattice
    ext = view.ext
    return {'join': (ext(x | y), ext(lat.join([x, y]))),
            'meet': (ext(x & y), ext(lat.meet([x, y]))),
            'predicates': (bool(x <= y), bool(x < y), bool(x >= y), bool(x > y),
                           bool(x.incompatible_with(y)), bool(x.complement_of(y)),
                           bool(x.subcontrary_with(y)), bool(x.orthogonal_to(y)))}


PRED_NAMES = ('<=', '<', '>=', '>', 'incompatible_with', 'complement_of', 'subcontrary_with', 'orthogonal_to')


def _setdiff(a, b, limit=4):
    """Readable difference of two sets of label structures."""
    only_a = sorted((common._j(x) for x in a - b), key=repr)[:limit]
    only_b = sorted((common._j(x) for x in b - a), key=repr)[:limit]
    return {'only_in_original': only_a, 'only_in_transformed': only_b}


# --------------------------------------------------------------------------------------------
# the three relations

def _permutations(n, m, k, rng):
    """(row permutation, column permutation) pairs: all (minus identity) when n,m <= 3, else fixed + k sampled."""
    ident_r, ident_c = tuple(range(n)), tuple(range(m))
    if n <= 3 and m <= 3:
        return [(pr, pc) for pr in itertools.permutations(range(n)) for pc in itertools.permutations(range(m))
                if (pr, pc) != (ident_r, ident_c)]
    out = []

    def add(pr, pc):
        pr, pc = tuple(pr), tuple(pc)
        if (pr, pc) != (ident_r, ident_c) and (pr, pc) not in out:
            out.append((pr, pc))

    add(reversed(ident_r), reversed(ident_c))
    add(reversed(ident_r), ident_c)
    add(ident_r, reversed(ident_c))
    add(ident_r[1:] + ident_r[:1], ident_c[-1:] + ident_c[:-1])     # rotations move first/last positions
    for _ in range(k):
        pr, pc = list(ident_r), list(ident_c)
        rng.shuffle(pr)
        rng.shuffle(pc)
        add(pr, pc)
    return out


def _check_permutation(out, orig, keys, facts, orig_rel, orig_fcbo, orig_dual, pr, pc):
    objs = [orig.objects[i] for i in pr]
    props = [orig.properties[j] for j in pc]
    rows = [[orig.rows[i][j] for j in pc] for i in pr]
    v = View(objs, props, rows)
    info = {'row_permutation': list(pr), 'column_permutation': list(pc), 'objects': objs, 'properties': props}
    ok = True
    if v.pairs != orig.pairs or v.n != orig.n:
        ok = False
        out.append(fail('perm.concepts', 'permuting rows/columns leaves the set of concepts unchanged (labels)',
                        {'n': orig.n}, dict(_setdiff(orig.pairs, v.pairs), n=v.n), **info))
    for name, a, b in (('fcbo', orig_fcbo, v.fcbo()), ('fcbo_dual', orig_dual, v.fcbo_dual())):
        if a != b:
            out.append(fail('perm.concepts.%s' % name,
                            'permuting rows/columns leaves the set of concepts unchanged (algorithms.%s route)'
                            % ('fast_generate_from' if name == 'fcbo' else 'fcbo_dual'),
                            {'n': a[0]}, dict(_setdiff(a[1], b[1]), n=b[0]), **info))
    if v.up != orig.up:
        out.append(fail('perm.covers.upper', 'permuting rows/columns leaves the covering relation unchanged '
                        '(pairs lower extent, upper extent from upper_neighbors)', None, _setdiff(orig.up, v.up), **info))
    if v.down != orig.down:
        out.append(fail('perm.covers.lower', 'permuting rows/columns leaves the covering relation unchanged '
                        '(pairs lower extent, upper extent from lower_neighbors)', None, _setdiff(orig.down, v.down), **info))
    if ok:
        bad = {}
        for (a, b), exp in zip(keys, facts):
            got = _binary(v, a, b)
            for what in ('join', 'meet', 'predicates'):
                if got[what] != exp[what] and what not in bad:
                    bad[what] = (a, b, exp[what], got[what])
        clause = {'join': 'permuting rows/columns leaves joins unchanged (extent labels of x | y and lattice.join([x, y]))',
                  'meet': 'permuting rows/columns leaves meets unchanged (extent labels of x & y and lattice.meet([x, y]))',
                  'predicates': 'permuting rows/columns leaves the concept predicates unchanged %s' % (PRED_NAMES,)}
        for what, (a, b, e, g) in bad.items():
            out.append(fail('perm.%s' % what, clause[what], e, g, x=a, y=b, **info))
    rel = v.relations()
    if rel[0] != orig_rel[0]:
        out.append(fail('perm.relations.unary', 'permuting rows/columns leaves the property relations unchanged '
                        '(relations(include_unary=True); implication oriented, other kinds unordered)',
                        None, _setdiff(set(orig_rel[0]), set(rel[0])), **info))
    if rel[1] != orig_rel[1]:
        out.append(fail('perm.relations', 'permuting rows/columns leaves the property relations unchanged '
                        '(relations(); implication oriented, other kinds unordered)',
                        None, _setdiff(set(orig_rel[1]), set(rel[1])), **info))


def _check_transpose(out, orig, keys, facts, orig_fcbo, orig_dual, case):
    rows_t = [tuple(col) for col in zip(*orig.rows)]
    t = View(orig.properties, orig.objects, rows_t)
    # the library's own transposition builds the same context
    d = orig.ctx.definition().transposed()
    t2 = concepts.Context(*d)
    neg = concepts.Context(*(-orig.ctx.definition()))
    for name, c in (('transposed()', t2), ('__neg__', neg)):
        if not (c.objects == t.ctx.objects and c.properties == t.ctx.properties and c.bools == t.ctx.bools and c == t.ctx):
            out.append(fail('transpose.definition', 'Definition.transposed() is the context of the transposed table',
                            [t.ctx.objects, t.ctx.properties, t.ctx.bools], [c.objects, c.properties, c.bools], via=name))
            tv = View(c.objects, c.properties, c.bools, ctx=c)
            if tv.pairs != t.pairs:
                out.append(fail('transpose.definition.lattice', 'the lattice of Definition.transposed() is the dual lattice',
                                None, _setdiff(t.pairs, tv.pairs), via=name))
    swapped = {(i, e) for e, i in orig.pairs}
    ok = True
    if t.pairs != swapped or t.n != orig.n:
        ok = False
        out.append(fail('transpose.concepts', "transposing swaps each concept's extent and intent",
                        {'n': orig.n}, dict(_setdiff(swapped, t.pairs), n=t.n)))
    t_fcbo, t_dual = t.fcbo(), t.fcbo_dual()
    for name, a, b in (('fcbo->fcbo_dual', orig_fcbo, t_dual), ('fcbo_dual->fcbo', orig_dual, t_fcbo),
                       ('fcbo->fcbo', orig_fcbo, t_fcbo), ('fcbo_dual->fcbo_dual', orig_dual, t_dual)):
        sw = {(i, e) for e, i in a[1]}
        if (a[0], sw) != b:
            out.append(fail('transpose.concepts.fcbo', "transposing swaps each concept's extent and intent "
                            '(algorithms routes: original -> transposed %s)' % name,
                            {'n': a[0]}, dict(_setdiff(sw, b[1]), n=b[0])))
    if not ok:
        return
    intent_of = {e: i for e, i in orig.pairs}
    exp_up = {(intent_of[b], intent_of[a]) for a, b in orig.up}
    if t.up != exp_up:
        out.append(fail('transpose.covers.upper', 'transposing reverses the covering relation (upper_neighbors)',
                        None, _setdiff(exp_up, t.up)))
    exp_down = {(intent_of[b], intent_of[a]) for a, b in orig.down}
    if t.down != exp_down:
        out.append(fail('transpose.covers.lower', 'transposing reverses the covering relation (lower_neighbors)',
                        None, _setdiff(exp_down, t.down)))
    bad = {}
    tl = t.lattice
    for (a, b), exp in zip(keys, facts):
        x, y = t.by_extent[intent_of[a]], t.by_extent[intent_of[b]]
        le, lt, ge, gt = exp['predicates'][:4]
        got = (bool(y <= x), bool(y < x), bool(y >= x), bool(y > x))
        if got != (le, lt, ge, gt) and 'order' not in bad:
            bad['order'] = (a, b, (le, lt, ge, gt), got)
        # join of the original corresponds to meet of the transposed (by intents)
        ej = tuple(intent_of[e] for e in exp['join'])
        gm = (t.ext(x & y), t.ext(tl.meet([x, y])))
        if gm != ej and 'join-meet' not in bad:
            bad['join-meet'] = (a, b, ej, gm)
        em = tuple(intent_of[e] for e in exp['meet'])
        gj = (t.ext(x | y), t.ext(tl.join([x, y])))
        if gj != em and 'meet-join' not in bad:
            bad['meet-join'] = (a, b, em, gj)
    clause = {'order': "transposing reverses the order: x <= y in the original iff y' <= x' in the transposed (<=, <, >=, >)",
              'join-meet': "transposing exchanges join and meet: intent labels of x | y == extent labels of x' & y'",
              'meet-join': "transposing exchanges join and meet: intent labels of x & y == extent labels of x' | y'"}
    for what, (a, b, e, g) in bad.items():
        out.append(fail('transpose.%s' % what, clause[what], e, g, x=a, y=b))


def _choices(k, rng):
    if k <= MAX_ALL_DUPS:
        return list(range(k))
    return sorted({0, k - 1} | set(rng.sample(range(k), MAX_ALL_DUPS - 2)))


def _new_label(prefix, used):
    name = prefix
    while name in used:
        name += '_'
    return name


def _check_duplication(out, orig, rng):
    used = set(orig.objects) | set(orig.properties)
    n, m = len(orig.objects), len(orig.properties)
    intents, extents = orig.intents(), orig.extents()

    def compare(kind, view, family, exp_family, what, clause, **info):
        got = getattr(view, family)()
        if got != exp_family:
            out.append(fail('%s.%s' % (kind, family), clause, None, _setdiff(exp_family, got), **info))
        counts = (view.n, view.fcbo()[0], view.fcbo_dual()[0])
        if counts != (orig.n,) * 3:
            out.append(fail('%s.count' % kind, 'the number of concepts stays the same after adding %s '
                            '(lattice, fast_generate_from, fcbo_dual)' % what, (orig.n,) * 3, counts, **info))

    for i in _choices(n, rng):
        new = _new_label('dup_' + orig.objects[i], used)
        for where in ('last', 'first'):
            if where == 'last':
                objs, rows = orig.objects + (new,), orig.rows + [orig.rows[i]]
            else:
                objs, rows = (new,) + orig.objects, [orig.rows[i]] + orig.rows
            v = View(objs, orig.properties, rows)
            compare('dup-row', v, 'intents', intents, 'a copy of an existing row',
                    'adding a copy of an existing row leaves the family of intents unchanged',
                    copied=orig.objects[i], new_label=new, placed=where)
    for j in _choices(m, rng):
        new = _new_label('dup_' + orig.properties[j], used)
        for where in ('last', 'first'):
            if where == 'last':
                props, rows = orig.properties + (new,), [r + (r[j],) for r in orig.rows]
            else:
                props, rows = (new,) + orig.properties, [(r[j],) + r for r in orig.rows]
            v = View(orig.objects, props, rows)
            compare('dup-col', v, 'extents', extents, 'a copy of an existing column',
                    'adding a copy of an existing column leaves the family of extents unchanged',
                    copied=orig.properties[j], new_label=new, placed=where)
    new = _new_label('full_', used)
    for where in ('last', 'first', 'middle'):
        k = {'last': m, 'first': 0, 'middle': m // 2}[where]
        if where == 'middle' and k in (0, m):
            continue
        props = orig.properties[:k] + (new,) + orig.properties[k:]
        rows = [r[:k] + (True,) + r[k:] for r in orig.rows]
        v = View(orig.objects, props, rows)
        compare('full-col', v, 'extents', extents, 'a column that applies to every object',
                'adding a column that applies to every object leaves the family of extents unchanged',
                new_label=new, placed=where)


def _bitsets_registry():
    """bitsets keeps every bitset class ever made in a private registry (used only for unpickling by id), i.e. every
    Context stays in memory (~20 kB each; a thorough run builds ~10^6 contexts).  check_case forgets the classes it
    created itself; nothing of the library's behaviour observed here depends on the registry."""
    try:
        import bitsets.meta
        reg = getattr(bitsets.meta.MemberBitsMeta, '_MemberBitsMeta__registry')
        return reg if isinstance(reg, dict) else None
    except Exception:      # noqa: BLE001 - memory hygiene only
        return None


def check_case(case):
    reg = _bitsets_registry()
    before = set(reg) if reg is not None else None
    try:
        return _check_case(case)
    finally:
        if reg is not None:
            for k in [k for k in reg if k not in before]:
                del reg[k]


def _check_case(case):
    out = []
    rng = random.Random(1515)
    orig = View(case['objects'], case['properties'], case['rows'])
    keys = _pair_keys(orig, rng)
    facts = [_binary(orig, a, b) for a, b in keys]
    orig_rel = orig.relations()
    orig_fcbo, orig_dual = orig.fcbo(), orig.fcbo_dual()
    n, m = len(orig.objects), len(orig.properties)
    for pr, pc in _permutations(n, m, int(case.get('perms', 3)), rng):
        _check_permutation(out, orig, keys, facts, orig_rel, orig_fcbo, orig_dual, pr, pc)
        if len(out) >= 10:
            return _dedup(out)
    _check_transpose(out, orig, keys, facts, orig_fcbo, orig_dual, case)
    if len(out) < 10:
        _check_duplication(out, orig, rng)
    return _dedup(out)


def _dedup(out):
    """At most 10 failures, at most 2 per obligation (so that all broken clauses show up)."""
    seen, res = {}, []
    for f in out:
        k = f['obligation']
        seen[k] = seen.get(k, 0) + 1
        if seen[k] <= 2:
            res.append(f)
    return res[:10]
