"""C02 bounded stand-in: concept lookup returns the least formal concept containing the query.

Run-time contract on the real Context.__getitem__ (label and raw form), Lattice.__getitem__ (labels, int, ())
and Lattice.__call__ for every non-empty subset of objects and of properties (seeded sample when the table is
large), against the brute-force oracle of bounded.common.Oracle.  "The very member object" is checked with `is`
against the element of list(lattice) that has the expected extent.
"""
import random

from . import common
from .common import Oracle, fail, idx

RULE = ('cases = boolean tables (K scopes of DESIGN 3.4); per table every non-empty subset of objects and of properties '
        '(seeded sample of 64 beyond 6 names, plus nested supersets for monotonicity) and the empty property set for '
        'lattice(...); non-trivial = table with >= 2 concepts, distinct up to row/column permutation')
SCOPE = {'quick': 'all tables <= 3x3, structured families <= 4, 40 random <= 6x6, 3 wide tables (> 64 bit)',
         'thorough': 'all tables with n*m <= 12, structured families <= 6, 400 random <= 7x7, 6 wide tables'}


def gen_cases(tier, rng):
    return common.standard_cases(tier, rng)


def _queries(n, rng):
    """Non-empty index subsets: all of them up to 6 names, else a seeded sample closed under a few unions
    (so that nested pairs A <= B exist for the monotonicity clause)."""
    subs = [tuple(s) for s in common.limited_subsets(range(n), rng) if s]
    if 2 ** n > 64:
        extra = []
        for a, b in zip(subs, subs[1:]):
            extra.append(tuple(sorted(set(a) | set(b))))
        for a in subs[:16]:
            extra.append(tuple(sorted(set(a) | {rng.randrange(n)})))
        subs += extra
    seen, out = set(), []
    for s in subs:
        if s not in seen:
            seen.add(s)
            out.append(s)
    return out


def _member(members, extent):
    for c in members:
        if idx(c._extent) == extent:
            return c
    return None


def check_case(case):
    out = []
    ctx = common.context_of_case(case)
    objs, props = case['objects'], case['properties']
    o = Oracle(case['rows'])
    rng = random.Random(2002)
    try:
        lattice = ctx.lattice
        members = list(lattice)
    except Exception as e:     # the lattice clauses cannot be evaluated; the Context.__getitem__ clauses still are
        out.append(fail('lattice.build', 'context.lattice can be built and iterated', 'a lattice',
                        '%s: %s' % (type(e).__name__, e)))
        lattice, members = None, []
    all_concepts = sorted(o.concepts(), key=lambda p: Oracle.shortlex_key(p[0]))

    def olabels(s):
        return tuple(objs[i] for i in sorted(s))

    def plabels(s):
        return tuple(props[j] for j in sorted(s))

    def check_member(oblig, clause, lookup, extent, intent, args):
        if lattice is None:
            return
        try:
            got = lookup()
        except Exception as e:     # the lookup itself must not fail: the closure of a query is always a member
            out.append(fail(oblig, clause, [sorted(extent), sorted(intent)], '%s: %s' % (type(e).__name__, e), args=args))
            return
        exp = _member(members, extent)
        if exp is None:
            out.append(fail('lattice.has-member', 'the lattice has a member object with that extent and intent',
                            [sorted(extent), sorted(intent)], [sorted(idx(c._extent)) for c in members], args=args))
        elif got is not exp:
            out.append(fail(oblig, clause, repr(exp), repr(got), args=args))
        elif idx(got._extent) != extent or idx(got._intent) != intent:
            out.append(fail(oblig + '.pair', clause, [sorted(extent), sorted(intent)],
                            [sorted(idx(got._extent)), sorted(idx(got._intent))], args=args))

    # ---------------------------------------------------------------- object queries: (A'', A')
    oq = _queries(o.n, rng)
    oclosure = {}
    for sub in oq:
        names = tuple(objs[i] for i in sub)
        A = frozenset(sub)
        e_exp, i_exp = o.cl(A), o.up(A)
        got = ctx[names]
        if got != (olabels(e_exp), plabels(i_exp)):
            out.append(fail('getitem.objects.labels', "context[objects] is the pair (A'', A') as label tuples",
                            [olabels(e_exp), plabels(i_exp)], got, args=names))
        raw = ctx.__getitem__(names, raw=True)
        e, i = idx(raw[0]), idx(raw[1])
        oclosure[A] = e
        if (e, i) != (e_exp, i_exp) or (raw[0].members(), raw[1].members()) != (olabels(e_exp), plabels(i_exp)):
            out.append(fail('getitem.objects.raw', "raw form of context[objects] denotes (A'', A')",
                            [sorted(e_exp), sorted(i_exp)], [sorted(e), sorted(i)], args=names))
        if o.up(e) != i or o.dn(i) != e:
            out.append(fail('getitem.objects.concept', 'always a formal concept (each side is the derivation of the other)',
                            'Up(extent) == intent and Dn(intent) == extent',
                            {'extent': sorted(e), 'intent': sorted(i), 'Up(extent)': sorted(o.up(e)),
                             'Dn(intent)': sorted(o.dn(i))}, args=names))
        if not A <= e:
            out.append(fail('getitem.objects.contains', 'whose extent contains the query', sorted(A), sorted(e), args=names))
        bad = [sorted(ce) for ce, _ in all_concepts if A <= ce and not e <= ce]
        if bad:
            out.append(fail('getitem.objects.least', 'extent is contained in that of every other concept containing the query',
                            'extent subset of ' + repr(bad[0]), sorted(e), args=names))
        check_member('lattice.getitem.objects', 'lattice[objects] returns the very member object with that extent and intent',
                     lambda: lattice[names], e_exp, i_exp, names)
    # closure A -> A'' (as computed by the real lookup): extensive, monotone, idempotent
    for A, e in oclosure.items():
        if not A <= e:
            out.append(fail('closure.objects.extensive', 'the closure is extensive', sorted(A), sorted(e)))
        if e:
            ee = idx(ctx.__getitem__(olabels(e), raw=True)[0])
            if ee != e:
                out.append(fail('closure.objects.idempotent', 'the closure is idempotent', sorted(e), sorted(ee),
                                args=olabels(A)))
    keys = list(oclosure)
    for A in keys:
        for B in keys:
            if A <= B and not oclosure[A] <= oclosure[B]:
                out.append(fail('closure.objects.monotone', 'the closure is monotone',
                                'Cl(%r) subset of Cl(%r)' % (sorted(A), sorted(B)),
                                [sorted(oclosure[A]), sorted(oclosure[B])]))
                break
        if len(out) > 10:
            break

    # ---------------------------------------------------------------- property queries: (B', B'')
    pq = _queries(o.m, rng)
    pclosure = {}
    for sub in pq:
        names = tuple(props[j] for j in sub)
        B = frozenset(sub)
        e_exp, i_exp = o.dn(B), o.cl2(B)
        got = ctx[names]
        if got != (olabels(e_exp), plabels(i_exp)):
            out.append(fail('getitem.properties.labels', "context[properties] is the pair (B', B'') as label tuples",
                            [olabels(e_exp), plabels(i_exp)], got, args=names))
        raw = ctx.__getitem__(names, raw=True)
        e, i = idx(raw[0]), idx(raw[1])
        pclosure[B] = i
        if (e, i) != (e_exp, i_exp) or (raw[0].members(), raw[1].members()) != (olabels(e_exp), plabels(i_exp)):
            out.append(fail('getitem.properties.raw', "raw form of context[properties] denotes (B', B'')",
                            [sorted(e_exp), sorted(i_exp)], [sorted(e), sorted(i)], args=names))
        if o.up(e) != i or o.dn(i) != e:
            out.append(fail('getitem.properties.concept', 'always a formal concept (each side is the derivation of the other)',
                            'Up(extent) == intent and Dn(intent) == extent',
                            {'extent': sorted(e), 'intent': sorted(i), 'Up(extent)': sorted(o.up(e)),
                             'Dn(intent)': sorted(o.dn(i))}, args=names))
        if not B <= i:
            out.append(fail('getitem.properties.contains', 'whose intent contains the query', sorted(B), sorted(i), args=names))
        bad = [sorted(ci) for _, ci in all_concepts if B <= ci and not i <= ci]
        if bad:
            out.append(fail('getitem.properties.least', 'intent is contained in that of every other concept containing the query',
                            'intent subset of ' + repr(bad[0]), sorted(i), args=names))
        check_member('lattice.getitem.properties', 'lattice[properties] returns the very member object with that extent and intent',
                     lambda: lattice[names], e_exp, i_exp, names)
        check_member('lattice.call', 'lattice(properties) returns the very member object with that extent and intent',
                     lambda: lattice(names), e_exp, i_exp, names)
        check_member('lattice.call', 'lattice(properties) returns the very member object with that extent and intent',
                     lambda: lattice(list(reversed(names))), e_exp, i_exp, list(reversed(names)))
    for B, i in pclosure.items():
        if not B <= i:
            out.append(fail('closure.properties.extensive', 'the closure is extensive', sorted(B), sorted(i)))
        if i:
            ii = idx(ctx.__getitem__(plabels(i), raw=True)[1])
            if ii != i:
                out.append(fail('closure.properties.idempotent', 'the closure is idempotent', sorted(i), sorted(ii),
                                args=plabels(B)))
    keys = list(pclosure)
    for A in keys:
        for B in keys:
            if A <= B and not pclosure[A] <= pclosure[B]:
                out.append(fail('closure.properties.monotone', 'the closure is monotone',
                                "Cl'(%r) subset of Cl'(%r)" % (sorted(A), sorted(B)),
                                [sorted(pclosure[A]), sorted(pclosure[B])]))
                break
        if len(out) > 10:
            break

    # ---------------------------------------------------------------- empty property set, integer keys, ()
    everything = frozenset(range(o.n))
    check_member('lattice.call.empty', 'lattice(()) is the member whose extent is Dn(empty) = all objects',
                 lambda: lattice(()), everything, o.up(everything), [])
    if lattice is None:
        return out[:10]
    for k, c in enumerate(members):
        got = lattice[k]
        if got is not c:
            out.append(fail('lattice.getitem.int', 'lattice[i] is the i-th member in iteration order', repr(c), repr(got), args=k))
            break
    if len(lattice) != len(members):
        out.append(fail('lattice.getitem.int', 'lattice[i] is the i-th member in iteration order (len agrees with iteration)',
                        len(members), len(lattice)))
    check_member('lattice.getitem.empty', 'lattice[()] is the top concept', lambda: lattice[()], everything, o.up(everything), [])
    return out[:10]
