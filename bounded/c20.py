"""C20 bounded stand-in: the Graphviz export is a faithful drawing of the labelled Hasse diagram.

Run-time contract on the real Lattice.graphviz(): the DOT statements (`dot.body`, also found in `dot.source`)
are read back with a small DOT line reader and compared with the cover relation and the reduced labelling
computed by brute force from the table (common.Oracle): node c<i> stands for the i-th extent in shortlex
order; one edge c<i> -> c<j> per covering pair (upper -> lower); a self-loop with headlabel iff the concept
is the object concept of some object, with taillabel iff it is the attribute concept of some property; label
text = the label callback applied to exactly those names (in context order).
"""
import re

from . import common
from .common import fail
from .c11 import canonical_lattice

RULE = ('cases = boolean tables (K scopes of DESIGN 3.4; they contain one-concept and two-concept lattices and concepts '
        'carrying several labels: duplicate rows/columns, full rows, empty columns) plus tables with names that need DOT '
        'quoting; per table the default callbacks and a custom recording callback; non-trivial = table with >= 2 concepts, '
        'distinct up to row/column permutation')
SCOPE = {'quick': 'all tables <= 3x3, structured families <= 4, 40 random <= 6x6, 3 wide tables (> 64 bit), 8 tables with '
                  'names needing DOT quoting',
         'thorough': 'all tables with n*m <= 12 (dims <= 8), structured families <= 6, 400 random <= 7x7, 6 wide tables, '
                     '60 tables with names needing DOT quoting'}

# names that graphviz must quote (spaces, quotes, leading digit, keywords, non-ASCII, punctuation)
ODD_OBJECTS = ['1sg', 'two words', 'say "x"', 'node', 'Ünï', 'a-b', 'x.y', 'tab\tbed']
ODD_PROPERTIES = ['+1', 'is it', '"q"', 'edge', 'größe', 'c:d', '#5', 'semi;colon']


def gen_cases(tier, rng):
    yield from common.standard_cases(tier, rng)
    for k in range(8 if tier == 'quick' else 60):
        n, m = rng.randint(1, 5), rng.randint(1, 5)
        rows = common.random_table(rng, n, m)
        yield common.case_of_table(rows, objects=rng.sample(ODD_OBJECTS, n), properties=rng.sample(ODD_PROPERTIES, m),
                                   family='quoting')


# --------------------------------------------------------------------------------------------
# a small DOT line reader (one statement per line, as graphviz.Digraph writes them)

_ID = r'(?:[A-Za-z_\u0080-\uffff][A-Za-z0-9_\u0080-\uffff]*|-?(?:\.[0-9]+|[0-9]+(?:\.[0-9]*)?)|"(?:[^"\\]|\\.)*")'
_STMT = re.compile(r'^\s*(?P<a>%s)(?:\s*(?P<op>->|--)\s*(?P<b>%s))?\s*(?:\[(?P<attrs>.*)\])?\s*;?\s*$' % (_ID, _ID), re.S)
_ATTR = re.compile(r'\s*(?P<k>%s)\s*=\s*(?P<v>%s)\s*[,;]?' % (_ID, _ID), re.S)


def unquote(tok):
    if len(tok) >= 2 and tok[0] == '"' and tok[-1] == '"':
        return tok[1:-1].replace('\\"', '"')      # DOT: the only escape in a quoted string is \" (others are kept)
    return tok


def parse_attrs(text):
    attrs, pos = {}, 0
    text = text.strip()
    while pos < len(text):
        m = _ATTR.match(text, pos)
        if not m:
            raise ValueError('cannot read attribute list at %r' % text[pos:pos + 30])
        attrs[unquote(m.group('k'))] = unquote(m.group('v'))
        pos = m.end()
    return attrs


def parse_body(lines):
    """-> (nodes [(name, attrs)], edges [(tail, head, op, attrs)], defaults {'node'|'edge'|'graph': attrs}, unread lines)."""
    nodes, edges, defaults, unread = [], [], {}, []
    for raw in lines:
        for line in raw.split('\n'):
            s = line.strip()
            if not s or s.startswith('//') or s == '}' or re.match(r'^(strict\s+)?(di)?graph\b.*\{$', s):
                continue
            m = _STMT.match(s)
            if not m:
                unread.append(line)
                continue
            try:
                attrs = parse_attrs(m.group('attrs')) if m.group('attrs') is not None else {}
            except ValueError:
                unread.append(line)
                continue
            a = unquote(m.group('a'))
            if m.group('b') is None:
                if a in ('node', 'edge', 'graph') and m.group('attrs') is not None and m.group('a')[0] != '"':
                    defaults.setdefault(a, {}).update(attrs)
                else:
                    nodes.append((a, attrs))
            else:
                edges.append((a, unquote(m.group('b')), m.group('op'), attrs))
    return nodes, edges, defaults, unread


# --------------------------------------------------------------------------------------------

LABEL_KEYS = ('headlabel', 'taillabel', 'label', 'xlabel')


def custom_label(names):
    return '+'.join(n.upper() for n in names)


def check_case(case):
    out = []
    ctx = common.context_of_case(case)
    objs, props = case['objects'], case['properties']
    o, exts, upper, lower = canonical_lattice(case['rows'])
    index = {e: i for i, e in enumerate(exts)}
    N = len(exts)
    exp_nodes = sorted('c%d' % i for i in range(N))
    exp_edges = sorted(('c%d' % index[e], 'c%d' % index[f]) for e in exts for f in lower[e])
    obj_label = {index[e]: [objs[i] for i in range(o.n) if o.cl([i]) == e] for e in exts}
    prop_label = {index[e]: [props[j] for j in range(o.m) if o.dn([j]) == e] for e in exts}

    for mode in ('default', 'custom', 'blank', 'only-object-callback', 'only-property-callback'):
        calls = {'o': [], 'p': []}
        if mode == 'default':
            dot = ctx.lattice.graphviz()
        elif mode == 'blank':
            # a callback may produce an empty text: the label is still attached (precisely when the concept carries names)
            def make_o(names, _c=calls['o']):
                _c.append(list(names))
                return ''

            def make_p(names, _c=calls['p']):
                _c.append(list(names))
                return '' if len(names) % 2 else custom_label(names)
            dot = ctx.lattice.graphviz(make_object_label=make_o, make_property_label=make_p)
        else:
            def make_o(names, _c=calls['o']):
                _c.append(list(names))
                return custom_label(names)

            def make_p(names, _c=calls['p']):
                _c.append(list(names))
                return custom_label(names) + '!'
            if mode == 'only-object-callback':        # the other callback keeps its default (' '.join)
                dot = ctx.lattice.graphviz(make_object_label=make_o)
            elif mode == 'only-property-callback':
                dot = ctx.lattice.graphviz(make_property_label=make_p)
            else:
                dot = ctx.lattice.graphviz(make_object_label=make_o, make_property_label=make_p)
        nodes, edges, _, unread = parse_body(dot.body)
        if unread:
            out.append(fail('dot.statements', 'the DOT source consists of node and edge statements', 'readable statements',
                            unread[:3], mode=mode))
            continue
        src_nodes, src_edges, defaults, src_unread = parse_body(dot.source.split('\n'))
        if src_unread or (src_nodes, src_edges) != (nodes, edges):
            out.append(fail('dot.source-body', 'the DOT source contains exactly the statements of the body',
                            [nodes[:5], edges[:5]], [src_nodes[:5], src_edges[:5], src_unread[:3]], mode=mode))
        if any(op != '->' for _, _, op, _ in edges) or 'digraph' not in dot.source.split('{')[0] \
                or defaults.get('edge', {}).get('dir') != 'none':
            out.append(fail('edges.undirected', 'edges are drawn undirected (digraph statements with edge default dir=none)',
                            'edge [dir=none]', defaults.get('edge'), mode=mode))
        # nodes
        got_nodes = sorted(n for n, _ in nodes)
        if got_nodes != exp_nodes:
            out.append(fail('nodes.one-per-concept', 'the DOT source declares exactly one node per concept (named by its index)',
                            exp_nodes, got_nodes, mode=mode))
        if any(k in a for _, a in nodes for k in LABEL_KEYS):
            out.append(fail('nodes.plain', 'labels are attached through the label edges only (node statements carry none)',
                            'no label attributes', [x for x in nodes if x[1]][:3], mode=mode))
        # cover edges
        loops = [(a, attrs) for a, b, _, attrs in edges if a == b]
        plain = sorted((a, b) for a, b, _, attrs in edges if a != b)
        if plain != exp_edges:
            missing = [e for e in exp_edges if e not in plain]
            extra = [e for e in plain if e not in exp_edges]
            doubled = sorted({e for e in plain if plain.count(e) > 1}) if len(plain) < 400 else []
            out.append(fail('edges.covering', 'exactly one edge per covering pair, drawn from a concept to each of its lower '
                            'neighbors and nowhere else', exp_edges if N <= 12 else len(exp_edges),
                            {'missing': missing[:6], 'extra': extra[:6], 'doubled': doubled[:6]}, mode=mode))
        if any(k in attrs for a, b, _, attrs in edges if a != b for k in LABEL_KEYS):
            out.append(fail('edges.plain', 'covering edges carry no label', 'no label attributes',
                            [e for e in edges if e[0] != e[1] and e[3]][:3], mode=mode))
        # labels
        exp_loops, got_loops = [], []
        for i in range(N):
            if obj_label[i]:
                exp_loops.append(('c%d' % i, 'headlabel', ' '.join(obj_label[i]) if mode in ('default', 'only-property-callback')
                                  else '' if mode == 'blank' else custom_label(obj_label[i])))
            if prop_label[i]:
                exp_loops.append(('c%d' % i, 'taillabel', ' '.join(prop_label[i]) if mode in ('default', 'only-object-callback')
                                  else ('' if len(prop_label[i]) % 2 else custom_label(prop_label[i])) if mode == 'blank'
                                  else custom_label(prop_label[i]) + '!'))
        for a, attrs in loops:
            kinds = [k for k in LABEL_KEYS if k in attrs]
            if len(kinds) != 1:
                got_loops.append((a, '+'.join(kinds) or 'none', repr(attrs)))
            else:
                got_loops.append((a, kinds[0], attrs[kinds[0]]))
        if sorted(got_loops) != sorted(exp_loops):
            missing = [e for e in exp_loops if e not in got_loops]
            extra = [e for e in got_loops if e not in exp_loops]
            out.append(fail('labels.reduced', 'a node gets an object label (headlabel), resp. property label (taillabel), '
                            'precisely when the concept carries objects, resp. properties, in the reduced labelling, with the '
                            'text produced by the label callbacks from exactly those names',
                            {'missing': missing[:6]}, {'extra': extra[:6]}, mode=mode))
        if mode == 'custom':
            exp_o = sorted(v for v in obj_label.values() if v)
            exp_p = sorted(v for v in prop_label.values() if v)
            if sorted(calls['o']) != exp_o or sorted(calls['p']) != exp_p:
                out.append(fail('labels.callbacks', 'the label callbacks are applied to exactly the names of the reduced '
                                'labelling (each label once, objects to make_object_label, properties to make_property_label)',
                                [exp_o, exp_p], [sorted(calls['o']), sorted(calls['p'])], mode=mode))
    return out[:10]
