"""C01 bounded stand-in: intension/extension are the Galois connection of the table.

Run-time contract on the real Context.intension / Context.extension (label and raw forms) and on the
closures prime/double/doubleprime of both Vectors objects, for every subset (or a seeded sample when
the table is large), against the brute-force oracle of bounded.common.Oracle.
"""
import random

from . import common
from .common import Oracle, fail, idx

RULE = ('cases = boolean tables (K scopes of DESIGN 3.4); per table every subset of objects and of properties '
        '(seeded sample of 64 beyond 6 names); non-trivial = table with >= 2 concepts, distinct up to row/column permutation')
SCOPE = {'quick': 'all tables <= 3x3, structured families <= 4, 40 random <= 6x6, 3 wide tables (> 64 bit)',
         'thorough': 'all tables with n*m <= 12, structured families <= 6, 400 random <= 7x7, 6 wide tables'}


def gen_cases(tier, rng):
    return common.standard_cases(tier, rng)


def check_case(case):
    out = []
    ctx = common.context_of_case(case)
    objs, props = case['objects'], case['properties']
    o = Oracle(case['rows'])
    rng = random.Random(1234)
    for sub in common.limited_subsets(range(o.n), rng):
        names = [objs[i] for i in sub]
        exp = o.up(sub)
        exp_labels = tuple(props[j] for j in sorted(exp))
        got = ctx.intension(names)
        if got != exp_labels:
            out.append(fail('intension.labels', 'intension(A) == properties shared by all of A, in column order',
                            exp_labels, got, args=names))
        raw = ctx.intension(names, raw=True)
        if idx(raw) != exp or raw.members() != exp_labels:
            out.append(fail('intension.raw', 'raw form denotes the same set', sorted(exp), sorted(idx(raw)), args=names))
        # duplicates and argument order do not matter
        if names:
            shuffled = list(reversed(names)) + [names[0]]
            if ctx.intension(shuffled) != exp_labels:
                out.append(fail('intension.order', 'duplicates and argument order do not matter', exp_labels,
                                ctx.intension(shuffled), args=shuffled))
        # closures of the Objects side: prime = Up, double = Cl, doubleprime = (Cl, Up)
        b = ctx._Objects.frommembers(names)
        if idx(b.prime()) != exp:
            out.append(fail('Objects.prime', 'prime(A) == Up(A)', sorted(exp), sorted(idx(b.prime())), args=names))
        if idx(b.double()) != o.cl(sub):
            out.append(fail('Objects.double', 'double(A) == Cl(A)', sorted(o.cl(sub)), sorted(idx(b.double())), args=names))
        d, p = b.doubleprime()
        if idx(d) != o.cl(sub) or idx(p) != exp:
            out.append(fail('Objects.doubleprime', 'doubleprime(A) == (Cl(A), Up(A))',
                            [sorted(o.cl(sub)), sorted(exp)], [sorted(idx(d)), sorted(idx(p))], args=names))
    for sub in common.limited_subsets(range(o.m), rng):
        names = [props[j] for j in sub]
        exp = o.dn(sub)
        exp_labels = tuple(objs[i] for i in sorted(exp))
        got = ctx.extension(names)
        if got != exp_labels:
            out.append(fail('extension.labels', 'extension(B) == objects having all of B, in row order',
                            exp_labels, got, args=names))
        raw = ctx.extension(names, raw=True)
        if idx(raw) != exp or raw.members() != exp_labels:
            out.append(fail('extension.raw', 'raw form denotes the same set', sorted(exp), sorted(idx(raw)), args=names))
        if names:
            shuffled = list(reversed(names)) + [names[-1]]
            if ctx.extension(shuffled) != exp_labels:
                out.append(fail('extension.order', 'duplicates and argument order do not matter', exp_labels,
                                ctx.extension(shuffled), args=shuffled))
        b = ctx._Properties.frommembers(names)
        if idx(b.prime()) != exp:
            out.append(fail('Properties.prime', 'prime(B) == Dn(B)', sorted(exp), sorted(idx(b.prime())), args=names))
        if idx(b.double()) != o.cl2(sub):
            out.append(fail('Properties.double', "double(B) == Cl'(B)", sorted(o.cl2(sub)), sorted(idx(b.double())), args=names))
        d, p = b.doubleprime()
        if idx(d) != o.cl2(sub) or idx(p) != exp:
            out.append(fail('Properties.doubleprime', "doubleprime(B) == (Cl'(B), Dn(B))",
                            [sorted(o.cl2(sub)), sorted(exp)], [sorted(idx(d)), sorted(idx(p))], args=names))
    return out[:10]
