"""C04 bounded stand-in: all concept generators agree on the set of concepts.

Run-time postcondition of algorithms.fast_generate_from / fcbo_dual / get_concepts / iterconcepts on the real
Context: the emitted (extent, intent) pairs, as a multiset, are exactly the formal concepts of the table (brute-force
oracle), each once; all generators agree with each other and with context.lattice.  Emission order is not checked.
"""
import collections

from . import common
from .common import Oracle, fail, idx

from concepts import _common as c_common    # the real library (common.py has put VERIF_REPO on sys.path)
from concepts import algorithms

RULE = ('cases = boolean tables (K scopes of DESIGN 3.4); one evaluation = the four generators run on one table; '
        'non-trivial = table with >= 2 concepts, distinct up to row/column permutation')
SCOPE = {'quick': 'all tables <= 3x3, structured families <= 4, 40 random <= 6x6, 3 wide tables (> 64 bit)',
         'thorough': 'all tables with n*m <= 12, structured families <= 6, 400 random <= 7x7, 6 wide tables'}

GENERATORS = ('fast_generate_from', 'fcbo_dual', 'get_concepts', 'iterconcepts')


def gen_cases(tier, rng):
    return common.standard_cases(tier, rng)


def _show(p):
    return [sorted(p[0]), sorted(p[1])]


def _key(p):
    return Oracle.shortlex_key(p[0]), sorted(p[1])


def check_case(case):
    out = []
    ctx = common.context_of_case(case)
    objs, props = case['objects'], case['properties']
    o = Oracle(case['rows'])
    exp = o.concepts()
    produced = {}
    for name in GENERATORS:
        result = getattr(algorithms, name)(ctx)
        # ---- shape of the result
        if name == 'get_concepts':
            if not isinstance(result, list) or not isinstance(result, c_common.ConceptList):
                out.append(fail('get_concepts.type', 'get_concepts is the list wrapper (a ConceptList)', 'ConceptList',
                                type(result).__name__))
        elif iter(result) is not result:
            out.append(fail(name + '.type', name + ' is an iterator over the concepts', 'iterator', type(result).__name__))
        items = list(result)
        pairs = []
        for it in items:
            if not isinstance(it, tuple) or len(it) != 2:
                out.append(fail(name + '.element', 'each element is an (extent, intent) pair', 'pair', repr(it)))
                break
            extent, intent = it
            if not isinstance(extent, ctx._Objects) or not isinstance(intent, ctx._Properties):
                out.append(fail(name + '.element', 'extent is a bitset over the objects, intent a bitset over the properties',
                                [ctx._Objects.__name__, ctx._Properties.__name__],
                                [type(extent).__name__, type(intent).__name__]))
                break
            p = (idx(extent), idx(intent))
            pairs.append(p)
            if name in ('get_concepts', 'iterconcepts'):
                lab = (tuple(objs[i] for i in sorted(p[0])), tuple(props[j] for j in sorted(p[1])))
                if not isinstance(it, c_common.Concept):
                    out.append(fail(name + '.element', name + ' gives _common.Concept named tuples', 'Concept', type(it).__name__))
                    break
                if (it.extent is not extent or it.intent is not intent or (it.objects, it.properties) != lab
                        or (it.n_objects, it.n_properties) != (len(p[0]), len(p[1]))):
                    out.append(fail(name + '.element', 'Concept.extent/.intent are the pair, .objects/.properties its labels',
                                    lab, (it.objects, it.properties)))
                    break
        produced[name] = pairs
        # ---- history independence: a caller editing a returned list / consuming an iterator must not change what a
        # later call on the same context produces (every call produces every concept exactly once)
        if isinstance(result, list):
            del result[::2]
            result.extend(result[:1])
        again = [(idx(e), idx(i)) for e, i in getattr(algorithms, name)(ctx)]
        if sorted(again, key=_key) != sorted(pairs, key=_key):
            out.append(fail(name + '.repeatable', 'a later call on the same context again produces every concept exactly once '
                            '(after the caller edited the earlier result in place)',
                            [_show(p) for p in sorted(pairs, key=_key)][:8], [_show(p) for p in sorted(again, key=_key)][:8]))
        # ---- nothing that is not a formal concept
        for p in pairs:
            if o.up(p[0]) != p[1] or o.dn(p[1]) != p[0]:
                out.append(fail(name + '.sound', 'produces nothing that is not a formal concept',
                                {'Up(A)': sorted(o.up(p[0])), 'Dn(B)': sorted(o.dn(p[1]))}, _show(p)))
                break
        # ---- every formal concept
        missing = sorted(exp - set(pairs), key=_key)
        if missing:
            out.append(fail(name + '.complete', 'produces every formal concept of the context',
                            [_show(p) for p in missing[:5]], 'not produced (%d missing of %d)' % (len(missing), len(exp))))
        # ---- exactly once
        rep = sorted((p for p, k in collections.Counter(pairs).items() if k > 1), key=_key)
        if rep:
            out.append(fail(name + '.once', 'produces every formal concept exactly once', 'each concept once',
                            [_show(p) for p in rep[:5]]))
        if not missing and not rep and collections.Counter(pairs) != collections.Counter(exp):
            extra = sorted(set(pairs) - exp, key=_key)
            out.append(fail(name + '.multiset', 'the produced pairs are exactly the formal concepts', len(exp),
                            [_show(p) for p in extra[:5]]))
    # ---- agreement with each other and with context.lattice, as sets of pairs
    try:
        lat = {(idx(c._extent), idx(c._intent)) for c in ctx.lattice}
    except Exception as e:
        lat = None
        out.append(fail('lattice.build', 'context.lattice can be built and iterated', 'a lattice',
                        '%s: %s' % (type(e).__name__, e)))
    for name in GENERATORS:
        if lat is not None and set(produced[name]) != lat:
            diff = sorted(set(produced[name]) ^ lat, key=_key)
            out.append(fail(name + '.agrees-lattice', 'agrees with context.lattice as sets of (extent, intent) pairs',
                            'same set', [_show(p) for p in diff[:5]]))
        if set(produced[name]) != set(produced[GENERATORS[0]]):
            diff = sorted(set(produced[name]) ^ set(produced[GENERATORS[0]]), key=_key)
            out.append(fail(name + '.agrees-fcbo', 'all of them agree with each other', 'same set as fast_generate_from',
                            [_show(p) for p in diff[:5]]))
    return out[:10]
