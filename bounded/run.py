"""Entry point of the bounded side.

  /venv/bin/python -m bounded.run C01 --tier quick --seed 0 --out out.json
  /venv/bin/python -m bounded.run --replay replays/C01-bounded-0.json

Exit: 0 = no new violation, 1 = violation (replay written / reproduced), 3 = harness error.
"""
import argparse
import importlib
import json
import random
import sys
import traceback


def main(argv=None):
    ap = argparse.ArgumentParser()
    ap.add_argument('prop', nargs='?')
    ap.add_argument('--tier', default='quick')
    ap.add_argument('--seed', type=int, default=0)
    ap.add_argument('--out')
    ap.add_argument('--replay')
    ap.add_argument('--replay-dir')
    a = ap.parse_args(argv)
    from . import common
    if a.replay:
        with open(a.replay) as f:
            doc = json.load(f)
        mod = importlib.import_module(doc['module'])
        failures = mod.check_case(doc['case'])
        same = [f for f in failures if f['obligation'] == doc['obligation']]
        print(json.dumps({'reproduced': bool(same), 'failures': failures[:5]}, indent=1))
        return 1 if same else 0
    mod = importlib.import_module('bounded.%s' % a.prop.lower())
    rng = random.Random(a.seed)
    rep = common.Report(a.prop, a.tier, a.seed, a.replay_dir)
    try:
        if hasattr(mod, 'run'):
            mod.run(rep, a.tier, rng)
        else:
            common.run_cases(rep, mod.__name__, mod.gen_cases(a.tier, rng), mod.check_case,
                             getattr(mod, 'nontrivial', common.nontrivial_table))
    except Exception:
        traceback.print_exc()
        return 3
    res = rep.result()
    res['rule'] = getattr(mod, 'RULE', '')
    res['scope'] = getattr(mod, 'SCOPE', {}).get(a.tier, '') if isinstance(getattr(mod, 'SCOPE', None), dict) \
        else getattr(mod, 'SCOPE', '')
    res['exhaustive'] = bool(getattr(mod, 'EXHAUSTIVE', False))
    if a.out:
        with open(a.out, 'w') as f:
            json.dump(res, f, indent=1)
    else:
        print(json.dumps(res, indent=1)[:4000])
    return 1 if rep.violations else 0


if __name__ == '__main__':
    sys.exit(main())
