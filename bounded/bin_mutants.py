"""Differential replay (bounded, /venv/bin/python) of the mutants of pyvc/mutants_bin.py: every mutant is applied to the source text of its
module of the installed `bitsets` package, the mutated module is executed IN MEMORY (nothing is written to site-packages) and its observable is
compared with the installed module's over an enumerated scope; the verdict listed for the mutant ('equivalent' / 'breaks') must be what the
comparison finds.

Observable, integers.py:  list(indexes_optimized(n))  for all n < 2^12 and random n up to 2^200 (exceptions by their class name)
Observable, bases.py:     for bitset classes of 1, 2, 3, 5 and 8 members built on the (mutated) MemberBits, for EVERY set of the class:
                          count(), count(True), count(False), shortlex(), longlex(), bits(), members(), shortcolex(), longcolex(); and len() of
                          every set of the classes built on the (mutated) BitSet

Run by hand:  /venv/bin/python -m bounded.bin_mutants      (the proof side judges the same list: python3-vt -m pyvc.mutants)
"""
import os
import random
import sys
import types

sys.path.insert(0, os.path.dirname(os.path.dirname(os.path.abspath(__file__))))


def load_mutated(path, old, new):
    """the module bitsets/<file> with `old` replaced by `new` (or unchanged: old is None), executed in a fresh namespace under the package
    name, so that its relative imports resolve against the installed package"""
    with open(path, encoding='utf-8') as f:
        src = f.read()
    if old is not None:
        assert src.count(old) >= 1, ('mutant does not apply', path, old)
        src = src.replace(old, new, 1)
    name = 'bitsets.' + os.path.basename(path)[:-3]
    mod = types.ModuleType(name)
    mod.__package__ = 'bitsets'
    mod.__file__ = path
    exec(compile(src, path, 'exec'), mod.__dict__)
    return mod


def _try(f, *a):
    try:
        r = f(*a)
        return list(r) if hasattr(r, '__next__') else r
    except Exception as e:      # noqa: BLE001
        return type(e).__name__


def observe_integers(mod):
    rnd = random.Random(5)
    scope = list(range(1 << 12)) + [rnd.getrandbits(rnd.randrange(13, 200)) for _ in range(300)]
    return [_try(lambda n: list(mod.indexes_optimized(n)), n) for n in scope]


def observe_bases(mod):
    import bitsets
    out = []
    for w in (1, 2, 3, 5, 8):
        cls = bitsets.bitset('Scope%d' % w, tuple('abcdefgh'[:w]), base=mod.MemberBits)
        for x in range(1 << w):
            s = cls.fromint(x)
            out.append((w, x, _try(s.count), _try(s.count, True), _try(s.count, False), _try(s.shortlex), _try(s.longlex), _try(s.bits),
                        _try(s.members), _try(s.shortcolex), _try(s.longcolex)))
        sets = bitsets.bitset('Sets%d' % w, tuple('abcdefgh'[:w]), base=mod.BitSet)
        out.extend((w, x, 'len', _try(len, sets.fromint(x))) for x in range(1 << w))
    return out


def main():
    from pyvc.mutants_bin import MUTANTS
    clean, wrong = {}, []
    for relpath, old, new, units, expect in MUTANTS:
        path = relpath[len('ABS:'):]
        observe = observe_integers if path.endswith('integers.py') else observe_bases
        if path not in clean:
            clean[path] = observe(load_mutated(path, None, None))
            import importlib
            live = importlib.import_module('bitsets.' + os.path.basename(path)[:-3])
            assert clean[path] == observe(live), 'the in-memory copy of the unchanged module differs from the imported one'
        got = observe(load_mutated(path, old, new))
        found = 'equivalent' if got == clean[path] else 'breaks'
        first = next((a for a, b in zip(clean[path], got) if a != b), None)
        ok = found == expect
        print('%-6s %-10s (listed %-10s) %s: %r%s' % ('ok' if ok else 'WRONG', found, expect, os.path.basename(path), new[:70],
                                                         '' if first is None else '   first difference at %r' % (first[:2] if isinstance(first, tuple) else first,)))
        if not ok:
            wrong.append((relpath, new))
    print(len(MUTANTS), 'mutants replayed;', len(wrong), 'verdicts differ from the list')
    return 1 if wrong else 0


if __name__ == '__main__':
    sys.exit(main())
