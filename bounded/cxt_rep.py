"""Replay (bounded, /venv/bin/python): the representability precondition REP of lemma.cxt.roundtrip (contracts/formats_chars.py) is
EXACT on an enumerated scope: the real ``Cxt.loads(Cxt.dumps(objects, properties, bools))`` returns the given triple IF AND ONLY IF
REP holds.  "If" is what the lemma proves for all tables; "only if" is the negative knowledge recorded in the module docstring
(every way of violating REP makes the real round trip fail: wrong result or exception).

Not part of a property check (C12's bounded module is bounded/c12.py); run by hand:  /venv/bin/python -m bounded.cxt_rep
"""
import itertools

LABELS = ['a', 'b c', 'X', '.', '0', '12', 'x\x0cy', 'x y', '﻿x', 'x\x00',                           # representable
          '', ' ', '\x1c', ' x', 'x ', '\tx', 'x\x85', '　x', 'x\ny', 'x\n\ny', 'x\ry', 'x\r', '\nx', 'x\n']   # not representable


def rep_label(x):
    return x != '' and '\n' not in x and '\r' not in x and not x[0].isspace() and not x[-1].isspace()


def rep(objects, properties, bools):
    return (len(objects) >= 1 and len(bools) == len(objects) and len(properties) >= 1
            and all(len(row) == len(properties) for row in bools) and all(map(rep_label, objects)) and all(map(rep_label, properties)))


def roundtrips(cxt, objects, properties, bools):
    try:
        r = cxt.loads(cxt.dumps(objects, properties, bools))
    except Exception as e:      # noqa: BLE001  (ValueError, KeyError, AssertionError: all observed)
        return False, type(e).__name__
    ok = (list(r.objects), list(r.properties), list(r.bools)) == (list(objects), list(properties), [tuple(b) for b in bools])
    return ok, 'ok' if ok else 'wrong-result-without-exception'


def main():
    from concepts.formats import Format
    cxt = Format['cxt']
    n = 0
    outcomes = {}
    fills = {(1, 1): [[(True,)], [(False,)]], (1, 2): [[(True, False)]], (2, 1): [[(False,), (True,)]], (2, 2): [[(True, False), (False, True)], [(False, False), (True, True)]]}
    for (no, np_), tables in fills.items():
        for objects in itertools.product(LABELS, repeat=no):
            for properties in itertools.product(LABELS, repeat=np_):
                for bools in tables:
                    ok, how = roundtrips(cxt, list(objects), list(properties), bools)
                    want = rep(objects, properties, bools)
                    assert ok == want, (objects, properties, bools, how)
                    outcomes[how] = outcomes.get(how, 0) + 1
                    n += 1
    # shapes outside REP
    for objects, properties, bools in ((['a'], [], [()]), (['a', 'b'], [], [(), ()]), ([], ['a'], []), (['a'], ['b'], []), (['a', 'b'], ['c'], [(True,)])):
        ok, how = roundtrips(cxt, objects, properties, bools)
        assert not ok and not rep(objects, properties, bools), (objects, properties, bools)
        outcomes[how] = outcomes.get(how, 0) + 1
        n += 1
    return n, outcomes


if __name__ == '__main__':
    print(main())
