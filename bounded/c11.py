"""C11 bounded stand-in: structured persistence reloads the same context and the same lattice.

Run-time contract on the real Context.todict / fromdict / tojson / fromjson / tostring+fromstring and
tofile+fromfile (frmat='python-literal') and on pickle of Context and Lattice:

* todict() is compared with the documented index-based encoding computed by brute force from the table
  (`oracle_encoding`: extents = closed object sets in shortlex order, intents = Up(extent), upper
  neighbour indexes in shortlex order, lower neighbour indexes in longlex order);
* every loader result is compared with the context rebuilt from the table (`==`, objects, properties,
  bools) and its stored lattice with the lattice recomputed from scratch, through `lattice_observation`
  (every public query per concept) and `Lattice._eq` in both directions;
* configurations: with lattice / without (ignore_lattice=True) / lazily present (ignore_lattice=None before
  and after the lattice was computed); raw=True with permuted stored lattice lists (neighbour indexes
  renumbered) and shuffled inner index tuples;
* pickle in this process, and (cases of kind 'pickle-batch') dumped by one fresh interpreter and loaded +
  observed by another one with a different PYTHONHASHSEED.
"""
import ast
import io
import itertools
import json
import os
import pathlib
import pickle
import random
import shutil
import subprocess
import sys
import tempfile

from . import common
from .common import Oracle, fail

import concepts

RULE = ('cases = boolean tables (K scopes of DESIGN 3.4, labels in reverse alphabetical order) and batches of such tables '
        'for the two-process pickle check; per table every codec x lattice configuration and the raw=True permutations '
        '(all when <= 4 concepts, seeded sample beyond); non-trivial = table with >= 2 concepts, distinct up to row/column '
        'permutation (a batch counts once); the observation includes per-concept upset/downset/minimal up to 64 concepts and '
        'all pairwise join/meet/<= up to 12 concepts')
SCOPE = {'quick': 'all n x m tables with n, m <= 3 except 3x3, structured families <= 4, 25 random <= 6x6, 3 wide tables (> 64 bit); '
                  '6 raw permutations beyond 4 concepts; two-process pickle (hash seeds 1 -> 2) for all tables <= 2x2, '
                  'the structured families <= 4 and 10 random tables, in batches of 30',
         'thorough': 'all tables <= 3x3 and all with n*m <= 9 (dims <= 8), structured families <= 6, 200 random <= 7x7, 6 wide '
                     'tables, contranominal scales 7..11 (128..2048 concepts); 12 raw permutations beyond 4 concepts '
                     '(3 beyond 256 concepts); two-process pickle (hash seeds 1 -> 2, and 0 -> 4242 for the first batch) for '
                     'all tables <= 3x3 (subsampled 1 in 3 for 3x3), structured families <= 6, 60 random, wide, and the '
                     'contranominal scales, in batches of 50'}

DEEP_LIMIT = 64      # per-concept traversals (upset/downset/minimal) only up to this many concepts
PAIR_LIMIT = 12      # all pairwise join/meet only up to this many concepts


# --------------------------------------------------------------------------------------------
# oracle: the documented encoding, by brute force from the table

def _covers(masks):
    """Upper covers of every extent (python int bit masks).  f covers e iff e < f and no extent g with
    e < g < f.  Going through the proper supersets of e by increasing size, f is a cover iff no cover
    found so far is contained in f (any g strictly between e and f lies above some cover of e, and that
    cover is smaller than f, hence was seen before)."""
    by_size = sorted(masks, key=lambda x: (bin(x).count('1'), x))
    up = {}
    for e in by_size:
        cov = []
        for f in by_size:
            if f != e and f & e == e and not any(c & f == c for c in cov):
                cov.append(f)
        up[e] = cov
    return up


def canonical_lattice(rows):
    """(extents in shortlex order as frozensets, upper covers, lower covers) of the table, brute force."""
    o = Oracle(rows)
    exts = sorted(o.extents(), key=Oracle.shortlex_key)
    if len(exts) <= 40:
        upper = {e: o.upper_covers(e) for e in exts}
    else:
        mask = {e: sum(1 << i for i in e) for e in exts}
        back = {v: k for k, v in mask.items()}
        cov = _covers(list(mask.values()))
        upper = {e: {back[f] for f in cov[mask[e]]} for e in exts}
    lower = {e: set() for e in exts}
    for e, ups in upper.items():
        for f in ups:
            lower[f].add(e)
    return o, exts, upper, lower


def oracle_encoding(case):
    """The documented dict form (docs/advanced.rst 'Custom serialization format'), lists instead of tuples."""
    rows = case['rows']
    o, exts, upper, lower = canonical_lattice(rows)
    index = {e: i for i, e in enumerate(exts)}
    lattice = [[sorted(e), sorted(o.up(e)),
                [index[f] for f in sorted(upper[e], key=Oracle.shortlex_key)],
                [index[f] for f in sorted(lower[e], key=Oracle.longlex_key)]] for e in exts]
    return {'objects': list(case['objects']), 'properties': list(case['properties']),
            'context': [[j for j, v in enumerate(r) if v] for r in rows],
            'lattice': lattice}


def norm(v):
    """Nested tuples/lists -> lists; keeps ints, strs (bool is not an int here)."""
    if isinstance(v, dict):
        return {k: norm(x) for k, x in v.items()}
    if isinstance(v, (list, tuple)):
        return [norm(x) for x in v]
    if isinstance(v, bool):
        return 'bool:%s' % v
    return v


def _tuples(v):
    return tuple(_tuples(x) for x in v) if isinstance(v, (list, tuple)) else \
        ({k: _tuples(x) for k, x in v.items()} if isinstance(v, dict) else v)


def without_lattice(d):
    return {k: v for k, v in d.items() if k != 'lattice'}


# --------------------------------------------------------------------------------------------
# observations through public queries

def observe_lattice(lat):
    """Everything a user can ask a lattice, as JSON-able data (no addresses)."""
    cs = list(lat)
    n = len(cs)
    obs = {'len': len(lat), 'class': type(lat).__name__,
           'infimum': list(lat.infimum.extent), 'supremum': list(lat.supremum.extent),
           'atoms': [list(a.extent) for a in lat.atoms],
           'slice': [c.index for c in lat[0:3]],
           'join_none': lat.join([]).index, 'meet_none': lat.meet([]).index,
           'concepts': []}
    for pos, c in enumerate(cs):
        rec = {'extent': list(c.extent), 'intent': list(c.intent), 'pair': [list(x) for x in c],
               'index': c.index, 'dindex': c.dindex, 'position': pos,
               'upper': [list(u.extent) for u in c.upper_neighbors],
               'lower': [list(l.extent) for l in c.lower_neighbors],
               'objects': list(c.objects), 'properties': list(c.properties),
               'atoms': [list(a.extent) for a in c.atoms],
               'class': type(c).__name__, 'str': str(c),
               'same_lattice': c.lattice is lat,
               'by_index': lat[c.index] is c,
               'by_extent': lat[c.extent].index, 'by_intent': lat[c.intent].index if c.intent else None,
               'call_intent': lat(c.intent).index}
        if n <= DEEP_LIMIT:
            rec['upset'] = [x.index for x in c.upset()]
            rec['downset'] = [x.index for x in c.downset()]
            rec['minimal'] = list(c.minimal())
        obs['concepts'].append(rec)
    if n <= PAIR_LIMIT:
        obs['join'] = [[(a | b).index for b in cs] for a in cs]
        obs['meet'] = [[(a & b).index for b in cs] for a in cs]
        obs['le'] = [[a <= b for b in cs] for a in cs]
        obs['upset_union'] = [x.index for x in lat.upset_union(cs[1:3])]
        obs['downset_union'] = [x.index for x in lat.downset_union(cs[-3:-1])]
    return obs


def lattice_observation(ctx):
    """The context (names, cells) and every public query of its (stored or lazily computed) lattice."""
    return {'objects': list(ctx.objects), 'properties': list(ctx.properties),
            'bools': [list(r) for r in ctx.bools], 'shape': list(ctx.shape),
            'lattice': observe_lattice(ctx.lattice)}


def first_difference(a, b, path='obs'):
    """Readable location of the first difference between two observations."""
    if type(a) is not type(b):
        return '%s: %r != %r' % (path, a, b)
    if isinstance(a, dict):
        for k in sorted(set(a) | set(b)):
            if k not in a or k not in b:
                return '%s.%s: missing on one side' % (path, k)
            d = first_difference(a[k], b[k], '%s.%s' % (path, k))
            if d:
                return d
        return None
    if isinstance(a, list):
        if len(a) != len(b):
            return '%s: len %d != %d (%r != %r)' % (path, len(a), len(b), a[:6], b[:6])
        for i, (x, y) in enumerate(zip(a, b)):
            d = first_difference(x, y, '%s[%d]' % (path, i))
            if d:
                return d
        return None
    return None if a == b else '%s: %r != %r' % (path, a, b)


# --------------------------------------------------------------------------------------------
# cases

ESCAPE_LABELS = ['\\alpha', 'C:\\temp\\new', "it's", 'q"uote', 'a\nb', '\\', 'tab\there', '\u03a9', "\\'", '\\n', 'a b', '']


def _label_cases():
    """labels that need escaping in the text codecs (python-literal repr, JSON): backslashes, quotes, control characters"""
    L = ESCAPE_LABELS
    for k, rows in enumerate(([[1, 0], [0, 1]], [[1, 1, 0], [0, 1, 1]], [[0, 1], [1, 1], [1, 0]])):
        n, m = len(rows), len(rows[0])
        objs = [L[(k * 5 + i) % len(L)] + ('' if i == 0 else '#%d' % i) for i in range(n)]
        props = [L[(k * 5 + n + j) % len(L)] + '@%d' % j for j in range(m)]
        yield common.case_of_table(rows, objs, props, family='escape-labels', perm_samples=4)


def _table_cases(tier, rng):
    yield from _label_cases()
    if tier == 'quick':
        for n, m in ((1, 1), (1, 2), (2, 1), (2, 2), (1, 3), (3, 1), (2, 3), (3, 2)):
            for rows in common.all_tables(n, m):
                yield common.case_of_table(rows, perm_samples=6)
        for name, rows in common.structured_tables(4):
            yield common.case_of_table(rows, family=name, perm_samples=6)
        for _ in range(25):
            n, m = rng.randint(2, 6), rng.randint(2, 6)
            yield common.case_of_table(common.random_table(rng, n, m), family='random', perm_samples=6)
        for name, rows in common.wide_tables(rng)[:3]:
            yield common.case_of_table(rows, family=name, perm_samples=6)
    else:
        seen = set()
        for n in range(1, 9):
            for m in range(1, 9):
                if n * m <= 9 or (n <= 3 and m <= 3):
                    seen.add((n, m))
        for n, m in sorted(seen):
            for rows in common.all_tables(n, m):
                yield common.case_of_table(rows, perm_samples=12)
        for name, rows in common.structured_tables(6):
            yield common.case_of_table(rows, family=name, perm_samples=12)
        for _ in range(200):
            n, m = rng.randint(2, 7), rng.randint(2, 7)
            yield common.case_of_table(common.random_table(rng, n, m), family='random', perm_samples=12)
        for name, rows in common.wide_tables(rng):
            yield common.case_of_table(rows, family=name, perm_samples=12)
        for s in range(7, 12):
            rows = tuple(tuple(i != j for j in range(s)) for i in range(s))
            yield common.case_of_table(rows, family='contranominal%d' % s, perm_samples=12 if s <= 8 else 3)


def _batch_tables(tier, rng):
    if tier == 'quick':
        for rows in common.tables_upto(2, 2):
            yield common.case_of_table(rows)
        for name, rows in common.structured_tables(4):
            yield common.case_of_table(rows, family=name)
        for _ in range(10):
            yield common.case_of_table(common.random_table(rng, rng.randint(2, 6), rng.randint(2, 6)), family='random')
    else:
        for n in range(1, 4):
            for m in range(1, 4):
                for k, rows in enumerate(common.all_tables(n, m)):
                    if (n, m) != (3, 3) or k % 3 == 0:
                        yield common.case_of_table(rows)
        for name, rows in common.structured_tables(6):
            yield common.case_of_table(rows, family=name)
        for _ in range(60):
            yield common.case_of_table(common.random_table(rng, rng.randint(2, 7), rng.randint(2, 7)), family='random')
        for name, rows in common.wide_tables(rng):
            yield common.case_of_table(rows, family=name)
        for s in range(7, 12):
            rows = tuple(tuple(i != j for j in range(s)) for i in range(s))
            yield common.case_of_table(rows, family='contranominal%d' % s)


def gen_cases(tier, rng):
    # the per-table cases first (so that the report's samples are small tables), then the two-process batches
    yield from _table_cases(tier, rng)
    size = 30 if tier == 'quick' else 50
    batch, k = [], 0
    for t in _batch_tables(tier, rng):
        big = t.get('family', '').startswith('contranominal') and len(t['rows']) >= 9
        if big:      # one big lattice per batch: the pickle of it may fail (known finding) without hiding others
            yield {'kind': 'pickle-batch', 'id': 'big-%s' % t['family'], 'seeds': [1, 2], 'tables': [t]}
            continue
        batch.append(t)
        if len(batch) == size:
            yield {'kind': 'pickle-batch', 'id': k, 'seeds': [1, 2], 'tables': batch}
            if k == 0 and tier != 'quick':
                yield {'kind': 'pickle-batch', 'id': 'k0-other-seeds', 'seeds': [0, 4242], 'tables': batch}
            batch, k = [], k + 1
    if batch:
        yield {'kind': 'pickle-batch', 'id': k, 'seeds': [1, 2], 'tables': batch}


def nontrivial(case):
    if case.get('kind') == 'pickle-batch':
        return ('batch', str(case['id']))
    return common.nontrivial_table(case)


# --------------------------------------------------------------------------------------------
# checks on one table

class _Checker:

    def __init__(self, case):
        self.case = case
        self.out = []
        self.enc = oracle_encoding(case)
        self.enc0 = without_lattice(self.enc)
        self.fresh = common.context_of_case(case)
        self.ref = lattice_observation(self.fresh)
        self.tmp = None

    def new(self, computed=False):
        c = common.context_of_case(self.case)
        if computed:
            c.lattice
        return c

    def add(self, obligation, clause, expected, observed, **extra):
        if len(self.out) < 10 and not any(f['obligation'] == obligation for f in self.out):
            self.out.append(fail(obligation, clause, expected, observed, **extra))

    def tmpdir(self):
        if self.tmp is None:
            self.tmp = tempfile.mkdtemp(prefix='c11-')
        return self.tmp

    def close(self):
        if self.tmp is not None:
            shutil.rmtree(self.tmp, ignore_errors=True)

    def encoding(self, tag, d, with_lattice):
        exp = self.enc if with_lattice else self.enc0
        got = norm(d)
        if got != exp:
            where = first_difference(exp, got, 'd')
            self.add('%s.encoding' % tag, 'todict() is the documented index-based encoding of the table and (when '
                     'included) of the lattice: extents, intents, upper and lower neighbor indexes in canonical order',
                     exp if len(json.dumps(exp)) < 1500 else where, got if len(json.dumps(got)) < 1500 else where,
                     with_lattice=with_lattice, first_difference=where)

    def loaded(self, tag, load, present):
        """`load()` returns a context; it must equal the original, and its lattice (stored or lazily computed)
        must be indistinguishable from the recomputed one; `present`: stored lattice expected (True/False)."""
        try:
            ctx = load()
        except Exception as e:
            self.add('%s.load' % tag, 'the loaders rebuild an equal context', 'a context',
                     '%s: %s' % (type(e).__name__, e))
            return None
        if not (ctx == self.fresh) or ctx != self.fresh or list(ctx.objects) != self.case['objects'] \
                or list(ctx.properties) != self.case['properties'] \
                or [list(r) for r in ctx.bools] != self.case['rows']:
            self.add('%s.context' % tag, 'the loaders rebuild an equal context',
                     [self.case['objects'], self.case['properties'], self.case['rows']],
                     [ctx.objects, ctx.properties, ctx.bools])
            return ctx
        if present is not None:
            has = 'lattice' in ctx.todict(ignore_lattice=None)
            if has != present:
                self.add('%s.presence' % tag, 'the lattice is stored when included and not ignored, absent otherwise '
                         '(todict(ignore_lattice=None) shows it iff it is there)', present, has)
        try:
            obs = lattice_observation(ctx)
        except Exception as e:
            self.add('%s.lattice' % tag, 'the stored lattice is indistinguishable, through every public query, from the '
                     'one recomputed from scratch', 'same observation', '%s: %s' % (type(e).__name__, e))
            return ctx
        if obs != self.ref:
            self.add('%s.lattice' % tag, 'the stored lattice is indistinguishable, through every public query, from the '
                     'one recomputed from scratch', 'same observation as the recomputed lattice',
                     first_difference(self.ref, obs))
        elif ctx.lattice._eq(self.fresh.lattice) is not True or self.fresh.lattice._eq(ctx.lattice) is not True:
            self.add('%s.lattice-eq' % tag, 'the stored lattice is indistinguishable from the recomputed one (Lattice._eq)',
                     True, [ctx.lattice._eq(self.fresh.lattice), self.fresh.lattice._eq(ctx.lattice)])
        return ctx

    # -- A: todict in the three lattice configurations
    def check_todict(self):
        c = self.new()
        d = c.todict(ignore_lattice=None)
        self.encoding('todict.lazy-absent', d, False)
        if 'lattice' in c.__dict__:
            self.add('todict.lazy-absent.nocompute', "with ignore_lattice=None 'lattice' is omitted if it has not yet been "
                     'computed', 'lattice still not computed', 'lattice was computed')
        self.encoding('todict.ignore', c.todict(ignore_lattice=True), False)
        self.encoding('todict', c.todict(), True)
        self.encoding('todict.lazy-present', c.todict(ignore_lattice=None), True)
        self.encoding('todict.ignore', c.todict(ignore_lattice=True), False)
        self.encoding('todict', c.todict(ignore_lattice=False), True)

    # -- B: fromdict
    def check_fromdict(self):
        C = concepts.Context
        d = self.new().todict()
        d0 = self.new().todict(ignore_lattice=True)
        self.loaded('fromdict.with', lambda: C.fromdict(d), True)
        self.loaded('fromdict.require', lambda: C.fromdict(d, require_lattice=True), True)
        self.loaded('fromdict.ignore', lambda: C.fromdict(d, ignore_lattice=True), False)
        self.loaded('fromdict.without', lambda: C.fromdict(d0), False)
        # the documented encoding itself (lists, as JSON gives them), independent of todict
        self.loaded('fromdict.documented', lambda: C.fromdict(json.loads(json.dumps(self.enc))), True)
        self.loaded('fromdict.documented-without', lambda: C.fromdict(dict(self.enc0, extra_key=1)), False)
        c = self.loaded('fromdict.raw-identity', lambda: C.fromdict(d, raw=True), True)
        if c is not None:
            self.encoding('fromdict.reencode', c.todict(), True)

    # -- C: JSON text via file object and path
    def check_json(self):
        C = concepts.Context
        tmp = self.tmpdir()
        for tag, computed, ign, present in (('json.with', False, False, True), ('json.ignore', True, True, False),
                                            ('json.lazy-absent', False, None, False),
                                            ('json.lazy-present', True, None, True)):
            c = self.new(computed)
            buf = io.StringIO()
            c.tojson(buf, ignore_lattice=ign)
            text = buf.getvalue()
            try:
                doc = json.loads(text)
            except ValueError as e:
                self.add('%s.text' % tag, 'tojson writes the dict form as JSON', 'JSON text', '%s' % e)
                continue
            self.encoding(tag, doc, present)
            self.loaded('%s.fileobj' % tag, lambda: C.fromjson(io.StringIO(text)), present)
            path = os.path.join(tmp, '%s.json' % tag)
            c2 = self.new(computed)
            c2.tojson(path, ignore_lattice=ign)
            with open(path, encoding='utf-8') as f:
                if norm(json.load(f)) != norm(doc):
                    self.add('%s.path-text' % tag, 'tojson writes the same document to a path and to a file object',
                             doc, 'different document')
            self.loaded('%s.path' % tag, lambda: C.fromjson(path), present)
            if present:
                self.loaded('%s.path-ignore' % tag, lambda: C.fromjson(pathlib.Path(path), ignore_lattice=True), False)
                self.loaded('%s.path-require-raw' % tag,
                            lambda: C.fromjson(path, require_lattice=True, raw=True), True)
            else:
                p2 = pathlib.Path(tmp) / ('%s-pathlib.json' % tag)
                self.new(computed).tojson(p2, ignore_lattice=ign, indent=2, sort_keys=False)
                self.loaded('%s.pathlib' % tag, lambda: C.fromjson(p2), present)

    # -- D: python-literal string and file
    def check_literal(self):
        C = concepts.Context
        tmp = self.tmpdir()
        for tag, computed in (('literal.lazy-absent', False), ('literal.lazy-present', True)):
            c = self.new(computed)
            text = c.tostring(frmat='python-literal')
            try:
                doc = ast.literal_eval(text)
            except Exception as e:
                self.add('%s.text' % tag, 'the python-literal text form is a literal of the dict form', 'a literal',
                         '%s: %s' % (type(e).__name__, e))
                continue
            self.encoding(tag, doc, computed)
            self.loaded('%s.string' % tag, lambda: C.fromstring(text, frmat='python-literal'), computed)
            path = os.path.join(tmp, '%s.py' % tag)
            c.tofile(path, frmat='python-literal')
            with open(path, encoding='utf-8') as f:
                try:
                    fdoc = ast.literal_eval(f.read())
                except Exception as e:
                    fdoc = '%s: %s' % (type(e).__name__, e)
            self.encoding('%s.file-text' % tag, fdoc, computed)
            self.loaded('%s.file' % tag, lambda: C.fromfile(path, frmat='python-literal'), computed)
            self.loaded('%s.file-infer' % tag, lambda: C.fromfile(path, frmat=None), computed)

    # -- E: raw=True with permutations of the stored lattice list and shuffled inner index tuples
    def permuted(self, perm, rng):
        """perm[k] = old index stored at new position k; neighbour indexes renumbered; inner tuples shuffled."""
        lat = self.enc['lattice']
        pos = {old: new for new, old in enumerate(perm)}

        def sh(seq):
            seq = list(seq)
            rng.shuffle(seq)
            return seq
        new = []
        for old in perm:
            ex, in_, up, lo = lat[old]
            new.append([sh(ex), sh(in_), sh([pos[i] for i in up]), sh([pos[i] for i in lo])])
        return {'objects': list(self.enc['objects']), 'properties': list(self.enc['properties']),
                'context': [sh(r) for r in self.enc['context']], 'lattice': new}

    def check_raw(self):
        C = concepts.Context
        n = len(self.enc['lattice'])
        rng = random.Random(20111)
        if n <= 4:
            perms = list(itertools.permutations(range(n)))
        else:
            perms = [tuple(reversed(range(n))), tuple(range(1, n)) + (0,)]
            for _ in range(max(0, self.case.get('perm_samples', 6) - 2)):
                p = list(range(n))
                rng.shuffle(p)
                perms.append(tuple(p))
        for k, perm in enumerate(perms):
            d = self.permuted(perm, rng)
            before = len(self.out)
            if k % 3 == 0:      # tuples, as a python literal would give them
                d = _tuples(d)
                self.loaded('raw.permuted', lambda: C.fromdict(d, raw=True), True)
            elif k % 3 == 1:
                self.loaded('raw.permuted', lambda: C.fromjson(io.StringIO(json.dumps(d)), raw=True), True)
            else:
                self.loaded('raw.permuted', lambda: C.fromdict(d, raw=True, require_lattice=True), True)
            if len(self.out) > before:
                self.out[-1]['permutation'] = list(perm)
                self.out[-1]['stored'] = norm(d) if n <= 12 else 'large'
                break

    # -- F: pickle in this process
    def check_pickle(self):
        protocols = (pickle.DEFAULT_PROTOCOL, 2) if len(self.enc['lattice']) <= 64 else (pickle.DEFAULT_PROTOCOL,)
        for proto in protocols:
            for tag, computed in (('pickle.context.lazy-absent', False), ('pickle.context.lazy-present', True)):
                c = self.new(computed)
                try:
                    c2 = pickle.loads(pickle.dumps(c, proto))
                except Exception as e:
                    self.add('pickle.context.roundtrip', 'pickling a context and loading it gives an equivalent object',
                             'equivalent context', '%s: %s' % (type(e).__name__, e), protocol=proto)
                    continue
                self.loaded(tag, lambda: c2, None)
            lat = self.new(True).lattice
            try:
                lat2 = pickle.loads(pickle.dumps(lat, proto))
            except Exception as e:
                self.add('pickle.lattice.roundtrip', 'pickling a lattice and loading it gives an equivalent object',
                         'equivalent lattice', '%s: %s' % (type(e).__name__, str(e)[:200]), protocol=proto,
                         concepts=len(lat))
                continue
            try:
                obs = observe_lattice(lat2)
                eq = lat2._eq(self.fresh.lattice) is True and self.fresh.lattice._eq(lat2) is True
            except Exception as e:
                obs, eq = '%s: %s' % (type(e).__name__, e), False
            if obs != self.ref['lattice']:
                self.add('pickle.lattice.observation', 'pickling a lattice and loading it gives an equivalent object',
                         'same observation as the original lattice',
                         first_difference(self.ref['lattice'], obs) if isinstance(obs, dict) else obs, protocol=proto)
            elif not eq:
                self.add('pickle.lattice.eq', 'pickling a lattice and loading it gives an equivalent object (Lattice._eq)',
                         True, False, protocol=proto)


def check_table(case):
    ck = _Checker(case)
    try:
        ck.check_todict()
        ck.check_fromdict()
        ck.check_json()
        ck.check_literal()
        ck.check_raw()
        ck.check_pickle()
    finally:
        ck.close()
    return ck.out[:10]


# --------------------------------------------------------------------------------------------
# two-process pickle: dump in one fresh interpreter, load + observe in another (different hash seed)

KINDS = ('ctx0', 'ctx1', 'lat')     # context before / after computing the lattice, the lattice itself


def _worker(mode, jobfile):
    with open(jobfile) as f:
        job = json.load(f)
    d = job['dir']
    res = {}
    for i, t in enumerate(job['tables']):
        r = res[str(i)] = {}
        if mode == 'dump':
            c = common.context_of_case(t)
            for kind in KINDS:
                try:
                    if kind == 'ctx1':
                        c.lattice
                    obj = c.lattice if kind == 'lat' else c
                    data = pickle.dumps(obj)
                    with open(os.path.join(d, '%d.%s.pkl' % (i, kind)), 'wb') as f:
                        f.write(data)
                    r[kind] = None
                except Exception as e:
                    r[kind] = '%s: %s' % (type(e).__name__, str(e)[:200])
        else:
            fresh = common.context_of_case(t)
            for kind in KINDS:
                path = os.path.join(d, '%d.%s.pkl' % (i, kind))
                if not os.path.exists(path):
                    continue
                try:
                    with open(path, 'rb') as f:
                        obj = pickle.load(f)
                    if kind == 'lat':
                        r[kind] = {'obs': observe_lattice(obj),
                                   'eq': obj._eq(fresh.lattice) is True and fresh.lattice._eq(obj) is True}
                    else:
                        eq = (obj == fresh) and not (obj != fresh)
                        present = 'lattice' in obj.todict(ignore_lattice=None)
                        r[kind] = {'obs': lattice_observation(obj), 'present': present,
                                   'eq': bool(eq) and obj.lattice._eq(fresh.lattice) is True}
                except Exception as e:
                    r[kind] = {'error': '%s: %s' % (type(e).__name__, str(e)[:200])}
    with open(os.path.join(d, '%s-result.json' % mode), 'w') as f:
        json.dump({'hashseed': os.environ.get('PYTHONHASHSEED'), 'results': res}, f)


def _spawn(mode, jobfile, seed):
    env = dict(os.environ)
    env['PYTHONHASHSEED'] = str(seed)
    env['VERIF_REPO'] = common.REPO
    p = subprocess.run([sys.executable, '-m', 'bounded.c11', '--worker', mode, jobfile], cwd=common.VERIF, env=env,
                       capture_output=True, text=True, timeout=900)
    return p


def check_batch(case):
    out = []
    clause = ('pickling a context or a lattice and loading it in another interpreter process gives an equivalent object')
    tmp = tempfile.mkdtemp(prefix='c11-batch-')
    try:
        jobfile = os.path.join(tmp, 'job.json')
        with open(jobfile, 'w') as f:
            json.dump({'dir': tmp, 'tables': case['tables']}, f)
        results = {}
        for mode, seed in zip(('dump', 'load'), case['seeds']):
            p = _spawn(mode, jobfile, seed)
            rf = os.path.join(tmp, '%s-result.json' % mode)
            if p.returncode != 0 or not os.path.exists(rf):
                return [fail('pickle.process.%s' % mode, clause, 'worker finishes',
                             'exit %s: %s' % (p.returncode, p.stderr[-600:]))]
            with open(rf) as f:
                results[mode] = json.load(f)
            if results[mode]['hashseed'] != str(seed):
                return [fail('pickle.process.%s' % mode, clause, 'PYTHONHASHSEED=%s' % seed, results[mode]['hashseed'])]
        for i, t in enumerate(case['tables']):
            ref = lattice_observation(common.context_of_case(t))
            dumped, loaded = results['dump']['results'][str(i)], results['load']['results'][str(i)]
            for kind in KINDS:
                which = 'lattice' if kind == 'lat' else 'context'
                ob = 'pickle.%s.roundtrip' % which
                if dumped.get(kind) is not None:
                    out.append(fail(ob, clause, 'pickle.dumps succeeds', dumped[kind], table=i, stage='dump', what=kind,
                                    family=t.get('family')))
                    continue
                got = loaded.get(kind)
                if got is None or 'error' in got:
                    out.append(fail(ob, clause, 'pickle.load succeeds', got and got['error'], table=i, stage='load',
                                    what=kind, family=t.get('family')))
                    continue
                exp = ref['lattice'] if kind == 'lat' else ref
                if got['obs'] != exp:
                    out.append(fail('pickle.%s.other-process' % which, clause, 'same observation as the original',
                                    first_difference(exp, got['obs']), table=i, what=kind, rows=t['rows']))
                elif not got['eq']:
                    out.append(fail('pickle.%s.other-process-eq' % which, clause, True, False, table=i, what=kind,
                                    rows=t['rows']))
            if len(out) >= 10:
                break
    finally:
        shutil.rmtree(tmp, ignore_errors=True)
    return out[:10]


def check_case(case):
    if case.get('kind') == 'pickle-batch':
        return check_batch(case)
    return check_table(case)


if __name__ == '__main__':
    if len(sys.argv) == 4 and sys.argv[1] == '--worker':
        _worker(sys.argv[2], sys.argv[3])
    else:
        sys.exit('usage: python -m bounded.c11 --worker dump|load jobfile')
