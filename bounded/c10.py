"""C10 bounded stand-in: reduced labelling -- every object and property labels exactly its own concept.

Run-time contract on the real Concept.objects / Concept.properties / Concept.atoms (and Concept.extent /
Concept.intent for the derived clauses) of every concept of the lattice built by the real code, against
the brute-force oracle (bounded.common.Oracle): the object concept of o is the concept with extent
Cl({o}), the attribute concept of p the one with extent Dn({p}); the order used for "downset"/"upset"
and "atoms" is extent inclusion over the oracle's closed sets, not the library's traversals.
"""
from . import common
from .common import Oracle, fail, idx

RULE = ('cases = boolean tables (K scopes of DESIGN 3.4; all tables <= 3x3 contain duplicate rows/columns, full '
        'rows and empty columns; labels are reverse-alphabetical so that label order differs from context order); '
        'per table every object, every property and every concept; non-trivial = table with >= 2 concepts, distinct '
        'up to row/column permutation')
SCOPE = {'quick': 'all tables <= 3x3, structured families <= 4, 40 random <= 6x6, 3 wide tables (> 64 bit)',
         'thorough': 'all tables with n*m <= 12, structured families <= 6, 400 random <= 7x7, 6 wide tables'}

MAX_FAIL = 10

C_OBJ = ('each object o appears in the objects label of exactly one concept, the object concept (o\'\', o\'), in '
         'context order within a label')
C_PROP = ('each property p appears in the properties label of exactly one concept, the attribute concept '
          '(p\', p\'\'), in context order within a label')
C_TUPLE = 'the objects / properties label of a concept is a tuple of names'
C_EXT = 'the extent of any concept is the union of the object labels in its downset'
C_INT = 'the intent of any concept is the union of the property labels in its upset'
C_ATOMS = 'concept.atoms lists exactly the lattice atoms below or equal to it'


def gen_cases(tier, rng):
    return common.standard_cases(tier, rng)


def check_case(case):
    out = []
    ctx = common.context_of_case(case)
    lat = ctx.lattice
    objs, props = case['objects'], case['properties']
    o = Oracle(case['rows'])
    cs = list(lat)
    N = len(cs)
    ext = [idx(c._extent) for c in cs]
    int_ = [idx(c._intent) for c in cs]
    if len(set(ext)) != N or set(ext) != o.extents():
        return [fail('pre.concepts', 'precondition (C03): the lattice members are exactly the formal concepts, once each',
                     sorted(map(sorted, o.extents())), sorted(map(sorted, ext)))]
    by_ext = {e: k for k, e in enumerate(ext)}
    pos = {id(c): k for k, c in enumerate(cs)}

    def show(k):
        return sorted(ext[k])

    def add(*a, **kw):
        out.append(fail(*a, **kw))
        return len(out) >= MAX_FAIL

    # ---- labels are tuples
    for k, c in enumerate(cs):
        for attr in ('objects', 'properties'):
            v = getattr(c, attr)
            if not isinstance(v, tuple) or not all(isinstance(s, str) for s in v):
                if add(attr + '.tuple', C_TUPLE, 'tuple of str', '%s: %r' % (type(v).__name__, v), concept=show(k)):
                    return out

    # ---- each object / property labels exactly its own concept
    for attr, names, clause, home in (
            ('objects', objs, C_OBJ, lambda i: o.cl([i])),
            ('properties', props, C_PROP, lambda j: o.dn([j]))):
        labels = [list(getattr(c, attr)) for c in cs]
        where = {}
        for k, lab in enumerate(labels):
            for s in lab:
                where.setdefault(s, []).append(k)
        homes = [by_ext[home(i)] for i in range(len(names))]
        for i, name in enumerate(names):
            exp_k = homes[i]
            got = where.get(name, [])
            if len(got) != 1:
                if add(attr + '.unique', clause, {'label-of': [show(exp_k)]}, {'label-of': [show(k) for k in got]},
                       name=name):
                    return out
            elif got[0] != exp_k:
                if add(attr + '.concept', clause, show(exp_k), show(got[0]), name=name):
                    return out
        known = set(names)
        index_of = {s: i for i, s in enumerate(names)}
        for k, lab in enumerate(labels):
            stray = [s for s in lab if s not in known]
            if stray:
                if add(attr + '.names', clause, 'names of the context', stray, concept=show(k)):
                    return out
                continue
            p = [index_of[s] for s in lab]
            if any(p[t] >= p[t + 1] for t in range(len(p) - 1)) and len(set(p)) == len(p):
                if add(attr + '.order', clause, [names[i] for i in sorted(p)], lab, concept=show(k)):
                    return out
            # the complete expected label (same content as the three obligations above, as one value)
            exp = tuple(names[i] for i in range(len(names)) if homes[i] == k)
            if tuple(lab) != exp and not out:
                if add(attr + '.label', clause, exp, lab, concept=show(k)):
                    return out

    # ---- extent / intent are the unions of the labels over the oracle's downset / upset
    for k, c in enumerate(cs):
        down = [j for j in range(N) if ext[j] <= ext[k]]
        up = [j for j in range(N) if ext[k] <= ext[j]]
        lab_o = [s for j in down for s in cs[j].objects]
        lab_p = [s for j in up for s in cs[j].properties]
        exp_e = [objs[i] for i in sorted(ext[k])]
        exp_i = [props[j] for j in sorted(int_[k])]
        if set(lab_o) != set(exp_e) or set(c.extent) != set(lab_o):
            if add('extent.union-of-labels', C_EXT, {'extent': exp_e}, {'labels-in-downset': lab_o, 'extent': c.extent},
                   concept=show(k)):
                return out
        if set(lab_p) != set(exp_i) or set(c.intent) != set(lab_p) or int_[k] != o.up(ext[k]):
            if add('intent.union-of-labels', C_INT, {'intent': [props[j] for j in sorted(o.up(ext[k]))]},
                   {'labels-in-upset': lab_p, 'intent': c.intent}, concept=show(k)):
                return out

    # ---- atoms
    bottom = o.cl([])
    oracle_atoms = o.upper_covers(bottom)
    lat_atoms = list(lat.atoms)
    lat_atom_pos = [pos.get(id(a)) for a in lat_atoms]
    for k, c in enumerate(cs):
        exp_set = {a for a in oracle_atoms if a <= ext[k]}
        got = list(c.atoms)
        gk = [pos.get(id(a)) for a in got]
        if not isinstance(c.atoms, tuple) or None in gk:
            if add('atoms.member', C_ATOMS, 'tuple of concept objects of this lattice', repr(c.atoms), concept=show(k)):
                return out
            continue
        if {ext[j] for j in gk} != exp_set or len(set(gk)) != len(gk):
            if add('atoms.set', C_ATOMS, sorted(map(sorted, exp_set)), [show(j) for j in gk], concept=show(k)):
                return out
            continue
        # as member objects in lattice.atoms order
        exp_seq = [j for j in lat_atom_pos if j in set(gk)]
        if gk != exp_seq:
            if add('atoms.order', C_ATOMS + ' (in lattice.atoms order)', [show(j) for j in exp_seq],
                   [show(j) for j in gk], concept=show(k)):
                return out
    return out[:MAX_FAIL]
