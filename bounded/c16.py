"""C16 bounded stand-in: relations() classifies each pair of contingent properties once and correctly.

Run-time contract on the real Context.relations(include_unary) and on str()/tostring() of the result,
against the classification table of the property statement (DESIGN '### C16'): which of the four
combinations (both / only left / only right / neither) occur among the objects determines the kind.
"""
import itertools

from . import common
from .common import fail

RULE = ('cases = boolean tables (K scopes of DESIGN 3.4: they contain tables with 0 or 1 contingent property, only '
        'orthogonal pairs, equal and complementary columns); per table relations() with and without include_unary and '
        'both printers; non-trivial = table with >= 2 concepts, distinct up to row/column permutation')
SCOPE = {'quick': 'all tables <= 3x3 and all 4x2 and 4x3 tables, structured families <= 4, 40 random <= 6x6, 3 wide tables (> 64 bit)',
         'thorough': 'all tables with n*m <= 12 (dims <= 8), structured families <= 6, 400 random <= 7x7, 6 wide tables'}

T, F = True, False

# occurring (left, right) combinations -> (class name, kind, rank, swapped)
BINARY = {
    frozenset({(T, T), (F, F)}): ('Equivalent', 'equivalent', 1, False),
    frozenset({(T, F), (F, T)}): ('Complement', 'complement', 2, False),
    frozenset({(T, F), (F, T), (F, F)}): ('Incompatible', 'incompatible', 3, False),
    frozenset({(T, T), (F, T), (F, F)}): ('Implication', 'implication', 4, False),   # left narrower
    frozenset({(T, T), (T, F), (F, F)}): ('Implication', 'implication', 4, True),    # right narrower: swapped
    frozenset({(T, T), (T, F), (F, T)}): ('Subcontrary', 'subcontrary', 6, False),
    frozenset({(T, T), (T, F), (F, T), (F, F)}): ('Orthogonal', 'orthogonal', 7, False),
}
UNARY = {
    frozenset({T, F}): ('Contingency', 'contingency', 0),
    frozenset({F}): ('Contradiction', 'contradiction', -2),
    frozenset({T}): ('Tautology', 'tautology', -1),
}


def gen_cases(tier, rng):
    yield from common.standard_cases(tier, rng)
    if tier == 'quick':     # 4 objects are needed for an orthogonal pair: every pattern of two columns occurs in 4x2
        for rows in common.all_tables(4, 2):
            yield common.case_of_table(rows)
        for rows in common.all_tables(4, 3):
            yield common.case_of_table(rows)


def oracle(case, include_unary):
    """Expected entries [class, kind, left, right, rank] in the documented order."""
    props, rows = case['properties'], case['rows']
    cols = [[bool(r[j]) for r in rows] for j in range(len(props))]
    unary = []
    for j, p in enumerate(props):
        cls, kind, rank = UNARY[frozenset(cols[j])]
        unary.append([cls, kind, p, None, rank])
    contingent = [j for j in range(len(props)) if frozenset(cols[j]) == {T, F}]
    binary = []
    for a, b in itertools.combinations(contingent, 2):        # pairs in property order
        cls, kind, rank, swapped = BINARY[frozenset(zip(cols[a], cols[b]))]
        left, right = (props[b], props[a]) if swapped else (props[a], props[b])
        binary.append([cls, kind, left, right, rank])
    entries = (unary if include_unary else []) + binary
    return sorted(entries, key=lambda e: e[4]), [props[j] for j in contingent]     # sorted() is stable


def observed_entries(rel):
    out = []
    for r in rel:
        binary = bool(getattr(r, 'binary', None))
        out.append([type(r).__name__, r.kind, r.left, r.right if binary else None, r.order])
    return out


def lines_of(entries):
    return [[e[2], e[1]] + ([e[3]] if e[3] is not None else []) for e in entries]


def check_case(case):
    out = []
    ctx = common.context_of_case(case)
    for unary in (False, True):
        tag = 'with-unary' if unary else 'binary'
        exp, contingent = oracle(case, unary)
        rel = ctx.relations(include_unary=unary) if unary else ctx.relations()
        got = observed_entries(rel)
        gb = [g for g in got if g[3] is not None]
        eb = [e for e in exp if e[3] is not None]
        # one entry per unordered pair of contingent properties
        pairs = sorted(tuple(sorted((g[2], g[3]))) for g in gb)
        exp_pairs = sorted(tuple(sorted(p)) for p in itertools.combinations(contingent, 2))
        if pairs != exp_pairs:
            out.append(fail('%s.pairs' % tag, 'relations() contains one entry for each unordered pair of properties that '
                            'are neither universal nor empty', exp_pairs, pairs, include_unary=unary))
        else:
            kind_of = {frozenset((e[2], e[3])): e for e in eb}
            for g in gb:
                e = kind_of[frozenset((g[2], g[3]))]
                if g[:2] != e[:2]:
                    out.append(fail('%s.kind' % tag, 'its kind is the unique one determined by which of the four '
                                    'combinations (both / only left / only right / neither) occur among the objects',
                                    e, g, include_unary=unary))
                    break
                if g[2:4] != e[2:4]:
                    out.append(fail('%s.orientation' % tag, 'implication is always oriented from the narrower to the wider '
                                    'property; other kinds keep the property order', e, g, include_unary=unary))
                    break
                if g[4] != e[4]:
                    out.append(fail('%s.rank' % tag, 'the documented kind rank', e, g, include_unary=unary))
                    break
        if unary:
            gu = [g for g in got if g[3] is None]
            eu = [e for e in exp if e[3] is None]
            if sorted(g[:3] for g in gu) != sorted(e[:3] for e in eu):
                out.append(fail('unary.kind', 'with include_unary each property additionally gets exactly one of tautology, '
                                'contradiction, contingency', eu, gu))
            elif got[:len(gu)] != gu:
                out.append(fail('unary.first', 'entries are sorted by the documented kind rank (unary ranks are below the '
                                'binary ones)', [e[:3] for e in exp], [g[:3] for g in got]))
        elif len(gb) != len(got):
            out.append(fail('binary.only', 'without include_unary only pairs are listed', eb, got))
        if got != exp and not out:
            out.append(fail('%s.order' % tag, 'entries are sorted by the documented kind rank (stable in property order)',
                            exp, got, include_unary=unary))
        # printing is defined for every context
        try:
            s, ts = str(rel), rel.tostring()
        except Exception as e:
            out.append(fail('%s.print.defined' % tag, 'printing the result is defined for every context, including when '
                            'there is nothing to list', 'a string', '%s: %s' % (type(e).__name__, e),
                            entries=got, include_unary=unary))
            continue
        if not isinstance(s, str) or not isinstance(ts, str):
            out.append(fail('%s.print.defined' % tag, 'printing the result is a string', 'str', [repr(s), repr(ts)]))
            continue
        if got == exp:
            want = lines_of([e for e in exp if e[1] != 'orthogonal'])
            have = [ln.split() for ln in s.split('\n')] if s else []
            if have != want:
                out.append(fail('%s.print.str' % tag, 'str() lists exactly the non-orthogonal entries, one per line, in order',
                                want, have, text=s, include_unary=unary))
            want = lines_of(exp)
            have = [ln.split() for ln in ts.split('\n')] if ts else []
            if have != want:
                out.append(fail('%s.print.tostring' % tag, 'tostring() lists every entry, one per line, in order',
                                want, have, text=ts, include_unary=unary))
        # a later call on the same context is again the full classification, whatever the caller did to the earlier result
        try:
            rel.reverse()
            del rel[:1]
        except Exception:
            pass
        rel2 = ctx.relations(include_unary=unary) if unary else ctx.relations()
        got2 = observed_entries(rel2)
        if got2 != got and got == exp:
            out.append(fail('%s.repeatable' % tag, 'relations() on the same context again contains one entry for each pair '
                            '(after the caller edited the earlier result in place)', exp, got2, include_unary=unary))
    return out[:10]
