#!/opt/veriftools/pyvenv/bin/python
"""Systematic first-order mutation score of the deductive side (measurement only: no contract, no engine code is touched).

  ./tools_mutation_score.py run [--cap 12] [--seed 1] [--jobs 16]     generate, classify (resumable), write the reports
  ./tools_mutation_score.py list [--cap 12]                           print the selected mutants only
  ./tools_mutation_score.py report                                    rewrite seeded/MUTATION_SCORE.md from the JSON
  ./tools_mutation_score.py note ID TEXT                              attach a hand-written finding to one mutant (kept in the JSON)
  ./tools_mutation_score.py notes FILE.json                           the same for a file {id: text}
  ./tools_mutation_score.py cleanup                                   remove the scratch worktrees /tmp/ms_wt_*

Mutants are generated with the stdlib `ast` from the files under /repo/concepts as they are on disk (never written to): for
every function that is under contract (the (relpath, qualname) pairs of the registered proof units, `ABS:` paths excluded) the
exact source span of one node is replaced, the rest of the file stays byte-identical.  Each selected mutant is classified:

 (a) stillborn               the module does not import any more
 (b) killed-by-tests         the library's own test suite (pytest -x, in a scratch git worktree of /repo) fails
 (c) behaviour-changed / no-observed-difference
                             the bounded oracles of every property that lists a unit of the mutated function
                             (`bounded.run P --tier quick --seed 1`, VERIF_REPO=<scratch worktree>) fail / do not fail
 (d) caught-by-proof / not-caught-by-proof
                             the proof units of the mutated function, run on the mutated text via extract.OVERRIDES, lose an
                             obligation (undischarged, generation error, a ledger obligation class that is not generated) or not
"""
import argparse
import ast
import collections
import difflib
import hashlib
import json
import os
import queue
import random
import re
import shutil
import subprocess
import sys
import threading
import time
from concurrent.futures import ThreadPoolExecutor, as_completed

VERIF = os.path.dirname(os.path.abspath(__file__))
REPO = '/repo'
VENV_PY = '/venv/bin/python'
VT_PY = sys.executable          # the interpreter of the deductive side (python3-vt: z3, cvc5), also used for the proof workers
OUT_JSON = os.path.join(VERIF, 'seeded', 'MUTATION_SCORE.json')
OUT_MD = os.path.join(VERIF, 'seeded', 'MUTATION_SCORE.md')
WT = '/tmp/ms_wt_%d'
SCRATCH = '/tmp/ms_scratch_run'
Z3_MS, CVC5_S = '6000', '6'
T_IMPORT, T_TESTS, T_BOUNDED, T_PROOF = 60, 240, 420, 1200
MEM_LIMIT = str(4 * 1024 ** 3)

# ------------------------------------------------------------------------------------------------ generation (stdlib ast only)

ROR = {ast.Lt: ['<=', '>'], ast.LtE: ['<', '>='], ast.Gt: ['>=', '<'], ast.GtE: ['>', '<='], ast.Eq: ['!='], ast.NotEq: ['=='],
       ast.In: ['not in'], ast.NotIn: ['in'], ast.Is: ['is not'], ast.IsNot: ['is']}
ROR_TOKEN = {ast.Lt: rb'<(?![=<])', ast.LtE: rb'<=', ast.Gt: rb'>(?![=>])', ast.GtE: rb'>=', ast.Eq: rb'==', ast.NotEq: rb'!=',
             ast.In: rb'\bin\b', ast.NotIn: rb'\bnot\s+in\b', ast.Is: rb'\bis\b(?!\s+not\b)', ast.IsNot: rb'\bis\s+not\b'}
AOR = {ast.Add: (rb'\+', '-'), ast.Sub: (rb'-', '+'), ast.BitAnd: (rb'&', '|'), ast.BitOr: (rb'\|', '&'),
       ast.LShift: (rb'<<', '>>'), ast.RShift: (rb'>>', '<<')}
SMALL = 8


def registered_functions():
    """{(relpath, qualname): [unit ids]} of the registered proof units that are about a function of /repo."""
    sys.path.insert(0, VERIF)
    from contracts import registry
    units = registry.load_all()
    fn = collections.OrderedDict()
    for uid in sorted(units):
        u = units[uid]
        if u.relpath and not u.relpath.startswith('ABS:'):
            fn.setdefault((u.relpath, u.qualname), []).append(uid)
    return fn


def unit_properties():
    from checks.props import PROPS
    u2p = collections.defaultdict(set)
    for pid, spec in PROPS.items():
        if spec.get('bounded'):
            for u in spec.get('units', []):
                u2p[u].add(pid)
    return u2p


def _children(node):
    """Same lookup rule as pyvc.extract: direct statement children, looking through if/try/with/for/while blocks."""
    for child in getattr(node, 'body', []):
        yield child
        if isinstance(child, (ast.If, ast.Try, ast.With, ast.For, ast.While)):
            yield from _children(child)
            for h in getattr(child, 'handlers', []):
                yield from _children(h)
            for c in getattr(child, 'orelse', []):
                yield c
            for c in getattr(child, 'finalbody', []):
                yield c


def find_function(tree, qualname):
    node = tree
    for p in [p for p in qualname.split('.') if p != '<locals>']:
        found = None
        for child in _children(node):
            if isinstance(child, (ast.FunctionDef, ast.ClassDef)) and child.name == p:
                found = child
        if found is None:
            return None
        node = found
    return node if isinstance(node, ast.FunctionDef) else None


class Source:
    def __init__(self, relpath):
        self.relpath = relpath
        with open(os.path.join(REPO, relpath), 'rb') as f:
            self.raw = f.read()
        self.text = self.raw.decode('utf-8')
        self.tree = ast.parse(self.text)
        self.dump = ast.dump(self.tree)
        self.starts = [0]
        for line in self.raw.splitlines(keepends=True):
            self.starts.append(self.starts[-1] + len(line))

    def off(self, lineno, col):
        return self.starts[lineno - 1] + col

    def span(self, node):
        return self.off(node.lineno, node.col_offset), self.off(node.end_lineno, node.end_col_offset)

    def seg(self, node):
        a, b = self.span(node)
        return self.raw[a:b]

    def apply(self, edits):
        out = self.raw
        for a, b, new in sorted(edits, reverse=True):
            out = out[:a] + new + out[b:]
        return out.decode('utf-8')


def _is_docstring(node):
    return isinstance(node, ast.Expr) and isinstance(node.value, ast.Constant) and isinstance(node.value.value, str)


def _walk(node, skip_ids):
    """Nodes of a function body that may be mutated: no docstrings / bare strings, no annotations, no decorators, nothing inside
    an f-string (column offsets there depend on the interpreter version), no nested function that is under contract itself."""
    yield node
    for field, value in ast.iter_fields(node):
        if field in ('annotation', 'returns', 'decorator_list', 'type_comment'):
            continue
        for child in (value if isinstance(value, list) else [value]):
            if not isinstance(child, ast.AST) or isinstance(child, ast.JoinedStr) or _is_docstring(child) or id(child) in skip_ids:
                continue
            yield from _walk(child, skip_ids)


def _between(src, left, right, pattern, new):
    """Edit replacing the operator token that stands between two sibling nodes."""
    a = src.span(left)[1]
    b = src.span(right)[0]
    m = re.search(pattern, src.raw[a:b])
    if not m:
        return None
    return (a + m.start(), a + m.end(), new.encode())


def mutation_points(src, fnode, skip_ids):
    """-> list of (operator, lineno, col, variant, edits)"""
    out = []
    in_signature = {id(n) for n in ast.walk(fnode.args)}       # default values of parameters

    def add(op, node, variant, edits):
        if edits and all(e is not None for e in edits):
            out.append((op, node.lineno, node.col_offset, variant, list(edits), id(node) in in_signature))

    for node in _walk(fnode, skip_ids):
        if node is fnode:
            continue
        if isinstance(node, ast.Compare):
            operands = [node.left] + node.comparators
            for i, op in enumerate(node.ops):
                for new in ROR.get(type(op), []):
                    add('ROR', node, '%d:%s' % (i, new), [_between(src, operands[i], operands[i + 1], ROR_TOKEN[type(op)], new)])
        elif isinstance(node, ast.BinOp) and type(node.op) in AOR:
            pat, new = AOR[type(node.op)]
            add('AOR', node, new, [_between(src, node.left, node.right, pat, new)])
        elif isinstance(node, ast.AugAssign) and type(node.op) in AOR:
            pat, new = AOR[type(node.op)]
            add('AOR', node, new + '=', [_between(src, node.target, node.value, pat + rb'=', new + '=')])
        elif isinstance(node, ast.BoolOp):
            new = 'or' if isinstance(node.op, ast.And) else 'and'
            pat = rb'\band\b' if isinstance(node.op, ast.And) else rb'\bor\b'
            add('LOGIC', node, new, [_between(src, x, y, pat, new) for x, y in zip(node.values, node.values[1:])])
        elif isinstance(node, ast.UnaryOp) and isinstance(node.op, ast.Not):
            a, b = src.span(node)
            add('NOTDEL', node, '', [(a, b, b'(' + src.seg(node.operand) + b')')])
        elif isinstance(node, ast.Constant) and isinstance(node.value, bool):
            a, b = src.span(node)
            add('BOOLCONST', node, '', [(a, b, b'False' if node.value else b'True')])
        elif isinstance(node, ast.Constant) and isinstance(node.value, int) and abs(node.value) <= SMALL:
            a, b = src.span(node)
            if src.raw[a:b] == str(node.value).encode():
                for k in (node.value + 1, node.value - 1):
                    add('CONST', node, str(k), [(a, b, (str(k) if k >= 0 else '(%d)' % k).encode())])
        elif isinstance(node, ast.Call) and len(node.args) == 2 and not node.keywords \
                and not any(isinstance(x, ast.Starred) for x in node.args):
            x, y = node.args
            if src.seg(x) != src.seg(y):
                add('ARGSWAP', node, '', [src.span(x) + (src.seg(y),), src.span(y) + (src.seg(x),)])
        if isinstance(node, (ast.If, ast.While, ast.IfExp)) and not (isinstance(node.test, ast.UnaryOp) and isinstance(node.test.op, ast.Not)):
            a, b = src.span(node.test)
            add('NEGCOND', node.test, '', [(a, b, b'not (' + src.raw[a:b] + b')')])
        if isinstance(node, ast.comprehension):
            for t in node.ifs:
                if not (isinstance(t, ast.UnaryOp) and isinstance(t.op, ast.Not)):
                    a, b = src.span(t)
                    add('NEGCOND', t, '', [(a, b, b'not (' + src.raw[a:b] + b')')])
        if isinstance(node, (ast.Assign, ast.AugAssign, ast.Continue, ast.Break)) or (isinstance(node, ast.AnnAssign) and node.value) \
                or (isinstance(node, ast.Expr) and not _is_docstring(node)):
            a, b = src.span(node)
            add('SDEL', node, '', [(a, b, b'pass')])
    return out


def one_line_diff(old, new):
    o, n = old.splitlines(), new.splitlines()
    minus, plus, first = [], [], None
    for tag, i1, i2, j1, j2 in difflib.SequenceMatcher(None, o, n, autojunk=False).get_opcodes():
        if tag != 'equal':
            first = first or i1 + 1
            minus += [x.strip() for x in o[i1:i2]]
            plus += [x.strip() for x in n[j1:j2]]
    return first, '%s  ==>  %s' % (' \\n '.join(minus), ' \\n '.join(plus))


def generate(cap, seed, verbose=True):
    fns = registered_functions()
    u2p = unit_properties()
    sources = {}
    selected, total, per_op_total = [], 0, collections.Counter()
    problems = []
    by_file = collections.defaultdict(list)
    for (relpath, qualname) in fns:
        by_file[relpath].append(qualname)
    for relpath, quals in by_file.items():
        src = sources[relpath] = Source(relpath)
        nodes = {q: find_function(src.tree, q) for q in quals}
        for q, n in nodes.items():
            if n is None:
                problems.append('%s: %s not found' % (relpath, q))
        ids = {id(n): q for q, n in nodes.items() if n is not None}
        seen = set()
        for q in quals:
            fnode = nodes[q]
            if fnode is None:
                continue
            cands = []
            for op, line, col, variant, edits, in_sig in mutation_points(src, fnode, set(ids) - {id(fnode)}):
                try:
                    text = src.apply(edits)
                    tree = ast.parse(text)
                except (SyntaxError, UnicodeDecodeError, ValueError):
                    continue
                if text in seen or ast.dump(tree) == src.dump:
                    continue
                seen.add(text)
                first, diff = one_line_diff(src.text, text)
                cands.append({'id': hashlib.sha1((relpath + '\0' + text).encode()).hexdigest()[:12], 'file': relpath, 'function': q,
                              'operator': op, 'line': first or line, 'col': col, 'variant': variant, 'diff': diff, 'default_value': in_sig, '_text': text})
            total += len(cands)
            for c in cands:
                per_op_total[c['operator']] += 1
            # deterministic choice: shuffle inside each operator class, then take round-robin over the classes
            rng = random.Random('%s|%s|%s' % (seed, relpath, q))
            groups = collections.OrderedDict()
            for c in sorted(cands, key=lambda c: (c['operator'], c['line'], c['col'], c['variant'])):
                groups.setdefault(c['operator'], []).append(c)
            for g in groups.values():
                rng.shuffle(g)
            chosen = []
            while len(chosen) < cap and any(groups.values()):
                for g in groups.values():
                    if g and len(chosen) < cap:
                        chosen.append(g.pop())
            units = fns[(relpath, q)]
            props = sorted(set().union(*[u2p.get(u, set()) for u in units]))
            for c in sorted(chosen, key=lambda c: (c['line'], c['col'], c['operator'], c['variant'])):
                c['units'], c['props'] = units, props
                selected.append(c)
    if verbose:
        print('functions under contract: %d in %d files; first-order mutants generated: %d; selected (cap %d per function, seed %s): %d'
              % (len(fns), len(by_file), total, cap, seed, len(selected)))
        print('generated per operator:', dict(sorted(per_op_total.items())))
        print('selected  per operator:', dict(sorted(collections.Counter(c['operator'] for c in selected).items())))
        for p in problems:
            print('PROBLEM', p)
    meta = {'functions': len(fns), 'files': len(by_file), 'generated': total, 'generated_per_operator': dict(per_op_total), 'cap': cap, 'seed': seed,
            'selected': len(selected), 'functions_without_mutant': sorted('%s:%s' % k for k in fns if not any(c['file'] == k[0] and c['function'] == k[1] for c in selected)),
            'problems': problems}
    return selected, meta, sources


# ------------------------------------------------------------------------------------------------ proof step (subprocess, python3-vt)

def proof_worker():
    """stdin: {'relpath', 'source' (None = the tree as it is), 'units'} -> stdout: one JSON line per run."""
    job = json.load(sys.stdin)
    sys.path.insert(0, VERIF)
    from contracts import registry
    from pyvc import run as pyrun, extract
    registry.load_all()
    with open(os.path.join(VERIF, 'ledger.json')) as f:
        ledger = json.load(f)
    res = {}
    for uid in job['units']:
        extract.OVERRIDES.clear()
        ov = {job['relpath']: job['source']} if job.get('source') is not None else None
        r = pyrun.run_units([uid], overrides=ov, procs=1)[0]
        classes = {v['name'] for v in r['vcs']}
        res[uid] = {
            'lost': sorted({'%s%s [%s]' % (v['name'], v['path'], v['status']) for v in r['vcs'] if v['status'] != 'discharged'}),
            'errors': [e[:600] if not e.startswith(('engine crash', 'worker crash')) else e[-900:] for e in r['errors']],
            'crash': bool(r.get('crash')),
            'missing_classes': sorted(c for c in ledger.get(uid, []) if c not in classes) if not r.get('crash') else [],
            'probes_failed': [p['probe'] for p in r['probes'] if not p['ok']],
            'vcs': len(r['vcs']), 'wall_s': r.get('wall_s'),
        }
    extract.OVERRIDES.clear()
    sys.stdout.write('\n@@RESULT@@' + json.dumps(res) + '\n')


def run_proof(relpath, source, units):
    env = dict(os.environ, PYVC_Z3_TIMEOUT_MS=Z3_MS, PYVC_CVC5_TIMEOUT_S=CVC5_S, VERIF_REPO=REPO, PYTHONDONTWRITEBYTECODE='1')
    env.pop('PYTHONHASHSEED', None)
    try:
        pr = subprocess.run([VT_PY, os.path.abspath(__file__), '--proof-worker'], input=json.dumps({'relpath': relpath, 'source': source, 'units': units}),
                            cwd=VERIF, env=env, capture_output=True, text=True, timeout=T_PROOF)
    except subprocess.TimeoutExpired:
        return None, 'proof step timed out after %d s' % T_PROOF
    if '@@RESULT@@' not in pr.stdout:
        return None, 'proof worker died (exit %s): %s' % (pr.returncode, pr.stderr[-600:])
    return json.loads(pr.stdout.rsplit('@@RESULT@@', 1)[1]), None


def proof_verdict(res, problem, baseline):
    """-> (verdict, detail).  An obligation is lost when it is undischarged / a generation error / a missing ledger class that the
    clean tree (same solver budgets) does not show."""
    if res is None:
        return 'caught-by-proof', {'tool_problem': problem, 'reasons': ['tool-problem']}
    reasons, detail = set(), {}
    for uid, r in res.items():
        b = (baseline or {}).get(uid, {})
        lost = [x for x in r['lost'] if x not in b.get('lost', [])]
        errors = [x for x in r['errors'] if x not in b.get('errors', [])]
        missing = [x for x in r['missing_classes'] if x not in b.get('missing_classes', [])]
        probes = [x for x in r['probes_failed'] if x not in b.get('probes_failed', [])]
        d = {}
        if lost:
            reasons.add('undischarged')
            d['lost'] = lost[:6]
            d['n_lost'] = len(lost)
        if errors:
            for e in errors:
                reasons.add('engine-crash' if e.startswith(('engine crash', 'worker crash')) else e.split(':', 1)[0].split(' (')[0].strip())
            d['errors'] = errors[:3]
        if missing:
            reasons.add('ledger-class-not-generated')
            d['missing_classes'] = missing[:6]
        if probes:
            d['probes_failed'] = probes
        if d:
            detail[uid] = d
    only_probe = not reasons and any('probes_failed' in d for d in detail.values())
    out = {'reasons': sorted(reasons), 'units': detail}
    if only_probe:
        out['vacuity_probe_only'] = True
    return ('caught-by-proof' if reasons else 'not-caught-by-proof'), out


# ------------------------------------------------------------------------------------------------ scratch worktrees, tests, bounded

def sh(cmd, **kw):
    return subprocess.run(cmd, capture_output=True, text=True, **kw)


def make_worktree(k):
    path = WT % k
    if os.path.isdir(path):
        sh(['git', '-C', REPO, 'worktree', 'remove', '--force', path])
        shutil.rmtree(path, ignore_errors=True)
    sh(['git', '-C', REPO, 'worktree', 'prune'])
    r = sh(['git', '-C', REPO, 'worktree', 'add', '--detach', path, 'HEAD'])
    if r.returncode != 0:
        raise SystemExit('cannot create %s: %s' % (path, r.stderr))
    for root, dirs, _ in os.walk(path):
        for d in list(dirs):
            if d == '__pycache__':
                shutil.rmtree(os.path.join(root, d), ignore_errors=True)
    return path


def remove_worktrees():
    out = sh(['git', '-C', REPO, 'worktree', 'list', '--porcelain']).stdout
    for line in out.splitlines():
        if line.startswith('worktree /tmp/ms_wt'):
            p = line.split(' ', 1)[1]
            sh(['git', '-C', REPO, 'worktree', 'remove', '--force', p])
            shutil.rmtree(p, ignore_errors=True)
    sh(['git', '-C', REPO, 'worktree', 'prune'])
    shutil.rmtree(SCRATCH, ignore_errors=True)


def wt_env(wt):
    env = dict(os.environ, PYTHONPATH=wt, PYTHONDONTWRITEBYTECODE='1')
    env.pop('PYTHONHASHSEED', None)
    return env


def limited(cmd):
    return ['prlimit', '--as=' + MEM_LIMIT] + cmd if shutil.which('prlimit') else cmd


def check_import(wt, relpath):
    mod = relpath[:-3].replace('/', '.')
    if mod.endswith('.__init__'):
        mod = mod[:-9]
    try:
        pr = sh(limited([VENV_PY, '-c', 'import importlib, concepts; importlib.import_module(%r)' % mod]), cwd=wt, env=wt_env(wt), timeout=T_IMPORT)
    except subprocess.TimeoutExpired:
        return 'import timed out'
    return None if pr.returncode == 0 else (pr.stderr.strip().splitlines() or ['exit %d' % pr.returncode])[-1][:300]


def run_tests(wt):
    try:
        pr = sh(limited([VENV_PY, '-m', 'pytest', '-q', '-p', 'no:cacheprovider', '-x', '--no-cov']), cwd=wt, env=wt_env(wt), timeout=T_TESTS)
    except subprocess.TimeoutExpired:
        return 'timeout', 'pytest did not finish within %d s' % T_TESTS
    lines = [x for x in pr.stdout.strip().splitlines() if x.strip()]
    summary = lines[-1][:200] if lines else ''
    if pr.returncode == 0:
        return 'passed', summary
    failed = [x for x in lines if x.startswith(('FAILED', 'ERROR'))]
    return 'failed', ('%s | %s' % (failed[0][:200], summary)) if failed else 'exit %d | %s' % (pr.returncode, summary or pr.stderr[-200:])


def run_bounded(wt, prop, tag):
    out = os.path.join(SCRATCH, 'b_%s_%s.json' % (tag, prop))
    rep = os.path.join(SCRATCH, 'rep_%s' % tag)
    env = dict(os.environ, VERIF_REPO=wt, PYTHONPATH=VERIF, PYTHONDONTWRITEBYTECODE='1')
    env.pop('PYTHONHASHSEED', None)
    t0 = time.time()
    try:
        cwd = os.path.join(SCRATCH, 'cwd_%s' % tag)       # a mutant may write files into the current directory (e.g. a flipped render default)
        os.makedirs(cwd, exist_ok=True)
        pr = sh(limited([VENV_PY, '-m', 'bounded.run', prop, '--tier', 'quick', '--seed', '1', '--out', out, '--replay-dir', rep]),
                cwd=cwd, env=env, timeout=T_BOUNDED)
    except subprocess.TimeoutExpired:
        return {'status': 'timeout', 'wall_s': T_BOUNDED}
    res = {'status': 'ok', 'exit': pr.returncode, 'wall_s': round(time.time() - t0, 1)}
    doc = None
    if pr.returncode in (0, 1) and os.path.exists(out) and os.path.getsize(out):
        with open(out) as f:
            doc = json.load(f)
    if os.path.exists(out):
        os.unlink(out)
    shutil.rmtree(rep, ignore_errors=True)
    if doc is None:
        res['status'] = 'raised'
        res['detail'] = (pr.stderr.strip().splitlines() or ['exit %d' % pr.returncode])[-1][:300]
        return res
    res['evaluations'] = doc['evaluations']
    res['known'] = sorted(k['what'][:80] for k in doc['known_findings'])
    if doc['violations']:
        res['status'] = 'violations'
        res['violations'] = len(doc['violations'])
        v = doc['violations'][0]
        res['first'] = ('%s: %s' % (v['obligation'], v['clause']))[:300]
    return res


# ------------------------------------------------------------------------------------------------ driver

class Ctx:
    pass


def classify(m, text, clean_text, ctx):
    t0 = time.time()
    k = ctx.free.get()
    wt = WT % k
    path = os.path.join(wt, m['file'])
    rec = {x: m[x] for x in ('id', 'file', 'function', 'operator', 'line', 'diff', 'default_value', 'units', 'props')}
    try:
        with open(path, 'w', encoding='utf-8', newline='') as f:
            f.write(text)
        err = check_import(wt, m['file'])
        if err:
            rec.update(stillborn=True, import_error=err, tests=None, bounded=None, proof=None, classification='stillborn')
            return rec
        rec['stillborn'] = False
        rec['tests'], rec['tests_detail'] = run_tests(wt)
        if rec['tests'] == 'passed':
            changed, per = False, {}
            for p in m['props']:
                b = run_bounded(wt, p, 'w%d' % k)
                per[p] = b
                base = ctx.bounded_base.get(p, {})
                if b['status'] != 'ok' or b.get('known') != base.get('known'):
                    changed = True
                    break       # one failing oracle is enough; the remaining properties are not run
            rec['bounded'] = 'behaviour-changed' if changed else 'no-observed-difference'
            rec['bounded_detail'] = per
        else:
            rec['bounded'] = None
    finally:
        with open(path, 'w', encoding='utf-8', newline='') as f:
            f.write(clean_text)
        ctx.free.put(k)
    res, problem = run_proof(m['file'], text, m['units'])
    rec['proof'], rec['proof_detail'] = proof_verdict(res, problem, ctx.proof_base.get((m['file'], m['function'])))
    if rec['tests'] != 'passed':
        rec['classification'] = 'killed-by-tests'
    elif rec['bounded'] == 'behaviour-changed':
        rec['classification'] = 'detected-by-both' if rec['proof'] == 'caught-by-proof' else 'SURVIVOR'
    else:
        rec['classification'] = 'SILENT' if rec['proof'] == 'caught-by-proof' else 'no-difference-anywhere'
    rec['seconds'] = round(time.time() - t0, 1)
    return rec


def load_json():
    if os.path.exists(OUT_JSON):
        with open(OUT_JSON) as f:
            return json.load(f)
    return {'meta': {}, 'mutants': []}


def save_json(doc):
    os.makedirs(os.path.dirname(OUT_JSON), exist_ok=True)
    doc['mutants'].sort(key=lambda r: (r['file'], r['line'], r['id']))
    tmp = OUT_JSON + '.tmp'
    with open(tmp, 'w') as f:
        json.dump(doc, f, indent=1, sort_keys=True)
    os.replace(tmp, OUT_JSON)


def cmd_run(a):
    selected, meta, sources = generate(a.cap, a.seed)
    if a.limit:
        selected = selected[::max(1, len(selected) // a.limit)][:a.limit]
    doc = load_json()
    if doc['meta'].get('cap') not in (None, a.cap) or doc['meta'].get('seed') not in (None, a.seed):
        print('existing JSON was produced with another cap/seed; entries that are not selected now are dropped')
    want = {m['id'] for m in selected}
    doc['mutants'] = [r for r in doc['mutants'] if r['id'] in want]
    done = {r['id'] for r in doc['mutants']}
    todo = [m for m in selected if m['id'] not in done]
    print('already classified: %d; to do: %d' % (len(done), len(todo)))
    doc['meta'].update(meta)
    doc['meta'].update({'z3_timeout_ms': int(Z3_MS), 'cvc5_timeout_s': int(CVC5_S), 'bounded': 'tier quick, seed 1', 'repo_head': sh(['git', '-C', REPO, 'rev-parse', 'HEAD']).stdout.strip(),
                        'tests_cmd': 'pytest -q -p no:cacheprovider -x --no-cov'})
    if not todo:
        save_json(doc)
        write_report(doc)
        return
    os.makedirs(SCRATCH, exist_ok=True)
    ctx = Ctx()
    ctx.free = queue.Queue()
    t0 = time.time()
    with ThreadPoolExecutor(a.jobs) as ex:
        list(ex.map(make_worktree, range(a.jobs)))
    for k in range(a.jobs):
        ctx.free.put(k)
    # baselines on the clean tree: the tests pass, the bounded oracles are silent, the proof units discharge everything
    st, detail = run_tests(WT % 0)
    print('clean tree, library tests: %s (%s)' % (st, detail))
    if st != 'passed':
        raise SystemExit('the clean tree does not pass its tests here')
    props = sorted({p for m in todo for p in m['props']})
    with ThreadPoolExecutor(a.jobs) as ex:
        ctx.bounded_base = dict(zip(props, ex.map(lambda pk: run_bounded(WT % (pk[0] % a.jobs), pk[1], 'base%d' % pk[0]), enumerate(props))))
    for p, b in ctx.bounded_base.items():
        if b['status'] != 'ok':
            raise SystemExit('bounded baseline of %s is not clean: %s' % (p, b))
    print('clean tree, bounded oracles: %d properties silent (%.0f s)' % (len(props), time.time() - t0))
    fkeys = sorted({(m['file'], m['function']) for m in todo})
    funits = {(m['file'], m['function']): m['units'] for m in todo}
    with ThreadPoolExecutor(a.jobs) as ex:
        base = list(ex.map(lambda fk: run_proof(fk[0], None, funits[fk]), fkeys))
    ctx.proof_base = {}
    unclean = []
    for fk, (res, problem) in zip(fkeys, base):
        if res is None:
            raise SystemExit('proof baseline of %s failed: %s' % (fk, problem))
        ctx.proof_base[fk] = res
        for uid, r in res.items():
            if r['lost'] or r['errors'] or r['missing_classes'] or r['probes_failed']:
                unclean.append('%s: %s' % (uid, json.dumps({k: r[k] for k in ('lost', 'errors', 'missing_classes', 'probes_failed') if r[k]})[:300]))
    doc['meta']['proof_baseline_not_clean'] = sorted(set(doc['meta'].get('proof_baseline_not_clean', [])) | set(unclean))
    print('clean tree, proof units of %d functions under the short solver budgets: %d units not clean (%.0f s)' % (len(fkeys), len(unclean), time.time() - t0))
    for u in unclean:
        print('   ', u)
    # the mutants
    lock = threading.Lock()
    n = 0
    last = time.time()
    with ThreadPoolExecutor(a.jobs) as ex:
        futs = {ex.submit(classify, m, m['_text'], sources[m['file']].text, ctx): m for m in todo}
        for fut in as_completed(futs):
            m = futs[fut]
            try:
                rec = fut.result()
            except Exception as e:       # a failure of this tool, not of the engine: leave the mutant for the next run
                print('TOOL ERROR on %s %s: %r' % (m['id'], m['diff'][:80], e))
                continue
            with lock:
                doc['mutants'].append(rec)
                n += 1
                if time.time() - last > 60 or n == len(todo):
                    save_json(doc)
                    last = time.time()
                    c = collections.Counter(r['classification'] for r in doc['mutants'])
                    print('[%5.0f s] %d/%d  %s' % (time.time() - t0, n, len(todo), dict(c)), flush=True)
    doc['meta']['wall_s'] = round(doc['meta'].get('wall_s', 0) + time.time() - t0)
    save_json(doc)
    write_report(doc)
    if not a.keep:
        remove_worktrees()


# ------------------------------------------------------------------------------------------------ report

def _row(cells):
    return '| ' + ' | '.join(str(c) for c in cells) + ' |'


def write_report(doc):
    ms, meta = doc['mutants'], doc['meta']
    if any('default_value' not in r for r in ms):        # records of an older run: recompute the flag from the generator
        flag = {m['id']: m['default_value'] for m in generate(10 ** 6, meta.get('seed', 1), verbose=False)[0]}
        for r in ms:
            r.setdefault('default_value', flag.get(r['id'], False))
        save_json(doc)
    C = collections.Counter(r['classification'] for r in ms)
    live = [r for r in ms if not r['stillborn']]
    killed = [r for r in live if r['tests'] != 'passed']
    passed = [r for r in live if r['tests'] == 'passed']
    caught = [r for r in live if r['proof'] == 'caught-by-proof']
    L = []
    w = L.append
    w('# Systematic mutation score of the deductive side')
    w('')
    w('Generated by `tools_mutation_score.py` (measurement only; no contract and no engine code was changed for it).  Library tree: `/repo` at `%s`.' % meta.get('repo_head', '?')[:12])
    w('')
    w('* Functions under contract (registered proof units about a function of `/repo/concepts`): **%d** in %d files.' % (meta['functions'], meta['files']))
    if meta['selected'] == meta['generated']:
        w('* First-order mutants generated (deduplicated, syntactically valid, AST differs): **%d**; ALL of them were run (the per-function cap, `--cap`, seeded RNG with round-robin over the operator classes, '
          'was not needed: the whole run takes about 20 minutes on 16 cores); classified: **%d**.' % (meta['generated'], len(ms)))
    else:
        w('* First-order mutants generated (deduplicated, syntactically valid, AST differs): **%d**; selected with a cap of %d per function (seeded RNG, seed %s, round-robin over the operator classes): **%d**; classified so far: **%d**.'
          % (meta['generated'], meta['cap'], meta['seed'], meta['selected'], len(ms)))
    w('* Functions for which no mutant exists (single `return <name/attribute/call>` bodies etc.): %d.' % len(meta.get('functions_without_mutant', [])))
    w('* Operators: ROR relational operator replaced, AOR `+`/`-` `&`/`|` `<<`/`>>` (also augmented), CONST small integer k -> k+1 / k-1, NEGCOND test of `if`/`while`/conditional expression/comprehension filter negated, '
      'LOGIC `and`<->`or`, SDEL simple statement -> `pass`, ARGSWAP the two arguments of a two-argument call swapped, BOOLCONST `True`<->`False`, NOTDEL `not` removed.  Docstrings, doctest text, annotations, decorators and the inside of f-strings are never edited.')
    w('* Budgets: proof side z3 %s ms + cvc5 %s s per obligation (the clean tree discharges every obligation of these units under the same budgets%s); bounded side `%s`; library tests `%s`.'
      % (meta.get('z3_timeout_ms'), meta.get('cvc5_timeout_s'), '' if not meta.get('proof_baseline_not_clean') else ', except: ' + '; '.join(meta['proof_baseline_not_clean']),
         meta.get('bounded'), meta.get('tests_cmd')))
    w('* "caught-by-proof" = with the mutated text in place of the file (in memory), some unit of the mutated function has an undischarged obligation, a generation error '
      '(`unsupported` / `ungenerated` / path explosion / engine crash) or does not generate an obligation class of the ledger -- exactly the conditions under which `./check` prints a VIOLATION for the deductive side.')
    w('* Wall time of the run(s): %s s.' % meta.get('wall_s', '?'))
    w('')
    w('## Totals')
    w('')
    w(_row(['class', 'mutants']))
    w(_row(['---', '---:']))
    w(_row(['selected and classified', len(ms)]))
    w(_row(['(a) stillborn (module does not import)', C['stillborn']]))
    w(_row(['(b) killed by the library\'s tests', len(killed)]))
    w(_row(['&nbsp;&nbsp;&nbsp;of these caught by a proof obligation', len([r for r in killed if r['proof'] == 'caught-by-proof'])]))
    w(_row(['&nbsp;&nbsp;&nbsp;of these NOT caught by a proof obligation', len([r for r in killed if r['proof'] != 'caught-by-proof'])]))
    w(_row(['pass the library\'s tests', len(passed)]))
    w(_row(['&nbsp;&nbsp;&nbsp;behaviour-changed (bounded) and caught-by-proof', C['detected-by-both']]))
    w(_row(['&nbsp;&nbsp;&nbsp;**SURVIVORS**: behaviour-changed (bounded), not-caught-by-proof', C['SURVIVOR']]))
    w(_row(['&nbsp;&nbsp;&nbsp;**SILENT**: no-observed-difference (bounded), caught-by-proof', C['SILENT']]))
    w(_row(['&nbsp;&nbsp;&nbsp;no-observed-difference and not-caught-by-proof (equivalent, or beyond both)', C['no-difference-anywhere']]))
    w('')
    if live:
        w('Mutation score of the proof side over all non-stillborn mutants: **%d / %d = %.1f %%**.  ' % (len(caught), len(live), 100.0 * len(caught) / len(live)))
        known_changed = [r for r in live if r['tests'] != 'passed' or r['bounded'] == 'behaviour-changed']
        kc = [r for r in known_changed if r['proof'] == 'caught-by-proof']
        w('Over the mutants whose behaviour is KNOWN to differ (tests fail or a bounded oracle fails): **%d / %d = %.1f %%**.  ' % (len(kc), len(known_changed), 100.0 * len(kc) / max(1, len(known_changed))))
        w('For comparison, the library\'s tests (100 %% statement coverage) kill %d / %d = %.1f %%.' % (len(killed), len(live), 100.0 * len(killed) / len(live)))
        w('')
    ops = sorted({r['operator'] for r in ms})
    w('### Per operator')
    w('')
    w(_row(['operator', 'classified', 'stillborn', 'killed by tests', 'caught by proof (of non-stillborn)', 'SURVIVOR', 'SILENT', 'no difference anywhere']))
    w(_row(['---'] + ['---:'] * 7))
    for op in ops:
        rs = [r for r in ms if r['operator'] == op]
        lv = [r for r in rs if not r['stillborn']]
        w(_row([op, len(rs), len(rs) - len(lv), len([r for r in lv if r['tests'] != 'passed']),
                '%d (%.0f %%)' % (len([r for r in lv if r['proof'] == 'caught-by-proof']), 100.0 * len([r for r in lv if r['proof'] == 'caught-by-proof']) / max(1, len(lv))),
                len([r for r in rs if r['classification'] == 'SURVIVOR']), len([r for r in rs if r['classification'] == 'SILENT']),
                len([r for r in rs if r['classification'] == 'no-difference-anywhere'])]))
    w('')
    dv = [r for r in live if r.get('default_value')]
    if dv:
        w('### Default values of parameters')
        w('')
        w('%d of the mutants edit the default value of a parameter in the signature (`flag: bool = False` -> `True`, `indent=0` -> `1`).  The proof side catches %d of them: a harness binds such a parameter to a '
          'fresh symbolic value (the function is proved for every argument), so the default itself is read by no obligation.  They account for %d of the %d SURVIVORS and for %d of the %d mutants that the tests kill but no obligation notices.'
          % (len(dv), len([r for r in dv if r['proof'] == 'caught-by-proof']),
             len([r for r in dv if r['classification'] == 'SURVIVOR']), C['SURVIVOR'],
             len([r for r in dv if r['tests'] != 'passed' and r['proof'] != 'caught-by-proof']), len([r for r in killed if r['proof'] != 'caught-by-proof'])))
        nd_ = [r for r in live if not r.get('default_value')]
        w('Without them the score of the proof side is %d / %d = %.1f %% (known-different: %d / %d).'
          % (len([r for r in nd_ if r['proof'] == 'caught-by-proof']), len(nd_), 100.0 * len([r for r in nd_ if r['proof'] == 'caught-by-proof']) / max(1, len(nd_)),
             len([r for r in nd_ if r['proof'] == 'caught-by-proof' and (r['tests'] != 'passed' or r['bounded'] == 'behaviour-changed')]),
             len([r for r in nd_ if r['tests'] != 'passed' or r['bounded'] == 'behaviour-changed'])))
        w('')
    w('### Reasons given by the proof side (a mutant may have several)')
    w('')
    rc = collections.Counter(x for r in caught for x in r['proof_detail'].get('reasons', []))
    for k, v in rc.most_common():
        w('* %s: %d' % (k, v))
    vp = [r for r in live if r['proof_detail'].get('vacuity_probe_only')]
    if vp:
        w('* (not counted as caught) only a vacuity probe failed: %d -- %s' % (len(vp), ', '.join(r['id'] for r in vp)))
    w('')

    def entry(r, extra=None):
        w('* `%s` **%s** `%s` L%d %s%s' % (r['id'], r['file'].replace('concepts/', ''), r['function'], r['line'], r['operator'], ' (default value)' if r.get('default_value') else ''))
        w('  - diff: `%s`' % r['diff'].replace('`', "'"))
        w('  - units: %s' % ', '.join('`%s`' % u for u in r['units']))
        if extra:
            for x in extra:
                w('  - ' + x)
        if r.get('note'):
            w('  - **examined:** ' + r['note'])

    def bsummary(r):
        out = []
        for p, b in (r.get('bounded_detail') or {}).items():
            if b['status'] == 'violations':
                out.append('%s: %s' % (p, b.get('first', '')[:160]))
            elif b['status'] != 'ok':
                out.append('%s: %s %s' % (p, b['status'], b.get('detail', '')[:160]))
        return '; '.join(out)

    def psummary(r):
        out = []
        for uid, d in r['proof_detail'].get('units', {}).items():
            bits = []
            if d.get('lost'):
                bits.append('%d undischarged, e.g. %s' % (d['n_lost'], d['lost'][0][:140]))
            if d.get('errors'):
                bits.append('error: ' + d['errors'][0].strip().splitlines()[-1][:200])
            if d.get('missing_classes'):
                bits.append('not generated: ' + d['missing_classes'][0][:120])
            if bits:
                out.append('%s: %s' % (uid, '; '.join(bits)))
        if r['proof_detail'].get('tool_problem'):
            out.append(r['proof_detail']['tool_problem'])
        return ' || '.join(out)[:700]

    surv = [r for r in ms if r['classification'] == 'SURVIVOR']
    w('## SURVIVORS (%d): pass the tests, a bounded oracle fails, no proof obligation is lost -- weaknesses of the contracts' % len(surv))
    w('')
    for r in surv:
        entry(r, ['bounded oracle: ' + bsummary(r).replace('`', "'")])
    if not surv:
        w('none')
    w('')
    sil = [r for r in ms if r['classification'] == 'SILENT']
    w('## SILENT (%d): pass the tests, no bounded oracle fails, a proof obligation is lost' % len(sil))
    w('')
    w('Either a false alarm of the proof side on an equivalent mutant, or a real change outside the scope of the bounded oracles.  The entries marked *examined* were looked at by hand / with a targeted '
      'differential script (the same probe on the clean scratch tree and on the mutated one).')
    ex = [r for r in sil if r.get('note')]
    if ex:
        real = len([r for r in ex if r['note'].startswith('REAL')])
        w('')
        w('Examined: %d of %d -- **%d real changes beyond the bounded scope, %d equivalent mutants** (false alarms in the sense that no caller can observe a difference in the results; in every such case the '
          'contract pins an implementation detail: a literal start value, the receiver of a symmetric call, a pre-sort order, a pruning call in a call-trace contract, or an idiom outside the supported subset).' % (len(ex), len(sil), real, len(ex) - real))
    w('')
    for r in sil:
        entry(r, ['proof side: ' + psummary(r).replace('`', "'")])
    if not sil:
        w('none')
    w('')
    kn = [r for r in killed if r['proof'] != 'caught-by-proof']
    w('## Killed by the tests but not caught by proof (%d) -- behaviour certainly differs; listed for completeness' % len(kn))
    w('')
    for r in kn:
        entry(r, ['tests: ' + (r.get('tests_detail') or '')[:200].replace('`', "'")])
    if not kn:
        w('none')
    w('')
    nd = [r for r in ms if r['classification'] == 'no-difference-anywhere']
    w('## No difference anywhere (%d): pass the tests, bounded oracles silent, no obligation lost (equivalent mutants, or beyond both sides)' % len(nd))
    w('')
    for r in nd:
        w('* `%s` %s `%s` L%d %s: `%s`%s' % (r['id'], r['file'].replace('concepts/', ''), r['function'], r['line'], r['operator'], r['diff'].replace('`', "'")[:200],
                                            ' -- **examined:** ' + r['note'] if r.get('note') else ''))
    if not nd:
        w('none')
    w('')
    crashes = [r for r in live if 'engine-crash' in r['proof_detail'].get('reasons', []) or r['proof_detail'].get('tool_problem')]
    w('## Engine crashes / tool problems on mutants (%d)' % len(crashes))
    w('')
    w('A Python exception of the engine other than the handled `unsupported` / `ungenerated` classes, a dead or timed-out proof worker.  They count as caught (the deductive side does not stay silent) but are defects of the machinery.')
    w('')
    for r in crashes:
        last = ''
        for uid, d in r['proof_detail'].get('units', {}).items():
            for e in d.get('errors', []):
                if e.startswith(('engine crash', 'worker crash')):
                    last = '%s: %s' % (uid, ' / '.join(x.strip() for x in e.strip().splitlines()[-3:])[:400])
        entry(r, [(last or r['proof_detail'].get('tool_problem', '')).replace('`', "'")])
    if not crashes:
        w('none')
    w('')
    with open(OUT_MD, 'w') as f:
        f.write('\n'.join(L))
    print('wrote', OUT_JSON, 'and', OUT_MD)


def main():
    if len(sys.argv) > 1 and sys.argv[1] == '--proof-worker':
        return proof_worker()
    ap = argparse.ArgumentParser()
    ap.add_argument('cmd', choices=['run', 'list', 'report', 'note', 'notes', 'cleanup'])
    ap.add_argument('rest', nargs='*')
    ap.add_argument('--cap', type=int, default=1000, help='mutants per function (all 1191 run in ~20 min on 16 cores, so no cap is needed)')
    ap.add_argument('--seed', type=int, default=1)
    ap.add_argument('--jobs', type=int, default=os.cpu_count() or 4)
    ap.add_argument('--limit', type=int, default=0, help='smoke test: only every n-th selected mutant, LIMIT in total')
    ap.add_argument('--keep', action='store_true', help='keep the scratch worktrees')
    a = ap.parse_args()
    if a.cmd == 'run':
        cmd_run(a)
    elif a.cmd == 'list':
        for m in generate(a.cap, a.seed)[0]:
            print(m['id'], m['file'], m['function'], m['operator'], 'L%d' % m['line'], m['diff'][:150])
    elif a.cmd == 'report':
        write_report(load_json())
    elif a.cmd == 'note':
        doc = load_json()
        hit = [r for r in doc['mutants'] if r['id'] == a.rest[0]]
        if not hit:
            raise SystemExit('no such mutant')
        hit[0]['note'] = ' '.join(a.rest[1:])
        save_json(doc)
        write_report(doc)
    elif a.cmd == 'notes':
        doc = load_json()
        with open(a.rest[0]) as f:
            notes = json.load(f)
        for r in doc['mutants']:
            if r['id'] in notes:
                r['note'] = notes.pop(r['id'])
        if notes:
            raise SystemExit('no such mutants: %s' % sorted(notes))
        save_json(doc)
        write_report(doc)
    elif a.cmd == 'cleanup':
        remove_worktrees()


if __name__ == '__main__':
    main()
