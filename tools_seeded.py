#!/usr/bin/env python3
"""Maintainer tool for seeded changes (/verif/seeded/<id>/): ingest a sub-agent's delivery after re-verifying it,
and evaluate the registered checks against every seeded change in a scratch worktree (never in /repo).

  tools_seeded.py ingest C05 A [root [store-letter]]   # verify <root=/tmp/mut>/C05/deliver/A.diff + A_demo.py, store as seeded/C05-<store-letter=A>/
  tools_seeded.py eval [ids...]       # run ./check <property> (quick) on each seeded change; writes seeded/RESULTS.json
"""
import json
import os
import shutil
import subprocess
import sys
import tempfile

VERIF = os.path.dirname(os.path.abspath(__file__))
PY = '/venv/bin/python'


def sh(cmd, cwd=None, env=None, timeout=1800):
    return subprocess.run(cmd, shell=True, cwd=cwd, env=env, capture_output=True, text=True, timeout=timeout)


def ingest(pid, letter, root='/tmp/mut', store=None):
    wt = '%s/%s' % (root, pid)
    store = store or letter
    d = os.path.join(wt, 'deliver')
    diff, demo = os.path.join(d, letter + '.diff'), os.path.join(d, letter + '_demo.py')
    env = dict(os.environ, PYTHONPATH=wt)
    log = {}
    assert sh('git checkout -- . && git status --short | grep -v deliver', cwd=wt).stdout.strip() == '', 'worktree dirty'
    r = sh('%s %s' % (PY, demo), cwd=wt, env=env)
    log['demo_clean_exit'] = r.returncode
    r = sh('git apply %s' % diff, cwd=wt)
    assert r.returncode == 0, r.stderr
    try:
        r = sh('%s -m pytest -q -p no:cacheprovider -x 2>&1 | tail -3' % PY, cwd=wt, env=env)
        log['tests_with_change'] = r.stdout.strip().splitlines()[-1] if r.stdout.strip() else r.stderr[-200:]
        r = sh('%s %s' % (PY, demo), cwd=wt, env=env)
        log['demo_changed_exit'] = r.returncode
        log['demo_changed_output'] = (r.stdout + r.stderr)[-600:]
    finally:
        sh('git checkout -- .', cwd=wt)
    ok = log['demo_clean_exit'] == 0 and log['demo_changed_exit'] != 0 and '301 passed' in log['tests_with_change']
    print(pid, letter, 'OK' if ok else 'REJECTED', log['tests_with_change'], log['demo_clean_exit'], log['demo_changed_exit'])
    if not ok:
        return False
    out = os.path.join(VERIF, 'seeded', '%s-%s' % (pid, store))
    os.makedirs(out, exist_ok=True)
    shutil.copy(diff, os.path.join(out, 'patch.diff'))
    shutil.copy(demo, os.path.join(out, 'demo.py'))
    notes = ''
    if os.path.exists(os.path.join(d, 'notes.md')):
        notes = open(os.path.join(d, 'notes.md')).read()
    with open(os.path.join(out, 'notes.md'), 'w') as f:
        f.write(notes)
    meta = {'id': '%s-%s' % (pid, store), 'property': pid, 'source': 'independent sub-agent given only the property text and a scratch worktree',
            'needs_to_manifest': 'see notes.md (section %s)' % letter,
            'verified_by_me': {'cmd_tests': 'cd <worktree> && PYTHONPATH=<worktree> /venv/bin/python -m pytest -q -p no:cacheprovider -x',
                               'tests_with_change': log['tests_with_change'],
                               'demo_exit_without_change': log['demo_clean_exit'], 'demo_exit_with_change': log['demo_changed_exit'],
                               'demo_output_with_change': log['demo_changed_output']}}
    with open(os.path.join(out, 'meta.json'), 'w') as f:
        json.dump(meta, f, indent=1)
    return True


def evaluate(ids):
    seeded = os.path.join(VERIF, 'seeded')
    ids = ids or sorted(x for x in os.listdir(seeded) if os.path.isfile(os.path.join(seeded, x, 'meta.json')))
    wt = tempfile.mkdtemp(prefix='seedwt-', dir='/tmp')
    os.rmdir(wt)
    assert sh('git -C /repo worktree add --detach %s HEAD' % wt).returncode == 0
    resp = os.path.join(seeded, 'RESULTS.json')
    results = json.load(open(resp)) if os.path.exists(resp) else {}
    evdir = tempfile.mkdtemp(prefix='seedev-', dir='/tmp')
    try:
        for sid in ids:
            meta = json.load(open(os.path.join(seeded, sid, 'meta.json')))
            props = [meta['property']] + [p for p in meta.get('also_check', [])]
            r = sh('git apply %s' % os.path.join(seeded, sid, 'patch.diff'), cwd=wt)
            assert r.returncode == 0, (sid, r.stderr)
            try:
                res = {}
                for prop in props:
                    env = dict(os.environ, VERIF_REPO=wt, VERIF_EVIDENCE_DIR=evdir, PYVC_Z3_TIMEOUT_MS='8000', PYVC_CVC5_TIMEOUT_S='8')
                    r = sh('./check %s --tier quick' % prop, cwd=VERIF, env=env)
                    lines = [l for l in r.stdout.splitlines() if l.startswith('VIOLATION')]
                    res[prop] = {'exit': r.returncode, 'violations': [l[:300] for l in lines[:4]]}
                    try:
                        ev = json.load(open(os.path.join(evdir, prop + '.json')))
                        und = ev['coverage'].get('undischarged', [])
                        res[prop]['failed_obligations'] = [u['obligation'][:120] for u in und][:6]
                        res[prop]['deductive_caught'] = bool(und)
                        res[prop]['bounded_caught'] = any('-bounded-' in l for l in lines)
                    except Exception as e:
                        res[prop]['evidence_error'] = str(e)
                    print(sid, prop, 'exit', r.returncode, (lines[0][:200] if lines else r.stdout[-200:] + r.stderr[-300:]))
                results[sid] = {'caught': any(v['exit'] == 1 for v in res.values()),
                                'caught_by_own_property_check': res[props[0]]['exit'] == 1,
                                'deductive': any(v.get('deductive_caught') for v in res.values()),
                                'bounded': any(v.get('bounded_caught') for v in res.values()), 'checks': res}
            finally:
                sh('git checkout -- . && git clean -fdq', cwd=wt)
    finally:
        sh('git -C /repo worktree remove --force %s' % wt)
        shutil.rmtree(evdir, ignore_errors=True)
        with open(resp, 'w') as f:
            json.dump(results, f, indent=1, sort_keys=True)
    missed = [k for k, v in results.items() if not v['caught']]
    print('seeded:', len(results), 'caught:', len(results) - len(missed), 'missed:', missed)


if __name__ == '__main__':
    if sys.argv[1] == 'ingest':
        ingest(*sys.argv[2:6])
    else:
        evaluate(sys.argv[2:])
