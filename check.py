#!/opt/veriftools/pyvenv/bin/python
"""Per-property driver:  ./check C01 [--tier quick|thorough] [--replay FILE]

1. deductive side (this interpreter, python3-vt): regenerate every VC of the property's proof units from the
   current /repo working tree, discharge with z3/cvc5, vacuity probes, ledger comparison;
2. linkage + bounded side (/venv/bin/python): the live functions are the extracted ones; the same properties as
   run-time contracts on the real code over the stated bounded scopes (counterexample finder, replay);
3. evidence/<id>.json, VIOLATION / KNOWN-FINDING lines, exit code (0 held, 1 violation, 2 undecided by tooling,
   3 self-check of the machinery failed).
"""
import argparse
import json
import os
import re
import subprocess
import sys
import tempfile
import time

VERIF = os.path.dirname(os.path.abspath(__file__))
sys.path.insert(0, VERIF)
REPO = os.environ.get('VERIF_REPO', '/repo')
class _NoTextUnits(Exception):
    pass


PROOF_INTERNAL = re.compile(r'^[^:]*:(inv\.(entry|preserve)|variant)[#@]')
VENV_PY = '/venv/bin/python'


def main():
    ap = argparse.ArgumentParser()
    ap.add_argument('prop')
    ap.add_argument('--tier', default=os.environ.get('VERIF_TIER', 'quick'), choices=['quick', 'thorough'])
    ap.add_argument('--replay')
    ap.add_argument('--no-bounded', action='store_true')
    ap.add_argument('--update-ledger', action='store_true', help='maintainer only: record the discharged classes')
    a = ap.parse_args()
    prop = a.prop.upper()
    seed = int(os.environ.get('VERIF_SEED', '0') or 0)
    env = dict(os.environ, VERIF_REPO=REPO, PYTHONPATH=VERIF, PYTHONDONTWRITEBYTECODE='1')
    env.pop('PYTHONHASHSEED', None)

    if a.replay:
        return replay(a.replay, env)

    from checks.props import PROPS
    from contracts import registry
    from pyvc import run as pyrun
    registry.load_all()
    spec = PROPS[prop]
    t0 = time.time()
    violations = []      # (replay_path, text, found_input)
    known_lines = []
    tool_problems = []
    selfcheck_problems = []

    # ---------------- 1. deductive side
    units = [u for u in spec.get('units', []) if u in registry.UNITS]
    missing_units = [u for u in spec.get('units', []) if u not in registry.UNITS]
    results = pyrun.run_units(units) if units else []
    ledger = load_ledger()
    obligations = discharged = 0
    per_backend = {}
    solver_s = 0.0
    functions = []
    failed_obls = []      # (unit, vcname, reason, detail)
    for r in results:
        if r.get('function'):
            functions.append(r['function'])
        if r.get('crash'):
            tool_problems.append('unit %s: %s' % (r['unit'], '; '.join(r['errors'])[-400:]))
            continue
        for e in r['errors']:
            failed_obls.append((r['unit'], r['unit'] + ':<generation>', 'ungenerated', e))
        classes = set()
        for v in r['vcs']:
            obligations += 1
            solver_s += v['seconds']
            classes.add(v['name'])
            if v['status'] == 'discharged':
                discharged += 1
                per_backend[v['backend']] = per_backend.get(v['backend'], 0) + 1
            else:
                failed_obls.append((r['unit'], v['name'] + str(v['path']), v['status'], v['detail']))
        for p in r['probes']:
            if not p['ok']:
                selfcheck_problems.append('vacuity probe %s failed for %s' % (p['probe'], r['unit']))
        if a.update_ledger:
            if not r['errors'] and all(v['status'] == 'discharged' for v in r['vcs']):
                ledger[r['unit']] = sorted(classes)
        else:
            for c in ledger.get(r['unit'], []):
                if c not in classes and PROOF_INTERNAL.match(c) and not r['errors']:
                    # the obligations of a loop clause (invariant entry / preservation, variant) belong to a loop STATEMENT: every loop
                    # present in the source either runs under its clause (obligations generated) or stops generation (`errors`), so a
                    # class of this kind can only be absent when the iteration is spelled without that loop (any()/all() over a
                    # generator, a comprehension). The contract-level obligations (pre@call, post, yield, key, assert, ...) stay strict.
                    continue
                if c not in classes:
                    failed_obls.append((r['unit'], c, 'ungenerated', 'ledger obligation class was not generated from the current tree'))
            if r['unit'] not in ledger:
                selfcheck_problems.append('unit %s has no ledger entry' % r['unit'])
    for u in missing_units:
        selfcheck_problems.append('unit %s is not registered' % u)
    order_scan = None
    if spec.get('order_scan'):
        from pyvc import setscan
        with open(os.path.join(VERIF, 'checks', 'order_sites.json')) as fh:
            listed = json.load(fh)['sites']
        allowed = {x['site']: x['discharged_by'] for x in listed}
        # the same site after a renaming of locals: same file, function, kind and the same expression up to the names of its locals,
        # each keeping its kind (set-typed or not) -- `norm` is recorded next to the text of every listed site (setscan --write-norms)
        allowed_norm = {x['norm']: x for x in listed if x.get('norm')}
        # ... or up to naming / un-naming a sub-expression and moving a construction into a private helper that is only called from its
        # own module: `norm2` = the normal form after replacing single-assignment locals (used as plain values) by their defining
        # expression and calls of such helpers by the helper's result expression (pyvc/setscan.py: Site, Helper)
        allowed_norm2 = {x['norm2']: x for x in listed if x.get('norm2')}
        sites, nfiles = setscan.scan_repo(REPO)
        order_scan = {'files': nfiles, 'sites': []}
        for st_ in sites:
            obligations += 1
            if st_.key() in allowed:
                discharged += 1
                per_backend['syntactic-scan'] = per_backend.get('syntactic-scan', 0) + 1
                order_scan['sites'].append({'site': st_.key(), 'discharged_by': allowed[st_.key()]})
            elif st_.norm_key() in allowed_norm:
                discharged += 1
                per_backend['syntactic-scan'] = per_backend.get('syntactic-scan', 0) + 1
                order_scan['sites'].append({'site': st_.key(), 'discharged_by': allowed_norm[st_.norm_key()]['discharged_by'],
                                            'listed_as': allowed_norm[st_.norm_key()]['site']})
            elif st_.norm2_key() in allowed_norm2:
                discharged += 1
                per_backend['syntactic-scan'] = per_backend.get('syntactic-scan', 0) + 1
                order_scan['sites'].append({'site': st_.key(), 'discharged_by': allowed_norm2[st_.norm2_key()]['discharged_by'],
                                            'listed_as': allowed_norm2[st_.norm2_key()]['site']})
            else:
                failed_obls.append(('order-scan', 'order-indep@' + st_.key(), 'ungenerated',
                                    'a set-typed value is iterated, converted, rendered, merged or escapes at a site that is not on the allowlist'))
    if a.update_ledger:
        save_ledger(ledger)

    # ---------------- 1b. thorough tier: self-tests of the machinery (engine / theories / lemmas), never mapped to violations
    thorough = {}
    if a.tier == 'thorough' and not a.no_bounded:
        from pyvc import mutants as pymut, bits as pybits, seqs as pyseqs
        t1 = time.time()
        try:
            thorough['bits_axiom_instances_checked_against_cpython'] = pybits.selftest_axioms(lim=40, kmax=9)
            thorough['seq_axiom_instances_checked_against_cpython'] = pyseqs.selftest()
            if any(u in ('bitsets.MemberBits.count', 'bitsets.integers.indexes_optimized', 'bitsets.MemberBits.bits', 'bitsets.MemberBits.shortlex',
                         'bitsets.MemberBits.longlex', 'lemma.bitsets.shortlex_key') for u in units):
                # BIN-TEXT theory (contracts/bitsets_bin.py, DESIGN 11.22): CPython's bin / format / slicing / str.count / enumerate against the copy of
                # the definitions of lemmas/BitsBin.lean and against every schema (all n < 2^16, random n up to 2^300); against the Lean definitions (#eval)
                from pyvc import bintext as pybin
                thorough['bin_text_instances_checked_against_cpython'] = pybin.selftest()
                if os.path.isdir(pybin.LEAN_DIR):
                    thorough['bin_text_lean_definitions_evaluated_against_cpython'] = pybin.selftest_lean()
            # TEXT theory (contracts/formats_chars.py): CPython against every lemma schema and against the copy of the Lean definitions;
            # CPython against the Lean definitions themselves (#eval); the precondition of lemma.cxt.roundtrip is used by its proof
            if not any(u.startswith(('lemma.cxt.', 'lemma.table.', 'lemma.fimi.', 'lemma.csv.chars')) for u in units):
                raise _NoTextUnits()      # the TEXT theory serves the character-level units only (C12)
            from pyvc import texts as pytexts
            from contracts import formats_chars as pychars
            thorough['text_lemma_instances_checked_against_cpython'] = pytexts.selftest()
            if os.path.isdir(pytexts.LEAN_DIR):
                thorough['text_lean_definitions_evaluated_against_cpython'] = pytexts.selftest_lean()
            thorough['cxt_roundtrip_weakened_preconditions_refused'] = pychars.necessity()
            from contracts import formats_chars_table as pychars_table      # the same for the table format and the FIMI rows (DESIGN 11.16)
            thorough['table_roundtrip_weakened_preconditions_refused'] = pychars_table.necessity() + pychars_table.necessity_fimi()
            from contracts import formats_chars_csv as pychars_csv          # the same for the csv format in the excel dialect (DESIGN 11.18)
            thorough['csv_roundtrip_weakened_preconditions_refused'] = pychars_csv.necessity()
        except _NoTextUnits:
            pass
        except AssertionError as e:
            selfcheck_problems.append('theory axiom refuted by CPython: %r' % (e,))
        os.environ.setdefault('PYVC_Z3_TIMEOUT_MS', '5000')
        n_mut, wrong = pymut.run(only_units=set(units), verbose=False)
        thorough['in_memory_mutants'] = {'run': n_mut, 'wrong': [list(map(str, w))[:3] for w in wrong]}
        for w in wrong:
            selfcheck_problems.append('in-memory mutant verdict wrong (generator self-test): %s' % (list(map(str, w))[:3],))
        if os.path.isdir(os.path.join(VERIF, 'lemmas')):
            pr = subprocess.run(['sh', os.path.join(VERIF, 'lemmas', 'build.sh')], capture_output=True, text=True, timeout=1800)
            thorough['lean'] = pr.stdout.strip().splitlines()[-6:]
            if pr.returncode != 0:
                tool_problems.append('Lean lemma files do not check: ' + pr.stdout[-300:])
        thorough['selftest_wall_s'] = round(time.time() - t1, 1)

    # ---------------- 2. linkage + bounded side
    bounded = None
    linkage = None
    if units:
        links = []
        for u in units:
            U = registry.UNITS[u]
            fn = next((r.get('function') for r in results if r['unit'] == u), None)
            if fn:
                for expr, _ in U.linkage:
                    links.append({'unit': u, 'expr': expr, 'file': fn['file'], 'line': fn['lines'][0],
                                  'name': U.qualname.split('.')[-1]})
        if links:
            with tempfile.NamedTemporaryFile('w', suffix='.json', delete=False) as f:
                json.dump(links, f)
            try:
                out = subprocess.run([VENV_PY, '-m', 'bounded.linkage', f.name], cwd=VERIF, env=env,
                                     capture_output=True, text=True, timeout=120)
                linkage = json.loads(out.stdout) if out.returncode in (0, 1) and out.stdout.strip() else None
                if linkage is None:
                    tool_problems.append('linkage check crashed: ' + out.stderr[-300:])
                else:
                    for m in linkage['mismatches']:
                        failed_obls.append((m['unit'], m['unit'] + ':linkage:' + m['expr'], 'ungenerated',
                                            'the running code is not the verified code: ' + m['why']))
            finally:
                os.unlink(f.name)
    if spec.get('bounded') and not a.no_bounded:
        with tempfile.NamedTemporaryFile('w', suffix='.json', delete=False) as f:
            outp = f.name
        try:
            to = 7200 if a.tier == 'thorough' else 900
            pr = subprocess.run([VENV_PY, '-m', 'bounded.run', prop, '--tier', a.tier, '--seed', str(seed), '--out', outp],
                                cwd=VERIF, env=env, capture_output=True, text=True, timeout=to)
            if pr.returncode in (0, 1) and os.path.getsize(outp):
                with open(outp) as fh:
                    bounded = json.load(fh)
            else:
                tool_problems.append('bounded side exit %s: %s' % (pr.returncode, pr.stderr[-600:]))
        except subprocess.TimeoutExpired:
            tool_problems.append('bounded side timed out')
        finally:
            if os.path.exists(outp):
                os.unlink(outp)

    # ---------------- 3. verdict
    if bounded:
        for v in bounded['violations']:
            violations.append((v['replay'], '%s: %s' % (v['obligation'], v['clause']), True))
        for k in bounded['known_findings']:
            known_lines.append('KNOWN-FINDING: property=%s %s' % (prop, k['what']))
    if failed_obls:
        # policy 3b: an obligation that was discharged on the unchanged tree is now refuted/undecided/ungenerated
        os.makedirs(os.path.join(VERIF, 'replays'), exist_ok=True)
        for i, (unit, name, reason, detail) in enumerate(failed_obls[:5]):
            path = os.path.join(VERIF, 'replays', '%s-obligation-%d.json' % (prop, i))
            smt = None
            for r in results:
                for s in r.get('smt2', []):
                    if name.startswith(s['name']):
                        smt = s['text']
            fn = next((r.get('function') for r in results if r['unit'] == unit), None)
            with open(path, 'w') as fh:
                json.dump({'property': prop, 'kind': 'undischarged' if reason != 'ungenerated' else 'ungenerated',
                           'obligation': name, 'unit': unit, 'function': fn, 'solver': {'status': reason, 'output': detail},
                           'smt2_tail': smt,
                           'native_failing_input': [v[0] for v in violations] or None}, fh, indent=1)
            found = bool(violations)
            violations.append((path, 'obligation %s %s' % (name, reason), found))

    level = spec['level']
    assumptions = list(spec.get('assumptions', []))
    for r in results:
        for x in r.get('assumptions', []):
            if x not in assumptions:
                assumptions.append(x)
    samples = []
    for r in results[:3]:
        if r.get('sample_smt2'):
            samples.append({'obligation': r['sample_smt2']['name'], 'smt2_tail': r['sample_smt2']['text'][-1200:]})
    if bounded:
        samples.extend(bounded['samples'][:3])
    cov = {
        'obligations': obligations, 'discharged': discharged,
        'checker_cmd': './check %s --tier %s' % (prop, a.tier),
        'trusted_base': ['CPython 3.12 semantics as stated in DESIGN 2.2 (A-INT .. A-TERM)', 'PyVC engine (/verif/pyvc)',
                         'z3 5.1.0', 'cvc5 1.0.3', 'Lean 4.33 kernel + Mathlib for lemmas marked lean',
                         'hand transcription SMT <-> Lean of lemma statements',
                         'contracts of bitsets 0.8.4 / stdlib / graphviz (assumed, run-time checked on the bounded side)'],
        'backends': per_backend, 'solver_seconds': round(solver_s, 2),
        'functions_under_contract': functions,
        'units': [{'unit': r['unit'], 'vcs': len(r['vcs']), 'paths': r.get('paths'), 'errors': r['errors'],
                   'probes': r['probes'], 'wall_s': r.get('wall_s'),
                   **({'inlined_helpers': r['inlined_helpers']} if r.get('inlined_helpers') else {})} for r in results],
        'undischarged': [{'unit': u, 'obligation': n, 'status': s, 'detail': d[:300]} for u, n, s, d in failed_obls],
        'linkage': linkage,
        'order_scan': order_scan,
        'thorough_selftests': thorough or None,
        'assume_sites_in_contracts': assume_scan(),
        'proved_part': spec.get('proved_part', ''),
        'bounded_part': spec.get('bounded_part', ''),
        'evaluations': (bounded or {}).get('evaluations', 0),
        'distinct_nontrivial': (bounded or {}).get('distinct_nontrivial', 0),
        'rule': (bounded or {}).get('rule', ''),
        'bounded_scope': (bounded or {}).get('scope', ''),
        'bounded_label': 'bounded stand-in / counterexample finder: run-time contracts on the real code over the stated scope; never counted as proved',
        'bounded_wall_s': (bounded or {}).get('wall_s'),
        'bounded_extra': (bounded or {}).get('extra'),
        'samples': samples or [{'note': 'no samples produced'}],
        'exhaustive': False,
        'explanation': spec.get('explanation') or ('proved (deductive, unbounded): %s || bounded stand-in (never counted as proved): %s'
                                                   % (spec.get('proved_part') or 'nothing yet', spec.get('bounded_part') or 'replay only')),
        'known_findings': [k for k in known_lines],
        'tool_problems': tool_problems, 'selfcheck_problems': selfcheck_problems,
    }
    ev = {'property_id': prop, 'tier': a.tier, 'seed': seed, 'level': level, 'coverage': cov,
          'assumptions': assumptions, 'wall_s': round(time.time() - t0, 2),
          'violations': len(violations)}
    evdir = os.environ.get('VERIF_EVIDENCE_DIR') or os.path.join(VERIF, 'evidence')   # override: seeded-mutant evaluation only
    os.makedirs(evdir, exist_ok=True)
    with open(os.path.join(evdir, '%s.json' % prop), 'w') as fh:
        json.dump(ev, fh, indent=1)

    for k in known_lines:
        print(k)
    print('%s tier=%s obligations=%d discharged=%d bounded_evaluations=%s wall=%.1fs' % (
        prop, a.tier, obligations, discharged, (bounded or {}).get('evaluations'), time.time() - t0))
    if violations:
        for path, text, found in violations:
            print('VIOLATION property=%s replay=%s %s%s' % (prop, path, text[:200], '' if found else ' no-failing-input-found'))
        return 1
    if selfcheck_problems:
        for s in selfcheck_problems:
            print('SELFCHECK: ' + s)
        return 3
    if tool_problems:
        for s in tool_problems:
            print('UNDECIDED: ' + s)
        return 2
    return 0


def assume_scan():
    """Mechanical scan: every `assume(` in the contract files (lemma instances, callee postconditions, requires); reported so
    that a reader can audit what is taken for granted.  Full list: ./check --list-assumes"""
    import re
    n, files = 0, {}
    cdir = os.path.join(VERIF, 'contracts')
    for f in sorted(os.listdir(cdir)):
        if f.endswith('.py'):
            with open(os.path.join(cdir, f)) as fh:
                c = len(re.findall(r'\.assume\(', fh.read()))
            if c:
                files[f] = c
                n += c
    return {'total': n, 'by_file': files}


def load_ledger():
    p = os.path.join(VERIF, 'ledger.json')
    if os.path.exists(p):
        with open(p) as f:
            return json.load(f)
    return {}


def save_ledger(ledger):
    with open(os.path.join(VERIF, 'ledger.json'), 'w') as f:
        json.dump(ledger, f, indent=1, sort_keys=True)


def replay(path, env):
    with open(path) as f:
        doc = json.load(f)
    if doc.get('kind') == 'native-failure':
        pr = subprocess.run([VENV_PY, '-m', 'bounded.run', '--replay', path], cwd=VERIF, env=env)
        return pr.returncode
    print(json.dumps({k: doc[k] for k in ('property', 'kind', 'obligation', 'solver') if k in doc}, indent=1))
    print('this replay file names a failed proof obligation; re-run ./check %s to regenerate it' % doc['property'])
    return 1


if __name__ == '__main__':
    sys.exit(main())
