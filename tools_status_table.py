#!/usr/bin/env python3
"""Print the markdown status table of DESIGN 11.3 from checks/props.py and the evidence files."""
import json, os, sys
V = os.path.dirname(os.path.abspath(__file__))
sys.path.insert(0, V)
from checks.props import PROPS
print('| id | level claimed | functions under contract | units | obligations (all discharged) | bounded / assumed part |')
print('|----|---------------|--------------------------|-------|------------------------------|------------------------|')
for pid in sorted(PROPS):
    ev = json.load(open(os.path.join(V, 'evidence', pid + '.json')))
    cov = ev.get('coverage', {})
    fn = cov.get('functions_under_contract') or cov.get('functions') or []
    print('| %s | %s | %s | %d | %s | %s |' % (pid, PROPS[pid]['level'], len(fn), len(PROPS[pid]['units']),
                                          '%s / %s' % (cov.get('discharged'), cov.get('obligations')), PROPS[pid]['bounded_part'][:150]))
