"""In-memory mutants of the `bitsets` functions that go through the text bin(n) / format(n, '0wb') (contracts/bitsets_bin.py, DESIGN 11.22).

Pure data (no z3), because two sides read it: `python3-vt -m pyvc.mutants` judges every mutant on the proof obligations, and the differential
replay `bounded/bin_mutants.py` (under /venv/bin/python) executes the mutated function and compares it with the installed one on an enumerated
scope; the verdict listed here must be what BOTH find.
"""
_BSP = 'ABS:/venv/lib/python3.12/site-packages/bitsets/'
BI, BB = _BSP + 'integers.py', _BSP + 'bases.py'

_OPT = "    for i, b in enumerate(bin(n)[:1:-1]):\n        if b == '1':\n            yield i"
_CNT = "        return bin(self)[2:].count('01'[value])"
_SLX = "        return bin(self).count('1'), self._reinverted(self._len)"
_LLX = "        return -bin(self).count('1'), self._reinverted(self._len)"
_BTS = "        return '{0:0{1}b}'.format(self, self._len)[::-1]"
_OPT_U, _CNT_U, _BTS_U = ['bitsets.integers.indexes_optimized'], ['bitsets.MemberBits.count'], ['bitsets.MemberBits.bits']


def _opt(head="    for i, b in enumerate(bin(n)[:1:-1]):\n", test="        if b == '1':\n", out="            yield i"):
    return head + test + out


MUTANTS = [
    # ---- integers.indexes_optimized: which characters are enumerated, from which end, what is compared, what is yielded
    (BI, _OPT, _opt(head="    for i, b in enumerate(bin(n)[2:]):\n"), _OPT_U, 'breaks'),                 # most significant digit first: wrong positions
    (BI, _OPT, _opt(head="    for i, b in enumerate(bin(n)[:2:-1]):\n"), _OPT_U, 'breaks'),              # off by one: the highest member is lost
    (BI, _OPT, _opt(head="    for i, b in enumerate(bin(n)[:0:-1]):\n"), _OPT_U, 'equivalent'),          # off by one the other way: the 'b' is no '1'
    (BI, _OPT, _opt(head="    for i, b in enumerate(bin(n)[::-1]):\n"), _OPT_U, 'equivalent'),           # the whole prefix 'b', '0' at the end: no '1'
    (BI, _OPT, _opt(head="    for i, b in enumerate(reversed(bin(n)[2:])):\n"), _OPT_U, 'equivalent'),
    (BI, _OPT, _opt(head="    for i, b in enumerate(bin(n)[2:][::-1]):\n"), _OPT_U, 'equivalent'),
    (BI, _OPT, _opt(head="    for i, b in enumerate(bin(n)[:1:-1], 1):\n"), _OPT_U, 'breaks'),
    (BI, _OPT, _opt(head="    for i, b in enumerate(bin(n + 1)[:1:-1]):\n"), _OPT_U, 'breaks'),
    (BI, _OPT, _opt(test="        if b == '0':\n"), _OPT_U, 'breaks'),
    (BI, _OPT, _opt(test="        if b != '0':\n"), _OPT_U, 'equivalent'),                                 # a digit is '0' or '1'
    (BI, _OPT, _opt(head="    for i, b in enumerate(bin(n)[::-1]):\n", test="        if b != '0':\n"), _OPT_U, 'breaks'),      # ... but the 'b' is neither
    (BI, _OPT, _opt(test="        if b == 'b':\n"), _OPT_U, 'breaks'),
    (BI, _OPT, _opt(test="        if b == '11':\n"), _OPT_U, 'breaks'),
    (BI, _OPT, _opt(out="            yield i + 1"), _OPT_U, 'breaks'),
    (BI, _OPT, _opt(out="            yield i\n            yield i"), _OPT_U, 'breaks'),
    (BI, _OPT, _opt(test="", out="        yield i"), _OPT_U, 'breaks'),
    # ---- MemberBits.count
    (BB, _CNT, "        return bin(self)[2:].count('10'[value])", _CNT_U, 'breaks'),
    (BB, _CNT, "        return bin(self).count('01'[value])", _CNT_U, 'breaks'),                          # value False counts the '0' of the prefix too
    (BB, _CNT, "        return bin(self)[1:].count('01'[value])", _CNT_U, 'equivalent'),                  # the 'b' is neither
    (BB, _CNT, "        return bin(self)[3:].count('01'[value])", _CNT_U, 'breaks'),                      # off by one: the first digit is lost
    (BB, _CNT, "        return bin(self)[:1:-1].count('01'[value])", _CNT_U, 'equivalent'),
    (BB, _CNT, "        return bin(self)[2:][::-1].count('01'[value])", _CNT_U, 'equivalent'),
    (BB, _CNT, "        return bin(self)[2:].count('1')", _CNT_U, 'breaks'),
    (BB, _CNT, "        return bin(self)[2:].count('0')", _CNT_U, 'breaks'),
    (BB, _CNT, "        return bin(self)[2:].count('01'[not value])", _CNT_U, 'breaks'),
    (BB, _CNT, "        return bin(self)[2:].count('1') if value else bin(self)[2:].count('0')", _CNT_U, 'equivalent'),
    (BB, _CNT, "        return bin(self)[2:].count('01'[value]) + 1", _CNT_U, 'breaks'),
    (BB, _CNT, "        return bin(self._len)[2:].count('01'[value])", _CNT_U, 'breaks'),
    (BB, "    def count(self, value=True):", "    def count(self, value=False):", _CNT_U, 'breaks'),   # /repo calls count(): the default is part of the contract
    (BB, "        if value not in (True, False):", "        if value in (True, False):", _CNT_U, 'breaks'),
    # ---- the first component of the sort keys
    (BB, _SLX, "        return bin(self).count('0'), self._reinverted(self._len)", ['bitsets.MemberBits.shortlex'], 'breaks'),
    (BB, _SLX, "        return bin(self)[2:].count('1'), self._reinverted(self._len)", ['bitsets.MemberBits.shortlex'], 'equivalent'),
    (BB, _SLX, "        return bin(self)[3:].count('1'), self._reinverted(self._len)", ['bitsets.MemberBits.shortlex'], 'breaks'),
    (BB, _SLX, "        return bin(self._len).count('1'), self._reinverted(self._len)", ['bitsets.MemberBits.shortlex'], 'breaks'),
    (BB, _LLX, "        return -bin(self)[2:].count('0'), self._reinverted(self._len)", ['bitsets.MemberBits.longlex'], 'breaks'),
    (BB, _LLX, "        return -bin(self)[:1:-1].count('1'), self._reinverted(self._len)", ['bitsets.MemberBits.longlex'], 'equivalent'),
    # ---- the other users of bin(self).count('1') (not reached by concepts)
    (BB, "        return bin(self).count('1'), self._int", "        return bin(self).count('0'), self._int", ['bitsets.MemberBits.shortcolex'], 'breaks'),
    (BB, "        return bin(self).count('1'), self._int", "        return bin(self)[:1:-1].count('1'), self._int", ['bitsets.MemberBits.shortcolex'], 'equivalent'),
    (BB, "        return -bin(self).count('1'), self._int", "        return bin(self).count('1'), self._int", ['bitsets.MemberBits.longcolex'], 'breaks'),
    (BB, "        return bin(self).count('1')\n", "        return bin(self).count('0')\n", ['bitsets.BitSet.__len__'], 'breaks'),
    (BB, "        return bin(self).count('1')\n", "        return bin(self)[2:].count('1')\n", ['bitsets.BitSet.__len__'], 'equivalent'),
    (BB, "        return bin(self).count('1')\n", "        return bin(self)[3:].count('1')\n", ['bitsets.BitSet.__len__'], 'breaks'),
    # ---- MemberBits.bits
    (BB, _BTS, "        return '{0:0{1}b}'.format(self, self._len)", _BTS_U, 'breaks'),                    # most significant first
    (BB, _BTS, "        return '{0:0{1}b}'.format(self, self._len)[::-1][::-1][::-1]", _BTS_U, 'equivalent'),
    (BB, _BTS, "        return '{0:0{1}b}'.format(self, self._len)[::-1][::-1]", _BTS_U, 'breaks'),
    (BB, _BTS, "        return '{0:0{1}b}'.format(self, self._len - 1)[::-1]", _BTS_U, 'breaks'),         # one filling zero short
    (BB, _BTS, "        return '{0:0{1}b}'.format(self, self._len + 1)[::-1]", _BTS_U, 'breaks'),
    (BB, _BTS, "        return '{0:0{1}b}'.format(self._len, self)[::-1]", _BTS_U, 'breaks'),
    (BB, _BTS, "        return '{0:0{1}b}'.format(self, self._len)[:0:-1]", _BTS_U, 'breaks'),            # the first position is lost
    (BB, _BTS, "        return '{0:{1}b}'.format(self, self._len)[::-1]", _BTS_U, 'breaks'),               # filled with blanks (a template outside the model: an alarm)
    (BB, _BTS, "        return bin(self)[:1:-1]", _BTS_U, 'breaks'),                                       # no filling zeros
]
