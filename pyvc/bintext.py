"""BIN-TEXT theory: the text `bin(n)` of a natural number, its slices and character counts, and the bits of n
(DESIGN 11.22, lemmas/BitsBin.lean, units bitsets.MemberBits.count / bits / shortlex / longlex, bitsets.integers.indexes_optimized).

Same three layers as pyvc/texts.py:

1. MODEL   m_* : a python copy of the definitions of lemmas/BitsBin.lean (digits = Nat.toDigits 2, bin, revDownTo, card, fmtB, intOf2).
2. ASSUMED LIBRARY CONTRACT  "CPython's bin(n) / '{0:0{1}b}'.format(n, w) / int(s, 2) / s[k:] / s[:k:-1] / s[::-1] / s.count(c) / len(s) /
           s[i] / enumerate compute these definitions" (n, w, k naturals, c one character).  Not proved.  VALIDATED by `selftest()`
           (CPython against the copy and against every axiom and lemma schema below: all n < 2^16, random n up to 2^300) and by
           `selftest_lean()` (CPython against the Lean definitions themselves, run with `#eval`).
3. SCHEMAS  stated ONCE over an interpretation T:  `Z3B` builds the formulas of the units, `PyB` evaluates the same statement with
           CPython's own functions.
             A_*   definitional facts of the slicing / counting vocabulary (list facts, lemmas/BitsBin.lean: A_*): used as quantified
                   axioms (len / chr of a slice) or as explicit ground instances (the counting recursion)
             L_*   the lemmas about bin / format / card (premises are obligations, then the conclusion is assumed: an instance of
                   the Lean theorems named in the docstring and in `LEAN`)
           A schema returns (premises, conclusions); an item is ('fact', name, formula) or ('forall', name, lo, hi, body(t), pattern(t)):
           for all lo <= t < hi, hi = None: no upper bound.

z3 vocabulary (sort BTxt = a python str; characters are their code points, Int; all functions uninterpreted; nothing is declared at
import time):
    bin(n)  fmtb(n, w) = '{0:0{1}b}'.format(n, w)  drop(x, k) = x[k:]  revdown(x, k) = x[:k:-1]  rev(x) = x[::-1]
    tlen(x) = len(x)  chr(x, i) = ord(x[i])  cnt(x, c, j) = x.count(chr(c), 0, j)   (count(x, c) := cnt(x, c, tlen(x)))
    card(n) = the number of set bits of n (`card` of contracts/bitsets_powerset.py, `popcount` of contracts/bitsets_lib.py / agreement.py:
    one meaning, BitsBin.card)       bit / bor / atomv: pyvc/bits.py
"""
import random

ONE, ZERO, LETTER_B = ord('1'), ord('0'), ord('b')

# ---------------------------------------------------------------------------------------------------------------------
# 1. the model: a python copy of the definitions of lemmas/BitsBin.lean


def m_digits(n):
    """digits n = Nat.toDigits 2 n:  n < 2 -> [digitChar n]  else  toDigits 2 (n / 2) ++ [digitChar (n % 2)]   (Nat.toDigits_eq_if)"""
    out = ''
    while n >= 2:
        out = '01'[n % 2] + out
        n //= 2
    return '01'[n] + out


def m_bin(n):
    """bin n = '0' :: 'b' :: digits n"""
    return '0b' + m_digits(n)


def m_drop(k, s):
    """List.drop k s"""
    return ''.join(s[i] for i in range(k, len(s)))


def m_reverse(s):
    return ''.join(s[len(s) - 1 - i] for i in range(len(s)))


def m_rev_down_to(k, s):
    """revDownTo k s = (s.drop (k + 1)).reverse"""
    return m_reverse(m_drop(k + 1, s))


def m_count(c, s):
    """List.count c s"""
    return sum(1 for d in s if d == c)


def m_size(n):
    """Nat.size: the number of binary digits, 0 for 0"""
    k = 0
    while n:
        n //= 2
        k += 1
    return k


def m_test_bit(n, i):
    """Nat.testBit n i = (n / 2^i) % 2 = 1"""
    return (n // 2 ** i) % 2 == 1


def m_card(n):
    """card n = ((Finset.range n.size).filter (n.testBit ·)).card"""
    return sum(1 for i in range(m_size(n)) if m_test_bit(n, i))


def m_fmtb(w, n):
    """fmtB w n = replicate (w - (digits n).length) '0' ++ digits n   (natural subtraction)"""
    d = m_digits(n)
    return '0' * max(w - len(d), 0) + d


def m_int_of2(s):
    """intOf2 s = Nat.ofDigitChars 2 s 0 = foldl (fun acc c => 2 * acc + (c.toNat - '0'.toNat)) 0 s"""
    acc = 0
    for c in s:
        acc = 2 * acc + max(ord(c) - 48, 0)
    return acc


# ---------------------------------------------------------------------------------------------------------------------
# 3a. the concrete interpretation: CPython's own functions

def _c_bit(x, k):
    return k >= 0 and bool((x >> k) & 1)


class PyB:
    """texts = str, characters = code points, ints and bools python's"""
    symbolic = False
    And = staticmethod(lambda *a: all(a))
    Or = staticmethod(lambda *a: any(a))
    Not = staticmethod(lambda a: not a)
    Implies = staticmethod(lambda a, b: (not a) or b)
    If = staticmethod(lambda c, a, b: a if c else b)
    bin = staticmethod(lambda n: bin(n))
    fmtb = staticmethod(lambda n, w: '{0:0{1}b}'.format(n, w) if w >= 0 else None)     # a negative width raises ValueError: no such text
    drop = staticmethod(lambda x, k: x[k:])              # only ever evaluated under the guard k >= 0 (a negative bound counts from the end)
    revdown = staticmethod(lambda x, k: x[:k:-1])
    rev = staticmethod(lambda x: x[::-1])
    tlen = staticmethod(lambda x: -1 if x is None else len(x))
    chr = staticmethod(lambda x, i: ord(x[i]) if x is not None and 0 <= i < len(x) else -1)      # -1: no such character (every use is guarded)
    cnt = staticmethod(lambda x, c, j: x.count(chr(c), 0, j) if j >= 0 else -1)   # str.count(sub, start, end)
    bit = staticmethod(_c_bit)
    bor = staticmethod(lambda a, b: a | b)
    atomv = staticmethod(lambda i: (1 << i) if i >= 0 else 0)        # a negative shift count raises ValueError (every use is guarded)
    int2 = staticmethod(lambda x: int(x, 2))

    @staticmethod
    def card(n):
        """the number of positions with a set bit -- counted position by position (and compared with int.bit_count by selftest)"""
        return sum(1 for i in range(n.bit_length()) if (n >> i) & 1)


def holds(item, horizon=70):
    """truth of a schema item under the concrete interpretation (an unbounded range is checked up to lo + horizon)"""
    if item[0] == 'fact':
        return bool(item[2])
    _, _, lo, hi, body, _ = item
    return all(body(t) for t in range(lo, (lo + horizon) if hi is None else hi))


# ---------------------------------------------------------------------------------------------------------------------
# 3b. the symbolic interpretation (created on demand)

class Z3B:
    symbolic = True

    def __init__(self, card_name='card'):
        import z3
        from pyvc import bits
        self.z3 = z3
        I = z3.IntSort()
        self.BTxt = z3.DeclareSort('BTxt')
        F = z3.Function
        self.bin = F('btxt.bin', I, self.BTxt)
        self.fmtb = F('btxt.format(0wb)', I, I, self.BTxt)
        self.drop = F('btxt.drop', self.BTxt, I, self.BTxt)
        self.revdown = F('btxt.revdown', self.BTxt, I, self.BTxt)
        self.rev = F('btxt.rev', self.BTxt, self.BTxt)
        self.tlen = F('btxt.len', self.BTxt, I)
        self.chr = F('btxt.chr', self.BTxt, I, I)
        self.cnt = F('btxt.cnt', self.BTxt, I, I, I)
        self.card = F(card_name, I, I)          # 'card' (bitsets_powerset.PW) / 'popcount' (bitsets_lib, agreement): BitsBin.card
        self.bit, self.bor, self.atomv = bits.bit, bits.bor, bits.atomv
        self.And, self.Or, self.Not, self.Implies, self.If = z3.And, z3.Or, z3.Not, z3.Implies, z3.If

    def count(self, x, c):
        return self.cnt(x, c, self.tlen(x))

    def axioms(self):
        """the quantified definitional axioms: length and characters of the slices (no recursion, so no matching loop); the counting
        recursion A_cnt_* is used by explicit ground instances only"""
        z3 = self.z3
        x = z3.Const('x', self.BTxt)
        k, i = z3.Ints('k i')
        out = [('btxt.len-nonneg', z3.ForAll([x], A_len(self, x)[0][1], patterns=[self.tlen(x)]))]
        for (name, f), pat in zip(A_drop(self, x, k, i), (self.drop(x, k), self.chr(self.drop(x, k), i))):
            out.append((name, z3.ForAll([x, k, i] if 'chr' in name else [x, k], f, patterns=[pat])))
        for (name, f), pat in zip(A_revdown(self, x, k, i), (self.revdown(x, k), self.chr(self.revdown(x, k), i))):
            out.append((name, z3.ForAll([x, k, i] if 'chr' in name else [x, k], f, patterns=[pat])))
        for (name, f), pat in zip(A_rev(self, x, i), (self.rev(x), self.chr(self.rev(x), i))):
            out.append((name, z3.ForAll([x, i] if 'chr' in name else [x], f, patterns=[pat])))
        return out


# ---------------------------------------------------------------------------------------------------------------------
# 3c. definitional facts of the vocabulary (lemmas/BitsBin.lean, section ListFacts).  Each returns a list of (name, formula).

def _max0(T, a):
    return T.If(a >= 0, a, 0)


def A_len(T, x):
    return [('btxt.len-nonneg', T.tlen(x) >= 0)]


def A_drop(T, x, k, i):
    """x[k:] for a natural k (A_drop_length = List.length_drop, A_drop_getElem = List.getElem_drop)"""
    d = T.drop(x, k)
    return [('btxt.drop.len', T.Implies(k >= 0, T.tlen(d) == _max0(T, T.tlen(x) - k))),
            ('btxt.drop.chr', T.Implies(T.And(k >= 0, 0 <= i, i < T.tlen(d)), T.chr(d, i) == T.chr(x, i + k)))]


def A_revdown(T, x, k, i):
    """x[:k:-1] for a natural k: from the last character down to position k + 1 (A_revDownTo_length, A_revDownTo_getElem)"""
    d = T.revdown(x, k)
    return [('btxt.revdown.len', T.Implies(k >= 0, T.tlen(d) == _max0(T, T.tlen(x) - k - 1))),
            ('btxt.revdown.chr', T.Implies(T.And(k >= 0, 0 <= i, i < T.tlen(d)), T.chr(d, i) == T.chr(x, T.tlen(x) - 1 - i)))]


def A_rev(T, x, i):
    """x[::-1] (List.length_reverse, A_reverse_getElem = List.getElem_reverse)"""
    d = T.rev(x)
    return [('btxt.rev.len', T.tlen(d) == T.tlen(x)),
            ('btxt.rev.chr', T.Implies(T.And(0 <= i, i < T.tlen(x)), T.chr(d, i) == T.chr(x, T.tlen(x) - 1 - i)))]


def A_cnt_zero(T, x, c):
    """nothing counted in the first 0 characters (A_count_take_zero)"""
    return [('btxt.cnt.zero', T.cnt(x, c, 0) == 0)]


def A_cnt_step(T, x, c, j):
    """counting through the first j + 1 characters (A_count_take_succ)"""
    return [('btxt.cnt.step', T.Implies(T.And(0 <= j, j < T.tlen(x)), T.cnt(x, c, j + 1) == T.cnt(x, c, j) + T.If(T.chr(x, j) == c, 1, 0)))]


def A_cnt_drop(T, x, c, k):
    """the characters counted in x[k:] are those of x without the first k (A_count_drop, A_count_take_length)"""
    d = T.drop(x, k)
    return [('btxt.cnt.drop', T.Implies(T.And(0 <= k, k <= T.tlen(x)), T.cnt(d, c, T.tlen(d)) == T.cnt(x, c, T.tlen(x)) - T.cnt(x, c, k)))]


def A_cnt_revdown(T, x, c, k):
    """x[:k:-1] has the characters of x[k+1:] (A_count_revDownTo, A_count_reverse, A_count_drop)"""
    d = T.revdown(x, k)
    return [('btxt.cnt.revdown', T.Implies(T.And(0 <= k, k + 1 <= T.tlen(x)), T.cnt(d, c, T.tlen(d)) == T.cnt(x, c, T.tlen(x)) - T.cnt(x, c, k + 1)))]


def A_cnt_rev(T, x, c):
    """reversing does not change the counts (A_count_reverse)"""
    d = T.rev(x)
    return [('btxt.cnt.rev', T.cnt(d, c, T.tlen(d)) == T.cnt(x, c, T.tlen(x)))]


# ---------------------------------------------------------------------------------------------------------------------
# 3d. the lemma schemas

def L_bin_shape(T, n):
    """BitsBin.bin_getElem_zero, bin_getElem_one, length_digits_pos, bin_getElem', testBit_of_length_digits_le,
    testBit_length_digits_sub_one, digits_zero:
    bin(n) is '0b' followed by L >= 1 digits; the digit at position p (2 <= p < 2 + L) is '1' iff bit L + 1 - p of n is set (the last
    character is bit 0); n has no bit at or above L; the first digit of a positive n is its highest bit; 0 has the one digit '0'."""
    x = T.bin(n)
    L = T.tlen(x) - 2
    return [('fact', 'natural-number', n >= 0)], [
        ('fact', 'prefix-and-length', T.And(L >= 1, T.chr(x, 0) == ZERO, T.chr(x, 1) == LETTER_B)),
        ('forall', 'digit-at-position-p', 2, L + 2, lambda p: T.chr(x, p) == T.If(T.bit(n, L + 1 - p), ONE, ZERO), lambda p: T.chr(x, p)),
        ('forall', 'no-bit-at-or-above-the-number-of-digits', L, None, lambda i: T.Not(T.bit(n, i)), lambda i: T.bit(n, i)),
        ('fact', 'first-digit-of-a-positive-number', T.Implies(n > 0, T.bit(n, L - 1))),
        ('fact', 'zero-has-one-digit', T.Implies(n == 0, L == 1))]


def L_bin_count(T, n):
    """BitsBin.count_one_bin, count_zero_bin: bin(n).count('1') is the number of set bits of n; bin(n).count('0') counts the '0' of the
    prefix and the zero digits (all characters but the 'b' are '0' or '1')"""
    x = T.bin(n)
    return [('fact', 'natural-number', n >= 0)], [
        ('fact', 'ones', T.cnt(x, ONE, T.tlen(x)) == T.card(n)),
        ('fact', 'zeros', T.cnt(x, ZERO, T.tlen(x)) + T.card(n) == T.tlen(x) - 1)]


def L_fmtb_shape(T, n, w):
    """BitsBin.length_fmtB_of_lt', fmtB_getElem: for w >= 1 and a natural n without a bit at or above w (n < 2^w: Bits.B10_width),
    '{0:0{1}b}'.format(n, w) has exactly w characters, and the one at position p is '1' iff bit w - 1 - p of n is set"""
    x = T.fmtb(n, w)
    prem = [('fact', 'natural-number', n >= 0), ('fact', 'width-at-least-one', w >= 1),
            ('forall', 'no-bit-at-or-above-the-width', w, None, lambda i: T.Not(T.bit(n, i)), lambda i: T.bit(n, i))]
    return prem, [('fact', 'width', T.tlen(x) == w),
                  ('forall', 'digit-at-position-p', 0, w, lambda p: T.chr(x, p) == T.If(T.bit(n, w - 1 - p), ONE, ZERO), lambda p: T.chr(x, p))]


def L_card_basic(T, n):
    """BitsBin.card is a natural number; BitsBin.card_zero"""
    return [('fact', 'natural-number', n >= 0)], [('fact', 'card-nonneg', T.card(n) >= 0), ('fact', 'card-of-the-empty-set', T.card(0) == 0)]


def L_card_insert(T, c, x):
    """BitsBin.card_insert (axiom `card.insert` of contracts/bitsets_powerset.py): a new member makes the set one larger"""
    return ([('fact', 'natural-number', c >= 0), ('fact', 'position', x >= 0), ('fact', 'not-a-member-yet', T.Not(T.bit(c, x)))],
            [('fact', 'one-larger', T.card(T.bor(c, T.atomv(x))) == T.card(c) + 1)])


def L_card_ssubset(T, a, b):
    """BitsBin.card_lt_of_ssubset (the size part of L-SLEX): a proper subset has fewer members"""
    return ([('fact', 'natural-numbers', T.And(a >= 0, b >= 0)),
             ('forall', 'subset', 0, None, lambda i: T.Implies(T.bit(a, i), T.bit(b, i)), lambda i: T.bit(a, i)),
             ('fact', 'different', a != b)],
            [('fact', 'fewer-members', T.card(a) < T.card(b))])


def L_card_width(T, n, w):
    """BitsBin.card_le_of_lt_two_pow: a set within w positions has at most w members"""
    return ([('fact', 'natural-number', n >= 0), ('fact', 'width', w >= 0),
             ('forall', 'no-bit-at-or-above-the-width', w, None, lambda i: T.Not(T.bit(n, i)), lambda i: T.bit(n, i))],
            [('fact', 'at-most-w-members', T.card(n) <= w)])


LEAN = {'A_len': [], 'A_drop': ['A_drop_length', 'A_drop_getElem'], 'A_revdown': ['A_revDownTo_length', 'A_revDownTo_getElem'],
        'A_rev': ['A_reverse_getElem'], 'A_cnt_zero': ['A_count_take_zero'], 'A_cnt_step': ['A_count_take_succ'],
        'A_cnt_drop': ['A_count_drop', 'A_count_take_length'], 'A_cnt_revdown': ['A_count_revDownTo', 'A_count_reverse', 'A_count_drop'],
        'A_cnt_rev': ['A_count_reverse'],
        'L_bin_shape': ['bin_getElem_zero', 'bin_getElem_one', 'length_digits_pos', "bin_getElem'", 'testBit_of_length_digits_le',
                        'testBit_length_digits_sub_one', 'digits_zero'],
        'L_bin_count': ['count_one_bin', 'count_zero_bin'], 'L_fmtb_shape': ["length_fmtB_of_lt'", 'fmtB_getElem'],
        'L_card_basic': ['card_zero'], 'L_card_insert': ['card_insert'], 'L_card_ssubset': ['card_lt_of_ssubset'],
        'L_card_width': ['card_le_of_lt_two_pow']}


# ---------------------------------------------------------------------------------------------------------------------
# 2. validation against CPython

def _numbers(limit=1 << 16, extra=400, seed=20260929):
    """all n < limit; random n of up to 300 bits; the edges of every width up to 300"""
    rnd = random.Random(seed)
    yield from range(limit)
    for _ in range(extra):
        yield rnd.getrandbits(rnd.randrange(17, 301))
    for e in range(16, 301):
        yield from ((1 << e) - 1, 1 << e, (1 << e) + 1)


def _check_axioms(T, items):
    for name, f in items:
        assert f, ('axiom instance refuted by CPython', name)
    return len(items)


def _check_schema(schema, *numbers):
    """-> 1 if the premises hold (then the conclusions must), 0 if the instance is vacuous.  An unbounded range of positions is
    checked beyond the highest bit of every number involved (`numbers`)."""
    prem, concl = schema
    horizon = max([abs(k).bit_length() for k in numbers] + [0]) + 4
    if not all(holds(p, horizon) for p in prem):
        return 0
    for c in concl:
        assert holds(c, horizon), ('schema conclusion fails', c[1], numbers)
    return 1


def selftest(limit=1 << 16, verbose=False):
    """CPython against the model, against every definitional fact and against every lemma schema.  Returns the number of instances
    checked (for the schemas: the non-vacuous ones)."""
    n_checked = 0
    live = {}

    def count(name, k):
        live[name] = live.get(name, 0) + k
    T = PyB
    rnd = random.Random(7)
    # ---- the model = CPython, on every number of the scope
    for n in _numbers(limit):
        b = bin(n)
        assert b == m_bin(n) and format(n, 'b') == f'{n:b}' == b[2:] == m_digits(n) == m_drop(2, b), n
        assert b[:1:-1] == m_rev_down_to(1, b) == m_reverse(m_digits(n)) and b[::-1] == m_reverse(b), n
        assert b.count('1') == m_count('1', b) == m_card(n) == n.bit_count() == PyB.card(n), n
        assert b.count('0') == m_count('0', b) and b[2:].count('0') == m_count('0', m_digits(n)), n
        assert n.bit_length() == m_size(n) and len(b) == 2 + max(1, m_size(n)), n
        assert [(i, c) for i, c in enumerate(b[:1:-1])] == [(i, '1' if m_test_bit(n, i) else '0') for i in range(max(1, m_size(n)))], n
        assert [i for i, c in enumerate(b[:1:-1]) if c == '1'] == [i for i in range(m_size(n)) if (n >> i) & 1], n
        assert int(b[2:], 2) == m_int_of2(m_digits(n)) == n, n
        assert ''.join(reversed(b[2:])) == b[:1:-1] == b[2:][::-1] and list(reversed(b)) == list(b[::-1]), n
        assert [c == '1' for c in b] == [ord(c) == ONE for c in b] and [c != '0' for c in b] == [ord(c) != ZERO for c in b] and all(c != '11' for c in b), n
        n_checked += 10
        for w in (0, 1, m_size(n), m_size(n) + 1, m_size(n) + 5) if n < 4096 or n.bit_length() > 16 else (m_size(n) + 3,):
            s = '{0:0{1}b}'.format(n, w)
            assert s == m_fmtb(w, n) == format(n, '0%db' % w) == b[2:].zfill(w) == b[2:].rjust(w, '0'), (n, w)
            assert int(s, 2) == m_int_of2(s) == n and int(s[::-1][::-1], 2) == n, (n, w)
            n_checked += 2
    # ---- slices and counts of arbitrary texts (the vocabulary is general): against the model and against the A_* facts
    alphabet = ('0', '1', 'b', 'x')
    texts = [''.join(t) for r in range(0, 6) for t in __import__('itertools').product(alphabet, repeat=r)]
    texts += [bin(rnd.getrandbits(rnd.randrange(1, 90))) for _ in range(200)]
    for s in texts:
        assert s[::-1] == m_reverse(s)
        for k in range(0, 8):
            assert s[k:] == m_drop(k, s) and s[:k:-1] == m_rev_down_to(k, s), (s, k)
        for c in alphabet:
            assert s.count(c) == m_count(c, s) == PyB.cnt(s, ord(c), len(s))
        n_checked += 1 + 16 + 4
        n_checked += _check_axioms(T, A_len(T, s))
        for c in (ONE, ZERO, LETTER_B):
            n_checked += _check_axioms(T, A_cnt_zero(T, s, c) + A_cnt_rev(T, s, c))
            for j in range(-1, len(s) + 2):
                n_checked += _check_axioms(T, A_cnt_step(T, s, c, j) + A_cnt_drop(T, s, c, j) + A_cnt_revdown(T, s, c, j))
        for k in range(-1, 8):
            for i in range(-1, len(s) + 2):
                n_checked += _check_axioms(T, (A_drop(T, s, k, i) + A_revdown(T, s, k, i)) if k >= 0 else [])
                n_checked += _check_axioms(T, A_rev(T, s, i))
    # ---- the lemma schemas
    for n in list(_numbers(limit)) + [-1, -5]:
        count('L_bin_shape', _check_schema(L_bin_shape(T, n), n))
        count('L_bin_count', _check_schema(L_bin_count(T, n), n))
        count('L_card_basic', _check_schema(L_card_basic(T, n), n))
        big = n >= 4096 and n.bit_length() <= 16
        for w in ((n.bit_length() + 2,) if big else (-1, 0, 1, 2, n.bit_length() - 1, n.bit_length(), n.bit_length() + 1, n.bit_length() + 7)):
            count('L_fmtb_shape', _check_schema(L_fmtb_shape(T, n, w), n, w))
            count('L_card_width', _check_schema(L_card_width(T, n, w), n, w))
        for x in ((n.bit_length() + 1,) if big else range(-1, max(n, 0).bit_length() + 3)):
            count('L_card_insert', _check_schema(L_card_insert(T, n, x), n, x))
    for a in range(0, 256):
        for b in range(0, 256):
            count('L_card_ssubset', _check_schema(L_card_ssubset(T, a, b), a, b))
    for _ in range(3000):
        b = rnd.getrandbits(rnd.randrange(1, 200))
        a = b & rnd.getrandbits(200)
        count('L_card_ssubset', _check_schema(L_card_ssubset(T, a, b), a, b))
        count('L_card_ssubset', _check_schema(L_card_ssubset(T, b, a), b, a))
    # premises violated on purpose: the instance must be vacuous, not false
    assert _check_schema(L_fmtb_shape(T, 5, 2), 5, 2) == 0 and '{0:0{1}b}'.format(5, 2) == '101'       # too narrow: the text is longer than w
    assert _check_schema(L_fmtb_shape(T, 0, 0), 0, 0) == 0 and '{0:0{1}b}'.format(0, 0) == '0'         # width 0: one character all the same
    assert _check_schema(L_card_ssubset(T, 5, 5), 5, 5) == 0 and _check_schema(L_card_ssubset(T, 6, 5), 6, 5) == 0
    assert _check_schema(L_card_insert(T, 5, 2), 5, 2) == 0
    for name in LEAN:
        if name.startswith('L_'):
            assert live.get(name, 0) > 0, 'no live instance of ' + name
    # every Lean theorem a schema names exists in lemmas/BitsBin.lean (the file itself is compiled by lemmas/build.sh)
    import os
    import re
    with open(os.path.join(os.path.dirname(os.path.dirname(os.path.abspath(__file__))), 'lemmas', 'BitsBin.lean'), encoding='utf-8') as f:
        stated = set(re.findall(r"^theorem ([A-Za-z0-9_'?]+)", f.read(), re.M))
    for name, theorems in LEAN.items():
        for th in theorems:
            assert th in stated, 'schema %s names the theorem %s, which lemmas/BitsBin.lean does not state' % (name, th)
            n_checked += 1
    if verbose:
        print(live)
    return n_checked + sum(live.values())


# ---------------------------------------------------------------------------------------------------------------------
# 2b. CPython against the Lean definitions themselves (thorough tier; needs the Lean toolchain)

LEAN_DIR = '/opt/veriftools/mathlib4'


def selftest_lean(lean_file=None):
    """Run the DEFINITIONS of lemmas/BitsBin.lean (`#eval` in a scratch copy of the file) on a sample and compare every result with
    CPython's own function.  Returns the number of comparisons."""
    import json
    import os
    import subprocess
    import tempfile
    here = os.path.dirname(os.path.dirname(os.path.abspath(__file__)))
    lean_file = lean_file or os.path.join(here, 'lemmas', 'BitsBin.lean')
    with open(lean_file, encoding='utf-8') as f:
        src = f.read()
    rnd = random.Random(11)
    numbers = list(range(0, 600)) + [(1 << e) + d for e in range(9, 70) for d in (-1, 0, 1)] \
        + [rnd.getrandbits(rnd.randrange(10, 301)) for _ in range(120)] + [(1 << 300) - 1, 1 << 300]
    widths = (0, 1, 5, 12)
    digit_texts = [''.join(t) for r in range(1, 7) for t in __import__('itertools').product('01', repeat=r)] + ['0' * 40 + '1' * 33, '1' + '0' * 70]
    q = lambda xs: '[' + ', '.join(xs) + ']'
    enc = 'fun (l : List Char) => l.map Char.toNat'
    lstr = lambda s: '[' + ', '.join('Char.ofNat %d' % ord(c) for c in s) + ']'
    nums = q(str(k) for k in numbers)
    prog = [
        'open BitsBin in', 'def selftestNumbers : List Nat := ' + nums,
        'open BitsBin in', '#eval IO.println (toString (selftestNumbers.map (fun n => (%s) (bin n))))' % enc,
        'open BitsBin in', '#eval IO.println (toString (selftestNumbers.map (fun n => (%s) (digits n))))' % enc,
        'open BitsBin in', '#eval IO.println (toString (selftestNumbers.map (fun n => (%s) (revDownTo 1 (bin n)))))' % enc,
        'open BitsBin in', "#eval IO.println (toString (selftestNumbers.map (fun n => [(bin n).count '1', ((bin n).drop 2).count '1', ((bin n).drop 2).count '0', "
                           "card n, n.size, (bin n).length])))",
        'open BitsBin in', '#eval IO.println (toString (selftestNumbers.map (fun n => (List.range (n.size + 2)).map (fun i => n.testBit i))))',
        'open BitsBin in', '#eval IO.println (toString (selftestNumbers.map (fun n => [%s].map (fun w => (%s) (fmtB w n)))))' % (', '.join(map(str, widths)), enc),
        'open BitsBin in', '#eval IO.println (toString (selftestNumbers.map (fun n => [%s].map (fun w => intOf2 (fmtB w n)))))' % ', '.join(map(str, widths)),
        'open BitsBin in', '#eval IO.println (toString ((%s : List (List Char)).map (fun s => intOf2 s)))' % q(lstr(t) for t in digit_texts),
        'open BitsBin in', '#eval IO.println (toString ((%s : List (List Char)).map (fun s => [0, 1, 2, 3].map (fun k => [(%s) (s.drop k), (%s) (revDownTo k s), (%s) s.reverse]))))'
        % (q(lstr(t) for t in digit_texts[:40]), enc, enc, enc),
    ]
    with tempfile.TemporaryDirectory() as d:
        fn = os.path.join(d, 'BitsBinSelftest.lean')
        with open(fn, 'w', encoding='utf-8') as f:
            f.write(src + '\n\n' + '\n'.join(prog) + '\n')
        out = subprocess.run(['lake', 'env', 'lean', fn], cwd=LEAN_DIR, capture_output=True, text=True, timeout=900)
    lines = [l for l in out.stdout.splitlines() if l.startswith('[')]
    assert out.returncode == 0 and len(lines) == 9, (out.returncode, out.stdout[-2000:], out.stderr[-2000:])
    vals = [json.loads(l) for l in lines]
    n = 0

    def cmp_(got, want, what, args):
        nonlocal n
        assert len(got) == len(want), what
        for g, w_, arg in zip(got, want, args):
            assert g == w_, (what, arg, g, w_)
            n += 1
    code = lambda s: [ord(c) for c in s]
    cmp_(vals[0], [code(bin(k)) for k in numbers], 'bin', numbers)
    cmp_(vals[1], [code(format(k, 'b')) for k in numbers], "format(n, 'b')", numbers)
    cmp_(vals[2], [code(bin(k)[:1:-1]) for k in numbers], 'bin(n)[:1:-1]', numbers)
    cmp_(vals[3], [[bin(k).count('1'), bin(k)[2:].count('1'), bin(k)[2:].count('0'), PyB.card(k), k.bit_length(), len(bin(k))] for k in numbers],
         "count('1'), [2:].count('1'), [2:].count('0'), card, bit_length, len", numbers)
    cmp_(vals[4], [[_c_bit(k, i) for i in range(k.bit_length() + 2)] for k in numbers], 'testBit', numbers)
    cmp_(vals[5], [[code('{0:0{1}b}'.format(k, w)) for w in widths] for k in numbers], "'{0:0{1}b}'.format(n, w)", numbers)
    cmp_(vals[6], [[int('{0:0{1}b}'.format(k, w), 2) for w in widths] for k in numbers], 'int(format(n), 2)', numbers)
    cmp_(vals[7], [int(t, 2) for t in digit_texts], 'int(s, 2)', digit_texts)
    cmp_(vals[8], [[[code(t[k:]), code(t[:k:-1]), code(t[::-1])] for k in (0, 1, 2, 3)] for t in digit_texts[:40]],
         's[k:], s[:k:-1], s[::-1]', digit_texts[:40])
    return n


if __name__ == '__main__':
    import sys
    print('selftest', selftest(verbose=True))
    if '--lean' in sys.argv:
        print('selftest_lean', selftest_lean())
