"""TEXT theory: python `str` values as lists of characters (DESIGN 11.13, lemmas/Text.lean, unit lemma.cxt.roundtrip).

Three layers, kept apart on purpose:

1. MODEL   The functions m_* below are a line-by-line python copy of the definitions of lemmas/Text.lean (strip, splitWs, split2,
           List.splitOn, List.intercalate, unlines, dec = Nat.toDigits 10, intOf = Nat.ofDigitChars 10, rowText, valueOf, pyWs).
           Everything the Lean file proves, it proves about these functions.
2. ASSUMED LIBRARY CONTRACT  "CPython's str.strip() / str.split() / str.split(sep) / sep.join / int() / f'{n:d}' / str.isspace /
           print(text, file=f) into io.StringIO(newline=None) / io.StringIO(text).read() compute these functions."  Not proved.
           VALIDATED on an enumerated scope by `selftest()` (CPython against the python copy, and CPython against every lemma
           schema below) and by `selftest_lean()` (CPython against the Lean definitions themselves, run with `#eval`, so that
           the copy in this file is not part of what is trusted in the thorough tier).
3. LEMMA SCHEMAS  `L_*(T, ...)` state each lemma ONCE, over an interpretation object T:
             Z3T   builds the z3 formulas the proof unit uses (premises are obligations, the conclusion is then assumed: it is an
                   instance of the Lean theorem named in the schema's docstring);
             PyT   evaluates the very same statement on concrete python strings with CPython's real string functions
                   (selftest: whenever the premises hold, the conclusion must hold).
           A schema returns (premises, conclusions); an item is ('fact', name, formula) or
           ('forall', name, lo, hi, body(t), pattern(t)): for all lo <= t < hi.

Vocabulary of the z3 side (sorts Txt = list of characters, Lines = list of texts; all functions uninterpreted):
    strip(x)  split_nlnl(x)  split_nl(x)  split_ws(x)  unlines(L)  join_nl(L)  cat_nl(a, b) = a + '\\n' + b  dec(k)  int_of(x)
    written(L) = what `for l in L: print(l, file=buf)` leaves in an io.StringIO(newline=None)      tlen(x)  chr_at(x, i)
    llen(L)  lat(L, i)      lit(s) one constant per python literal
    ne(x): x != ''     nonl(x): no '\\n' in x     nocr(x): no '\\r' in x     nows(x): no whitespace character in x
    lead(x): x does not start with whitespace     trail(x): x does not end with whitespace   (both hold of '')
"""
import io
import itertools

# ---------------------------------------------------------------------------------------------------------------------
# 1. the model: a python copy of the definitions of lemmas/Text.lean (texts are python strings used as lists of characters)

# pyWs: the code points CPython's str.isspace() accepts (checked against CPython over all code points by selftest)
_WS_RANGES = ((9, 13), (28, 32), (0x85, 0x85), (0xA0, 0xA0), (0x1680, 0x1680), (0x2000, 0x200A), (0x2028, 0x2028), (0x2029, 0x2029),
              (0x202F, 0x202F), (0x205F, 0x205F), (0x3000, 0x3000))


def m_ws(c):
    n = ord(c)
    return any(lo <= n <= hi for lo, hi in _WS_RANGES)


def m_drop_while(p, s):
    i = 0
    while i < len(s) and p(s[i]):
        i += 1
    return s[i:]


def m_strip(s):
    """strip ws s = (s.dropWhile ws).rdropWhile ws"""
    return m_drop_while(m_ws, m_drop_while(m_ws, s)[::-1])[::-1]


def m_split_on_p(p, s):
    """List.splitOnP: split at every character satisfying p; the separators are dropped, empty pieces are kept"""
    out, acc = [], ''
    for c in s:
        if p(c):
            out.append(acc)
            acc = ''
        else:
            acc += c
    return out + [acc]


def m_split_ws(s):
    """splitWs ws s = (s.splitOnP ws).filter (not empty)"""
    return [p for p in m_split_on_p(m_ws, s) if p != '']


def m_split1(c, s):
    """List.splitOn c s"""
    return m_split_on_p(lambda x: x == c, s)


def m_split2(a, b, s):
    """split2 a b: [] -> [[]]; [c] -> [[c]]; c :: d :: cs -> if c = a and d = b then [] :: split2 cs else modifyHead (c ::) (split2 (d :: cs))"""
    if len(s) <= 1:
        return [s]
    if s[0] == a and s[1] == b:
        return [''] + m_split2(a, b, s[2:])
    r = m_split2(a, b, s[1:])
    return [s[0] + r[0]] + r[1:]


def m_intercalate(sep, ls):
    """List.intercalate sep ls"""
    out = ''
    for i, l in enumerate(ls):
        out += (sep if i else '') + l
    return out


def m_unlines(ls):
    """unlines nl ls = (ls.map (. ++ [nl])).flatten"""
    return ''.join(l + '\n' for l in ls)


def m_dec(n):
    """dec n = Nat.toDigits 10 n:  n < 10 -> [digitChar n]  else  toDigits (n / 10) ++ [digitChar (n % 10)]  (Nat.toDigits_eq_if)"""
    return '0123456789'[n] if n < 10 else m_dec(n // 10) + '0123456789'[n % 10]


def m_int_of(s):
    """intOf s = Nat.ofDigitChars 10 s 0 = foldl (fun acc c => 10 * acc + (c.toNat - '0'.toNat)) 0 s   (natural subtraction)"""
    acc = 0
    for c in s:
        acc = 10 * acc + max(ord(c) - 48, 0)
    return acc


def m_row_text(sym_t, sym_f, row):
    """rowText symT symF row = [].intercalate (row.map fun v => [if v then symT else symF])"""
    return m_intercalate('', [sym_t if v else sym_f for v in row])


# ---------------------------------------------------------------------------------------------------------------------
# 3a. the concrete interpretation: CPython's own functions

class PyT:
    """texts = str, Lines = list of str, ints and bools python's; rows = lists of bools"""
    symbolic = False

    def __init__(self, symbols=None):
        self.symbols = symbols or {False: '.', True: 'X'}
        self.values = {s: b for b, s in self.symbols.items()}

    And = staticmethod(lambda *a: all(a))
    Or = staticmethod(lambda *a: any(a))
    Not = staticmethod(lambda a: not a)
    Implies = staticmethod(lambda a, b: (not a) or b)
    lit = staticmethod(lambda s: s)
    strip = staticmethod(lambda x: x.strip())
    split_nlnl = staticmethod(lambda x: x.split('\n\n'))
    split_nl = staticmethod(lambda x: x.split('\n'))
    split_ws = staticmethod(lambda x: x.split())
    unlines = staticmethod(m_unlines)
    join_nl = staticmethod(lambda L: '\n'.join(L))
    cat_nl = staticmethod(lambda a, b: a + '\n' + b)
    dec = staticmethod(lambda k: f'{k:d}')
    int_of = staticmethod(lambda x: int(x))
    tlen = staticmethod(len)
    chr_at = staticmethod(lambda x, i: x[i])
    llen = staticmethod(len)
    lat = staticmethod(lambda L, i: L[i] if 0 <= i < len(L) else None)       # None: no such line (every predicate is False of it)
    ne = staticmethod(lambda x: x is not None and x != '')
    nonl = staticmethod(lambda x: x is not None and '\n' not in x)
    nocr = staticmethod(lambda x: x is not None and '\r' not in x)
    nows = staticmethod(lambda x: x is not None and not any(c.isspace() for c in x))
    lead = staticmethod(lambda x: x is not None and (x == '' or not x[0].isspace()))
    trail = staticmethod(lambda x: x is not None and (x == '' or not x[-1].isspace()))

    @staticmethod
    def written(L):
        """the real thing: print every line into the buffer Format.dumps creates for a format with newline = None"""
        with io.StringIO(newline=None) as buf:
            for l in L:
                print(l, file=buf)
            return buf.getvalue()

    @staticmethod
    def read_back(x):
        """the real thing: what Format.loads hands to loadf, read"""
        with io.StringIO(x) as buf:
            return buf.read()

    def row_text(self, row):
        return ''.join(self.symbols[v] for v in row)

    row_len = staticmethod(len)
    row_cell = staticmethod(lambda row, c: row[c])

    def sym(self, b):
        return self.symbols[b]

    def is_key(self, ch):
        return ch in self.values

    def value_of(self, ch):
        return self.values[ch]


def holds(T, item):
    """truth of a schema item under the concrete interpretation"""
    if item[0] == 'fact':
        return bool(item[2])
    _, _, lo, hi, body, _ = item
    return all(body(t) for t in range(lo, hi))


# ---------------------------------------------------------------------------------------------------------------------
# 3b. the symbolic interpretation (created on demand: nothing of z3 is declared at import time)

class Z3T:
    symbolic = True

    def __init__(self):
        import z3
        self.z3 = z3
        I, B = z3.IntSort(), z3.BoolSort()
        self.Txt, self.Lines = z3.DeclareSort('Txt'), z3.DeclareSort('Lines')
        Txt, Lines = self.Txt, self.Lines
        F = z3.Function
        self.strip = F('txt.strip', Txt, Txt)
        self.split_nlnl = F('txt.split(nl+nl)', Txt, Lines)
        self.split_nl = F('txt.split(nl)', Txt, Lines)
        self.split_ws = F('txt.split()', Txt, Lines)
        self.unlines = F('txt.unlines', Lines, Txt)
        self.written = F('txt.written', Lines, Txt)
        self.read_back = F('txt.read_back', Txt, Txt)
        self.join_nl = F('txt.join(nl)', Lines, Txt)
        self.cat_nl = F('txt.cat(nl)', Txt, Txt, Txt)
        self.dec = F('txt.dec', I, Txt)
        self.int_of = F('txt.int', Txt, I)
        self.tlen = F('txt.len', Txt, I)
        self.chr_at = F('txt.chr', Txt, I, Txt)
        self.llen = F('lines.len', Lines, I)
        self.lat = F('lines.at', Lines, I, Txt)
        for nm in ('ne', 'nonl', 'nocr', 'nows', 'lead', 'trail'):
            setattr(self, nm, F('txt.' + nm, Txt, B))
        self._lit = F('txt.literal', I, Txt)
        self._codes = {}
        self.value_of = F('values', Txt, B)
        self.is_key = F('values.has_key', Txt, B)
        self.sym = None            # set by the unit: b -> Txt
        self.row_text = self.row_len = self.row_cell = None     # set by the unit (rows of the abstract table)
        self.And, self.Or, self.Not, self.Implies = z3.And, z3.Or, z3.Not, z3.Implies

    def lit(self, s):
        return self._lit(self._codes.setdefault(s, len(self._codes)))

    def literal_facts(self):
        """what the predicates say of the python literals met so far: EVALUATED with CPython on the literal itself (PyT is the meaning
        of the vocabulary); different literals are different texts"""
        P = PyT
        out = []
        for s in self._codes:
            t = self.lit(s)
            for nm in ('ne', 'nonl', 'nocr', 'nows', 'lead', 'trail'):
                out.append(('literal %r: %s' % (s, nm), getattr(self, nm)(t) == bool(getattr(P, nm)(s))))
            out.append(('literal %r: len' % s, self.tlen(t) == len(s)))
        if len(self._codes) > 1:
            out.append(('literals-distinct', self.z3.Distinct(*[self.lit(s) for s in self._codes])))
        return out

    def axioms(self):
        z3 = self.z3
        x, L = z3.Const('x', self.Txt), z3.Const('L', self.Lines)
        return [('txt.len-nonneg', z3.ForAll([x], self.tlen(x) >= 0, patterns=[self.tlen(x)])),
                ('lines.len-nonneg', z3.ForAll([L], self.llen(L) >= 0, patterns=[self.llen(L)])),
                # definition of ne
                ('txt.ne-is-positive-length', z3.ForAll([x], self.ne(x) == (self.tlen(x) > 0), patterns=[self.ne(x)]))]


# ---------------------------------------------------------------------------------------------------------------------
# 3c. the lemma schemas.  Every schema: (premises, conclusions); the docstring names the Lean theorem (lemmas/Text.lean) or says
#     'library assumption'.

def L_written(T, All):
    """LIBRARY ASSUMPTION (not Lean): print(l, file=buf) for every line l, buf = io.StringIO(newline=None), leaves in buf the lines
    each followed by '\\n' -- provided no line contains '\\r' (universal-newlines translation on write would turn it into '\\n');
    and io.StringIO(text).read() gives text back."""
    prem = [('forall', 'no-carriage-return-in-a-line', 0, T.llen(All), lambda t: T.nocr(T.lat(All, t)), lambda t: T.lat(All, t))]
    W = T.written(All)
    return prem, [('fact', 'written-text', T.And(W == T.unlines(All), T.read_back(W) == W))]


def L_source_parts(T, B, N, M, All, Tbl):
    """Text.cxt_source_parts: All = [B, '', N, M, ''] ++ Tbl; B, N, M non-empty without whitespace; Tbl non-empty, its lines non-empty
    without '\\n', the last one not ending with whitespace  ==>  unlines(All).strip().split('\\n\\n') == [B, N + '\\n' + M, '\\n'.join(Tbl)]"""
    e = T.lit('')
    prem = [('fact', 'lines-are-header-then-table', T.And(T.llen(All) == 5 + T.llen(Tbl), T.lat(All, 0) == B, T.lat(All, 1) == e,
                                                       T.lat(All, 2) == N, T.lat(All, 3) == M, T.lat(All, 4) == e)),
            ('forall', 'lines-after-the-header-are-the-table', 0, T.llen(Tbl), lambda t: T.lat(All, 5 + t) == T.lat(Tbl, t),
             lambda t: T.lat(Tbl, t)),
            ('fact', 'header-word-nonempty-without-whitespace', T.And(T.ne(B), T.nows(B))),
            ('fact', 'first-number-nonempty-without-whitespace', T.And(T.ne(N), T.nows(N))),
            ('fact', 'second-number-nonempty-without-whitespace', T.And(T.ne(M), T.nows(M))),
            ('fact', 'table-has-a-line', T.llen(Tbl) >= 1),
            ('forall', 'table-lines-nonempty-without-newline', 0, T.llen(Tbl),
             lambda t: T.And(T.ne(T.lat(Tbl, t)), T.nonl(T.lat(Tbl, t))), lambda t: T.lat(Tbl, t)),
            ('fact', 'last-line-does-not-end-with-whitespace', T.Implies(T.llen(Tbl) >= 1, T.trail(T.lat(Tbl, T.llen(Tbl) - 1))))]
    S = T.split_nlnl(T.strip(T.unlines(All)))
    return prem, [('fact', 'three-parts', T.And(T.llen(S) == 3, T.lat(S, 0) == B, T.lat(S, 1) == T.cat_nl(N, M),
                                                T.lat(S, 2) == T.join_nl(Tbl)))]


def L_numbers(T, N, M):
    """Text.splitWs_pair: N, M non-empty without whitespace  ==>  (N + '\\n' + M).split() == [N, M]"""
    prem = [('fact', 'first-nonempty-without-whitespace', T.And(T.ne(N), T.nows(N))),
            ('fact', 'second-nonempty-without-whitespace', T.And(T.ne(M), T.nows(M)))]
    S = T.split_ws(T.cat_nl(N, M))
    return prem, [('fact', 'two-numbers', T.And(T.llen(S) == 2, T.lat(S, 0) == N, T.lat(S, 1) == M))]


def L_dec(T, k):
    """Text.intOf_dec, Text.dec_ne_nil, Text.dec_not_ws: for k >= 0, int(f'{k:d}') == k and f'{k:d}' is non-empty without whitespace"""
    d = T.dec(k)
    return [('fact', 'natural-number', k >= 0)], [('fact', 'decimal', T.And(T.int_of(d) == k, T.ne(d), T.nows(d)))]


def L_nows(T, x):
    """Text.nows_facts: a text without whitespace characters does not start or end with one and contains neither '\\n' nor '\\r'"""
    return [('fact', 'no-whitespace', T.nows(x))], [('fact', 'edges-and-line-ends', T.And(T.lead(x), T.trail(x), T.nonl(x), T.nocr(x)))]


def L_table_lines(T, Tbl):
    """Text.table_lines: Tbl non-empty, lines non-empty without '\\n', the first not starting and the last not ending with whitespace
    ==>  '\\n'.join(Tbl).strip().split('\\n') == Tbl"""
    prem = [('fact', 'table-has-a-line', T.llen(Tbl) >= 1),
            ('forall', 'table-lines-nonempty-without-newline', 0, T.llen(Tbl),
             lambda t: T.And(T.ne(T.lat(Tbl, t)), T.nonl(T.lat(Tbl, t))), lambda t: T.lat(Tbl, t)),
            ('fact', 'first-line-does-not-start-with-whitespace', T.Implies(T.llen(Tbl) >= 1, T.lead(T.lat(Tbl, 0)))),
            ('fact', 'last-line-does-not-end-with-whitespace', T.Implies(T.llen(Tbl) >= 1, T.trail(T.lat(Tbl, T.llen(Tbl) - 1))))]
    return prem, [('fact', 'lines-back', T.split_nl(T.strip(T.join_nl(Tbl))) == Tbl)]


def L_split_join(T, L):
    """Text.split_join (core List.splitOn_intercalate): a NON-EMPTY list of lines without '\\n' (empty lines allowed)  ==>
    '\\n'.join(L).split('\\n') == L.   For L == [] it is false: ''.split('\\n') == [''] (Text.split_join_nil).  Not needed by the
    cxt units (L_table_lines subsumes it there); part of the library."""
    prem = [('fact', 'at-least-one-line', T.llen(L) >= 1),
            ('forall', 'lines-without-newline', 0, T.llen(L), lambda t: T.nonl(T.lat(L, t)), lambda t: T.lat(L, t))]
    return prem, [('fact', 'lines-back', T.split_nl(T.join_nl(L)) == L)]


def L_strip_id(T, x):
    """Text.strip_eq_self: a text that neither starts nor ends with whitespace is its own strip()"""
    return [('fact', 'no-whitespace-at-the-edges', T.And(T.lead(x), T.trail(x)))], [('fact', 'strip-is-identity', T.strip(x) == x)]


def L_row(T, row):
    """Text.length_rowText, Text.rowText_facts, Text.mem_rowText, Text.values_rowText_any: the symbols are two different
    one-character texts, neither whitespace (hence not '\\n')  ==>  ''.join(symbols[v] for v in row) has one character per cell, no
    whitespace, is non-empty if the row is, and its c-th character is a key of values with values[character] == row[c]"""
    st, sf = T.sym(True), T.sym(False)
    prem = [('fact', 'symbols-are-single-characters', T.And(T.tlen(st) == 1, T.tlen(sf) == 1)),
            ('fact', 'symbols-differ', T.Not(st == sf)),
            ('fact', 'symbols-are-not-whitespace', T.And(T.nows(st), T.nows(sf))),
            ('fact', 'values-inverts-symbols', T.And(T.is_key(st), T.is_key(sf), T.value_of(st) == True, T.value_of(sf) == False))]    # noqa: E712
    x = T.row_text(row)
    n = T.row_len(row)
    return prem, [('fact', 'row-text', T.And(T.tlen(x) == n, T.nows(x), T.Implies(n >= 1, T.ne(x)))),
                  ('forall', 'row-characters', 0, n,
                   lambda c: T.And(T.is_key(T.chr_at(x, c)), T.value_of(T.chr_at(x, c)) == T.row_cell(row, c)),
                   lambda c: T.chr_at(x, c))]


LEAN = {'L_source_parts': ['cxt_source_parts'], 'L_numbers': ['splitWs_pair'], 'L_dec': ['intOf_dec', 'dec_ne_nil', 'dec_not_ws'],
        'L_nows': ['nows_facts'], 'L_table_lines': ['table_lines'], 'L_split_join': ['split_join', 'split_join_nil'], 'L_strip_id': ['strip_eq_self'],
        'L_row': ['length_rowText', 'rowText_facts', 'mem_rowText', 'values_rowText_any'], 'L_written': []}


# ---------------------------------------------------------------------------------------------------------------------
# 2. validation against CPython

ALPHABET = ('a', ' ', '\n', 'X', '.', '0', '\t', '\r', '\x1c', '\x85', '\xa0', '　', ' ', '\x0c', 'B')


def _texts(alphabet, maxlen):
    for r in range(maxlen + 1):
        for t in itertools.product(alphabet, repeat=r):
            yield ''.join(t)


def _check_schema(T, prem, concl):
    """-> 1 if the premises hold (then the conclusions must), 0 if the instance is vacuous"""
    if not all(holds(T, p) for p in prem):
        return 0
    for c in concl:
        assert holds(T, c), ('schema conclusion fails', c[1])
    return 1


def selftest(maxlen=5, verbose=False):
    """CPython against the model and against every lemma schema, on an enumerated scope.  Returns the number of instances checked
    (for the schemas: the number of NON-VACUOUS instances, i.e. with all premises true)."""
    import sys
    n = 0
    live = {}
    # str.isspace for every code point (surrogates included: python strings may hold them)
    for cp in range(sys.maxunicode + 1):
        assert chr(cp).isspace() == m_ws(chr(cp)), hex(cp)
        n += 1
    # strip / split() / split(c) / split(a+b) / join against the model
    small = ('a', ' ', '\n', '\t', '\x1c', '　', 'b')
    for s in _texts(small, maxlen):
        assert s.strip() == m_strip(s), repr(s)
        assert s.split() == m_split_ws(s), repr(s)
        assert s.split('\n') == m_split1('\n', s), repr(s)
        for a, b in (('\n', '\n'), ('a', 'b'), ('a', 'a')):
            assert s.split(a + b) == m_split2(a, b, s), repr(s)
        n += 6
    for s in _texts(('a', '\n', ' '), maxlen + 3):
        assert s.split('\n\n') == m_split2('\n', '\n', s) and s.split('\n') == m_split1('\n', s) and s.strip() == m_strip(s), repr(s)
        n += 3
    pieces = list(_texts(('a', '\n', 'b'), 2))
    for k in range(0, 4):
        for ls in itertools.product(pieces, repeat=k):
            ls = list(ls)
            for sep in ('\n', '\n\n', '', 'ab'):
                assert sep.join(ls) == m_intercalate(sep, ls)
            assert PyT.written(ls) == m_unlines(ls)
            n += 5
    # print / StringIO with carriage returns: the translation the assumption excludes does happen
    assert PyT.written(['a\rb']) == 'a\nb\n' and PyT.written(['a\r\nb']) == 'a\nb\n' and PyT.read_back('a\rb\r\n') == 'a\rb\r\n'
    # numbers
    for k in list(range(0, 3000)) + [10 ** e + d for e in range(3, 40) for d in (-1, 0, 1)]:
        assert f'{k:d}' == m_dec(k) == str(k) and int(m_dec(k)) == m_int_of(m_dec(k)) == k
        n += 1
    for s in _texts('0123456789', 4):
        if s:
            assert int(s) == m_int_of(s)
            n += 1
    # rows
    for sym_t, sym_f in (('X', '.'), ('1', '0'), ('a', 'b')):
        for k in range(0, 6):
            for row in itertools.product((False, True), repeat=k):
                assert ''.join({False: sym_f, True: sym_t}[v] for v in row) == m_row_text(sym_t, sym_f, row)
                n += 1

    # the lemma schemas, evaluated with CPython's functions
    def count(name, k):
        live[name] = live.get(name, 0) + k
    T = PyT()
    words = [w for w in _texts(('a', ' ', '\n', '\r', '\t', '0'), 3)]
    for x in _texts(ALPHABET, 3):
        count('L_strip_id', _check_schema(T, *L_strip_id(T, x)))
        count('L_nows', _check_schema(T, *L_nows(T, x)))
    for k in list(range(0, 1200)) + [-1, -5, 10 ** 20]:
        count('L_dec', _check_schema(T, *L_dec(T, k)))
    nums = ['', '0', '7', '12', ' 1', '1 ', 'a', '1\n2', '\t', '305']
    for N in nums:
        for M in nums:
            count('L_numbers', _check_schema(T, *L_numbers(T, N, M)))
    lines = ['', 'a', ' ', 'a b', ' a', 'a ', 'a\nb', 'a\n', '\na', 'X.', 'a\rb', '\x1ca', 'a　', '0', '\n']
    for k in range(0, 4):
        for Tbl in itertools.product(lines, repeat=k):
            Tbl = list(Tbl)
            count('L_table_lines', _check_schema(T, *L_table_lines(T, Tbl)))
            count('L_split_join', _check_schema(T, *L_split_join(T, Tbl)))
            count('L_written', _check_schema(T, *L_written(T, Tbl)))
            for B, N, M in (('B', '2', '13'), ('B', '', '1'), ('', '1', '1'), ('B', '1', ''), ('B ', '1', '1'), ('B', '1 0', '1'), ('B', '1', '\n1'),
                            ('ab', '00', '7')):
                All = [B, '', N, M, ''] + Tbl
                count('L_source_parts', _check_schema(T, *L_source_parts(T, B, N, M, All, Tbl)))
            # a wrong description of the lines must make the instance vacuous, not false
            count('L_source_parts/misdescribed', _check_schema(T, *L_source_parts(T, 'B', '1', '1', ['B', '', '1', '1'] + Tbl, Tbl)))
    for symbols in ({False: '.', True: 'X'}, {False: '0', True: '1'}, {False: 'X', True: 'X'}, {False: ' ', True: 'X'}, {False: '..', True: 'X'},
                    {False: '\n', True: 'X'}):
        Ts = PyT(symbols)
        for k in range(0, 6):
            for row in itertools.product((False, True), repeat=k):
                count('L_row', _check_schema(Ts, *L_row(Ts, list(row))))
    assert live.pop('L_source_parts/misdescribed') == 0
    assert '\n'.join([]).split('\n') == [''] and m_split1('\n', m_intercalate('\n', [])) == ['']      # split_join_nil
    for name in LEAN:
        assert live.get(name, 0) > 0, 'no live instance of ' + name
    if verbose:
        print(live)
    return n + sum(live.values())


# ---------------------------------------------------------------------------------------------------------------------
# 2b. CPython against the Lean definitions themselves (thorough tier; needs the Lean toolchain)

LEAN_DIR = '/opt/veriftools/mathlib4'


def _lean_str(s):
    return '[' + ', '.join('Char.ofNat %d' % ord(c) for c in s) + ']'


def _lean_unstr(cs):
    return ''.join(chr(c) for c in cs)


def selftest_lean(maxlen=4, lean_file=None):
    """Run the DEFINITIONS of lemmas/Text.lean (`#eval`, on an enumerated scope written into a scratch copy of the file) and compare
    every result with CPython's own function.  Returns the number of comparisons."""
    import json
    import os
    import subprocess
    import tempfile
    here = os.path.dirname(os.path.dirname(os.path.abspath(__file__)))
    lean_file = lean_file or os.path.join(here, 'lemmas', 'Text.lean')
    with open(lean_file, encoding='utf-8') as f:
        src = f.read()
    texts = list(_texts(('a', ' ', '\n', '\t', '　'), maxlen)) + list(_texts(('a', '\n'), maxlen + 3)) \
        + ['B\n\n2\n2\n\na\nb\nc\nd\nX.\n.X\n', ' \n x\ny \n\n', '\x1ca\x85', '12\n7', '\r\n a\r']
    numbers = list(range(0, 130)) + [999, 1000, 1001, 65535, 65536, 10 ** 12, 10 ** 30 + 7]
    digit_texts = [t for t in _texts('0179', 3) if t]
    rows = [list(r) for k in range(0, 4) for r in itertools.product((False, True), repeat=k)]
    codepoints = list(range(0, 0x3100)) + [0xFEFF, 0x1F600, 0x10FFFF]
    q = lambda xs: '[' + ', '.join(xs) + ']'
    enc = 'fun (l : List Char) => l.map Char.toNat'
    prog = [
        'open Text in',
        'def selftestTexts : List (List Char) := ' + q(_lean_str(t) for t in texts),
        'open Text in',
        '#eval IO.println (toString ((selftestTexts.map (fun s => (%s) (strip pyWs s)))))' % enc,
        'open Text in',
        '#eval IO.println (toString ((selftestTexts.map (fun s => (splitWs pyWs s).map (%s)))))' % enc,
        'open Text in',
        "#eval IO.println (toString ((selftestTexts.map (fun s => (split2 '\\n' '\\n' s).map (%s)))))" % enc,
        'open Text in',
        "#eval IO.println (toString ((selftestTexts.map (fun s => (s.splitOn '\\n').map (%s)))))" % enc,
        'open Text in',
        "#eval IO.println (toString ((selftestTexts.map (fun s => (%s) (unlines '\\n' (s.splitOn 'a'))))))" % enc,
        'open Text in',
        "#eval IO.println (toString ((selftestTexts.map (fun s => (%s) ([' ', 'a'].intercalate (s.splitOn '\\n'))))))" % enc,
        'open Text in',
        '#eval IO.println (toString ((%s).map (fun n => (%s) (dec n))))' % (q(str(k) for k in numbers), enc),
        'open Text in',
        '#eval IO.println (toString ((%s).map (fun s => intOf s)))' % q(_lean_str(t) for t in digit_texts),
        'open Text in',
        "#eval IO.println (toString ((%s : List (List Bool)).map (fun r => (%s) (rowText 'X' '.' r))))" % (
            q(q('true' if v else 'false' for v in r) for r in rows), enc),
        'open Text in',
        '#eval IO.println (toString (((List.range %d) ++ %s).map (fun n => pyWs (Char.ofNat n))))' % (0x3100, q(str(c) for c in codepoints[0x3100:])),
    ]
    with tempfile.TemporaryDirectory() as d:
        fn = os.path.join(d, 'TextSelftest.lean')
        with open(fn, 'w', encoding='utf-8') as f:
            f.write(src + '\n\n' + '\n'.join(prog) + '\n')
        out = subprocess.run(['lake', 'env', 'lean', fn], cwd=LEAN_DIR, capture_output=True, text=True, timeout=900)
    lines = [l for l in out.stdout.splitlines() if l.startswith('[')]
    assert out.returncode == 0 and len(lines) == 10, (out.returncode, out.stdout[-2000:], out.stderr[-2000:])
    vals = [json.loads(l) for l in lines]
    n = 0

    def cmp_(got, want, what):
        nonlocal n
        assert len(got) == len(want), what
        for g, w, arg in zip(got, want, what[1]):
            assert g == w, (what[0], arg, g, w)
            n += 1
    code = lambda s: [ord(c) for c in s]
    cmp_(vals[0], [code(t.strip()) for t in texts], ('strip', texts))
    cmp_(vals[1], [[code(p) for p in t.split()] for t in texts], ('split()', texts))
    cmp_(vals[2], [[code(p) for p in t.split('\n\n')] for t in texts], ('split(nl+nl)', texts))
    cmp_(vals[3], [[code(p) for p in t.split('\n')] for t in texts], ('split(nl)', texts))
    # print into StringIO(newline=None): equal to unlines unless a carriage return is written (the premise of L_written)
    keep = [i for i, t in enumerate(texts) if '\r' not in t]
    assert len(keep) < len(texts) and all(vals[4][i] != code(PyT.written(texts[i].split('a'))) for i in range(len(texts)) if i not in keep)
    cmp_([vals[4][i] for i in keep], [code(PyT.written(texts[i].split('a'))) for i in keep], ('print each line', [texts[i] for i in keep]))
    cmp_(vals[5], [code(' a'.join(t.split('\n'))) for t in texts], ('join', texts))
    cmp_(vals[6], [code(f'{k:d}') for k in numbers], ('format d', numbers))
    cmp_(vals[7], [int(t) for t in digit_texts], ('int', digit_texts))
    cmp_(vals[8], [code(''.join({False: '.', True: 'X'}[v] for v in r)) for r in rows], ('row text', rows))
    cmp_(vals[9], [chr(c).isspace() for c in codepoints], ('isspace', codepoints))
    return n


if __name__ == '__main__':
    import sys
    print('selftest', selftest(verbose=True))
    if '--lean' in sys.argv:
        print('selftest_lean', selftest_lean())
