"""TEXT theory: python `str` values as lists of characters (DESIGN 11.13, lemmas/Text.lean, unit lemma.cxt.roundtrip).

Three layers, kept apart on purpose:

1. MODEL   The functions m_* below are a line-by-line python copy of the definitions of lemmas/Text.lean (strip, splitWs, split2,
           List.splitOn, List.intercalate, unlines, dec = Nat.toDigits 10, intOf = Nat.ofDigitChars 10, rowText, valueOf, pyWs).
           Everything the Lean file proves, it proves about these functions.
2. ASSUMED LIBRARY CONTRACT  "CPython's str.strip() / str.split() / str.split(sep) / sep.join / int() / f'{n:d}' / str.isspace /
           print(text, file=f) into io.StringIO(newline=None) / io.StringIO(text).read() compute these functions."  Not proved.
           VALIDATED on an enumerated scope by `selftest()` (CPython against the python copy, and CPython against every lemma
           schema below) and by `selftest_lean()` (CPython against the Lean definitions themselves, run with `#eval`, so that
           the copy in this file is not part of what is trusted in the thorough tier).
3. LEMMA SCHEMAS  `L_*(T, ...)` state each lemma ONCE, over an interpretation object T:
             Z3T   builds the z3 formulas the proof unit uses (premises are obligations, the conclusion is then assumed: it is an
                   instance of the Lean theorem named in the schema's docstring);
             PyT   evaluates the very same statement on concrete python strings with CPython's real string functions
                   (selftest: whenever the premises hold, the conclusion must hold).
           A schema returns (premises, conclusions); an item is ('fact', name, formula) or
           ('forall', name, lo, hi, body(t), pattern(t)): for all lo <= t < hi.

The csv format (DESIGN 11.18): the model m_csv_* copies lemmas/TextCsv.lean (the writer's quoting rule, the reader's state machine, in the excel
dialect), class Z3TC is its z3 vocabulary, schema L_csv_excel its one lemma; _selftest_csv_model / _selftest_csv_schemas / selftest_lean_csv validate
"CPython's csv module computes these definitions in this dialect".

Vocabulary of the z3 side (sorts Txt = list of characters, Lines = list of texts; all functions uninterpreted):
    strip(x)  split_nlnl(x)  split_nl(x)  split_ws(x)  unlines(L)  join_nl(L)  cat_nl(a, b) = a + '\\n' + b  dec(k)  int_of(x)
    written(L) = what `for l in L: print(l, file=buf)` leaves in an io.StringIO(newline=None)      tlen(x)  chr_at(x, i)
    llen(L)  lat(L, i)      lit(s) one constant per python literal
    ne(x): x != ''     nonl(x): no '\\n' in x     nocr(x): no '\\r' in x     nows(x): no whitespace character in x
    lead(x): x does not start with whitespace     trail(x): x does not end with whitespace   (both hold of '')
"""
import io
import itertools

# ---------------------------------------------------------------------------------------------------------------------
# 1. the model: a python copy of the definitions of lemmas/Text.lean (texts are python strings used as lists of characters)

# pyWs: the code points CPython's str.isspace() accepts (checked against CPython over all code points by selftest)
_WS_RANGES = ((9, 13), (28, 32), (0x85, 0x85), (0xA0, 0xA0), (0x1680, 0x1680), (0x2000, 0x200A), (0x2028, 0x2028), (0x2029, 0x2029),
              (0x202F, 0x202F), (0x205F, 0x205F), (0x3000, 0x3000))


def m_ws(c):
    n = ord(c)
    return any(lo <= n <= hi for lo, hi in _WS_RANGES)


def m_drop_while(p, s):
    i = 0
    while i < len(s) and p(s[i]):
        i += 1
    return s[i:]


def m_strip(s):
    """strip ws s = (s.dropWhile ws).rdropWhile ws"""
    return m_drop_while(m_ws, m_drop_while(m_ws, s)[::-1])[::-1]


def m_split_on_p(p, s):
    """List.splitOnP: split at every character satisfying p; the separators are dropped, empty pieces are kept"""
    out, acc = [], ''
    for c in s:
        if p(c):
            out.append(acc)
            acc = ''
        else:
            acc += c
    return out + [acc]


def m_split_ws(s):
    """splitWs ws s = (s.splitOnP ws).filter (not empty)"""
    return [p for p in m_split_on_p(m_ws, s) if p != '']


def m_split1(c, s):
    """List.splitOn c s"""
    return m_split_on_p(lambda x: x == c, s)


def m_split2(a, b, s):
    """split2 a b: [] -> [[]]; [c] -> [[c]]; c :: d :: cs -> if c = a and d = b then [] :: split2 cs else modifyHead (c ::) (split2 (d :: cs))"""
    if len(s) <= 1:
        return [s]
    if s[0] == a and s[1] == b:
        return [''] + m_split2(a, b, s[2:])
    r = m_split2(a, b, s[1:])
    return [s[0] + r[0]] + r[1:]


def m_intercalate(sep, ls):
    """List.intercalate sep ls"""
    out = ''
    for i, l in enumerate(ls):
        out += (sep if i else '') + l
    return out


def m_unlines(ls):
    """unlines nl ls = (ls.map (. ++ [nl])).flatten"""
    return ''.join(l + '\n' for l in ls)


def m_dec(n):
    """dec n = Nat.toDigits 10 n:  n < 10 -> [digitChar n]  else  toDigits (n / 10) ++ [digitChar (n % 10)]  (Nat.toDigits_eq_if)"""
    return '0123456789'[n] if n < 10 else m_dec(n // 10) + '0123456789'[n % 10]


def m_int_of(s):
    """intOf s = Nat.ofDigitChars 10 s 0 = foldl (fun acc c => 10 * acc + (c.toNat - '0'.toNat)) 0 s   (natural subtraction)"""
    acc = 0
    for c in s:
        acc = 10 * acc + max(ord(c) - 48, 0)
    return acc


def m_row_text(sym_t, sym_f, row):
    """rowText symT symF row = [].intercalate (row.map fun v => [if v then symT else symF])"""
    return m_intercalate('', [sym_t if v else sym_f for v in row])


# ---- the table format and the FIMI rows (lemmas/Text.lean, section "the table format")

def m_ljust(w, s):
    """ljust sp w s = s ++ replicate (w - s.length) sp   (natural subtraction)"""
    return s + ' ' * max(w - len(s), 0)


def m_rjust(w, s):
    """rjust sp w s = replicate (w - s.length) sp ++ s"""
    return ' ' * max(w - len(s), 0) + s


def m_lstrip(p, s):
    """lstrip ws s = s.dropWhile ws"""
    return m_drop_while(p, s)


def m_rstrip(p, s):
    """rstrip ws s = s.rdropWhile ws"""
    return m_drop_while(p, s[::-1])[::-1]


def m_strip_c(c, s):
    """stripC c s = strip (. = c) s"""
    return m_rstrip(lambda x: x == c, m_lstrip(lambda x: x == c, s))


def m_before(sep, s):
    """before sep s = s.takeWhile (. != sep)"""
    i = 0
    while i < len(s) and s[i] != sep:
        i += 1
    return s[:i]


def m_after(sep, s):
    """after sep s = (s.dropWhile (. != sep)).tail"""
    return m_drop_while(lambda x: x != sep, s)[1:]


def m_pct_format(tmpl, args):
    """pctFormat tmpl args = pctGo .lit tmpl args: the template read character by character in one of the states lit / flag (behind '%') /
    width left w; None = outside the fragment (literal text, '%[-]<digits>s') or not as many arguments as conversions"""
    state, out, args = ('lit',), '', list(args)
    for c in tmpl:
        digit = '0' <= c <= '9'
        if state[0] == 'lit':
            if c == '%':
                state = ('flag',)
            else:
                out += c
            continue
        if state[0] == 'flag':
            if c == '-':
                state = ('width', True, 0)
                continue
            if digit:
                state = ('width', False, ord(c) - 48)
                continue
            state = ('width', False, 0)          # 's' or anything else: as in the width state with no digit read
        _, left, w = state
        if digit:
            state = ('width', left, 10 * w + (ord(c) - 48))
        elif c == 's' and args:
            a = args.pop(0)
            out += m_ljust(w, a) if left else m_rjust(w, a)
            state = ('lit',)
        else:
            return None
    return out if state == ('lit',) and not args else None


def m_col_template(left, w):
    """colTemplate left w = '%' :: ((if left then ['-'] else []) ++ (dec w ++ ['s']))"""
    return '%' + ('-' if left else '') + m_dec(w) + 's'


def m_sep_of(sep, s):
    """sepOf sep s = if sep in s then [sep] else []"""
    return sep if sep in s else ''


def m_lines_keep(s):
    """linesKeep nl: [] -> []; c :: cs -> if c = nl then [c] :: linesKeep cs else (linesKeep cs with c put in front of its first line, or [[c]])"""
    out, acc = [], ''
    for c in s:
        acc += c
        if c == '\n':
            out.append(acc)
            acc = ''
    return out + ([acc] if acc else [])


def m_csv_fields(l):
    """csvFields sp l = if l = [] then [] else l.splitOn sp"""
    return [] if l == '' else m_split1(' ', l)


def m_chomp(l):
    """chomp nl l = if l.getLast? = some nl then l.dropLast else l"""
    return l[:-1] if l[-1:] == '\n' else l


def m_csv_rows(text):
    """csvRows nl sp text = (linesKeep nl text).map (fun l => csvFields sp (chomp nl l))"""
    return [m_csv_fields(m_chomp(l)) for l in m_lines_keep(text)]


# ---- the csv module in the excel dialect (lemmas/TextCsv.lean): the writer's quoting rule, the reader's state machine

EXCEL_DIALECT = {'delimiter': ',', 'quotechar': '"', 'escapechar': None, 'doublequote': True, 'skipinitialspace': False,
                 'lineterminator': '\r\n', 'quoting': 'QUOTE_MINIMAL', 'strict': False}


def m_csv_special(c):
    """special c: the delimiter, the quotechar, the characters of the lineterminator"""
    return c == ',' or c == '"' or c == '\r' or c == '\n'


def m_csv_needs_quote(f):
    return any(m_csv_special(c) for c in f)


def m_csv_escape(f):
    """escape f = f.flatMap fun c => if c = '"' then ['"', '"'] else [c]"""
    return ''.join('""' if c == '"' else c for c in f)


def m_csv_quoted(f):
    return '"' + m_csv_escape(f) + '"'


def m_csv_write_field(f):
    return m_csv_quoted(f) if m_csv_needs_quote(f) else f


def m_csv_row_body(r):
    """rowBody r = if r = [[]] then quoted [] else [','].intercalate (r.map writeField)"""
    return m_csv_quoted('') if list(r) == [''] else m_intercalate(',', [m_csv_write_field(f) for f in r])


def m_csv_write_row(r):
    return m_csv_row_body(r) + '\r\n'


def m_csv_write_rows(rs):
    return ''.join(m_csv_write_row(r) for r in rs)


def _csv_break(c):
    return c == '\n' or c == '\r'


def _csv_add(lim, s, c, st):
    """addChar: None (_csv.Error, field larger than field limit) when the field already has lim characters"""
    _, field, fields = s
    return (st, field + c, fields) if len(field) < lim else None


def _csv_save(s, st):
    _, field, fields = s
    return (st, '', fields + [field])


def _csv_step_start_field(lim, s, t):
    if t is None:
        return _csv_save(s, 'startRecord')
    if _csv_break(t):
        return _csv_save(s, 'eatCrnl')
    if t == '"':
        return ('inQuoted',) + s[1:]
    if t == ',':
        return _csv_save(s, 'startField')
    return _csv_add(lim, s, t, 'inField')


def m_csv_step(lim, s, t):
    """step lim s t: the state (st, field, fields) behind the token t (a character, or None = the end of a line); None = _csv.Error"""
    st = s[0]
    if st == 'startRecord':
        if t is None:
            return s
        return ('eatCrnl',) + s[1:] if _csv_break(t) else _csv_step_start_field(lim, s, t)
    if st == 'startField':
        return _csv_step_start_field(lim, s, t)
    if st == 'inField':
        if t is None:
            return _csv_save(s, 'startRecord')
        if _csv_break(t):
            return _csv_save(s, 'eatCrnl')
        if t == ',':
            return _csv_save(s, 'startField')
        return _csv_add(lim, s, t, 'inField')
    if st == 'inQuoted':
        if t is None:
            return s
        return ('quoteInQuoted',) + s[1:] if t == '"' else _csv_add(lim, s, t, 'inQuoted')
    if st == 'quoteInQuoted':
        if t is None:
            return _csv_save(s, 'startRecord')
        if t == '"':
            return _csv_add(lim, s, t, 'inQuoted')
        if t == ',':
            return _csv_save(s, 'startField')
        if _csv_break(t):
            return _csv_save(s, 'eatCrnl')
        return _csv_add(lim, s, t, 'inField')
    assert st == 'eatCrnl'
    if t is None:
        return ('startRecord',) + s[1:]
    return s if _csv_break(t) else None


def m_csv_read_lines(lim, lines):
    """csvReadLines lim lines = run lim init (toks lines): the rows, or None (_csv.Error)"""
    init = ('startRecord', '', [])
    s, rows = init, []
    for l in lines:
        for t in list(l) + [None]:
            s = m_csv_step(lim, s, t)
            if s is None:
                return None
        if s[0] == 'startRecord':           # behind an end-of-line token: the record is complete
            rows.append(s[2])
            s = init
    if s[0] == 'inQuoted':                  # the lines end inside a quoted field: the field and the record are closed
        rows.append(s[2] + [s[1]])
    return rows


def m_csv_read_rows(lim, text):
    """csvReadRows lim text = csvReadLines lim (linesKeep '\\n' text)"""
    return m_csv_read_lines(lim, m_lines_keep(text))


def m_lines_univ(s):
    """the lines of a file opened with newline='': cut behind '\\n', behind '\\r\\n' and behind a '\\r' that no '\\n' follows (NOT in the
    Lean file: used by the self-test only, to run the reader's state machine on one more way of cutting a text into lines)"""
    out, acc, i = [], '', 0
    while i < len(s):
        acc += s[i]
        if s[i] == '\n' or (s[i] == '\r' and s[i + 1:i + 2] != '\n'):
            out.append(acc)
            acc = ''
        i += 1
    return out + ([acc] if acc else [])


# ---------------------------------------------------------------------------------------------------------------------
# 3a. the concrete interpretation: CPython's own functions

def _total(f):
    """f with None ("no such text / no such list", the value of an out-of-range lat) passed through"""
    def g(*a):
        return None if any(x is None for x in a) else f(*a)
    return g


class PyT:
    """texts = str, Lines = list of str, ints and bools python's; rows = lists of bools"""
    symbolic = False

    def __init__(self, symbols=None):
        self.symbols = symbols or {False: '.', True: 'X'}
        self.values = {s: b for b, s in self.symbols.items()}

    And = staticmethod(lambda *a: all(a))
    Or = staticmethod(lambda *a: any(a))
    Not = staticmethod(lambda a: not a)
    Implies = staticmethod(lambda a, b: (not a) or b)
    lit = staticmethod(lambda s: s)
    strip = staticmethod(lambda x: None if x is None else x.strip())
    split_nlnl = staticmethod(lambda x: x.split('\n\n'))
    split_nl = staticmethod(lambda x: x.split('\n'))
    split_ws = staticmethod(lambda x: x.split())
    unlines = staticmethod(m_unlines)
    join_nl = staticmethod(lambda L: '\n'.join(L))
    cat_nl = staticmethod(lambda a, b: a + '\n' + b)
    dec = staticmethod(lambda k: f'{k:d}')
    int_of = staticmethod(lambda x: int(x))
    tlen = staticmethod(lambda x: -1 if x is None else len(x))
    chr_at = staticmethod(lambda x, i: x[i])
    llen = staticmethod(len)
    lat = staticmethod(lambda L, i: L[i] if 0 <= i < len(L) else None)       # None: no such line (every predicate is False of it)
    ne = staticmethod(lambda x: x is not None and x != '')
    nonl = staticmethod(lambda x: x is not None and '\n' not in x)
    nocr = staticmethod(lambda x: x is not None and '\r' not in x)
    nows = staticmethod(lambda x: x is not None and not any(c.isspace() for c in x))
    lead = staticmethod(lambda x: x is not None and (x == '' or not x[0].isspace()))
    trail = staticmethod(lambda x: x is not None and (x == '' or not x[-1].isspace()))

    # ---- the table format and the FIMI rows: CPython's own functions again (None = "no such text": passed through)
    cat = staticmethod(_total(lambda a, b: a + b))
    blanks = staticmethod(lambda k: ' ' * k)
    ljust = staticmethod(_total(lambda x, w: x.ljust(w)))
    rjust = staticmethod(_total(lambda x, w: x.rjust(w)))
    lstrip = staticmethod(_total(lambda x: x.lstrip()))
    rstrip = staticmethod(_total(lambda x: x.rstrip()))
    strip_bar = staticmethod(_total(lambda x: x.strip('|')))
    lstrip_bar = staticmethod(_total(lambda x: x.lstrip('|')))
    rstrip_bar = staticmethod(_total(lambda x: x.rstrip('|')))
    before_hash = staticmethod(_total(lambda x: x.partition('#')[0]))
    sep_hash = staticmethod(_total(lambda x: x.partition('#')[1]))
    after_hash = staticmethod(_total(lambda x: x.partition('#')[2]))
    before_bar = staticmethod(_total(lambda x: x.partition('|')[0]))
    sep_bar = staticmethod(_total(lambda x: x.partition('|')[1]))
    after_bar = staticmethod(_total(lambda x: x.partition('|')[2]))
    split_bar = staticmethod(_total(lambda x: x.split('|')))
    join_bar = staticmethod(_total(lambda L: '|'.join(L)))
    join_sp = staticmethod(_total(lambda L: ' '.join(L)))
    tail = staticmethod(_total(lambda L: L[1:]))
    nobar = staticmethod(lambda x: x is not None and '|' not in x)
    nohash = staticmethod(lambda x: x is not None and '#' not in x)
    nosp = staticmethod(lambda x: x is not None and ' ' not in x)
    allws = staticmethod(lambda x: x is not None and all(c.isspace() for c in x))
    ilen = staticmethod(len)
    iat = staticmethod(lambda W, i: W[i] if 0 <= i < len(W) else -1)
    padded = staticmethod(lambda A, W: [a.ljust(w) for a, w in zip(A, W)])
    padded_r = staticmethod(lambda A, W: [a.rjust(w) for a, w in zip(A, W)])

    @staticmethod
    def pct_line(k, W, A, left=True):
        """the real thing: the template of table.dump_file for the column widths W and the indent k, applied with % to the tuple A
        (left=False: the template without the '-' flags, i.e. right-justified columns)"""
        tmpl = ' ' * k + '|'.join((f'%-{w:d}s' if left else f'%{w:d}s') for w in W) + '|'
        try:
            return tmpl % tuple(A)
        except (TypeError, ValueError):     # not as many arguments as columns / a width the template cannot carry: no such text
            return None

    @staticmethod
    def readlines(x):
        """the real thing: iterating the file object Format.loads hands to loadf"""
        with io.StringIO(x) as buf:
            return [line for line in buf]

    @staticmethod
    def written_plain(L):
        """the real thing: print every line into an io.StringIO(newline='') (the buffer of a format with newline = '')"""
        with io.StringIO(newline='') as buf:
            for l in L:
                print(l, file=buf)
            return buf.getvalue()

    # the csv module in the dialect of concepts/formats/fimi.py (the units check the class body of FimiDialect against FIMI_DIALECT)
    @staticmethod
    def _fimi_dialect():
        import csv

        class FimiDialect(csv.Dialect):
            delimiter = FIMI_DIALECT['delimiter']
            quotechar = FIMI_DIALECT['quotechar']
            escapechar = FIMI_DIALECT['escapechar']
            quoting = getattr(csv, FIMI_DIALECT['quoting'])
            lineterminator = FIMI_DIALECT['lineterminator']
            strict = FIMI_DIALECT['strict']
        return FimiDialect

    @classmethod
    def csv_text(cls, rows):
        """the real thing: csv.writer(buf, dialect=FimiDialect).writerows(rows) into an io.StringIO(newline='')"""
        import csv
        with io.StringIO(newline='') as buf:
            csv.writer(buf, dialect=cls._fimi_dialect()).writerows(rows)
            return buf.getvalue()

    @classmethod
    def csv_rows(cls, x):
        """the real thing: the rows csv.reader(buf, dialect=FimiDialect) yields for a file opened with newline=''"""
        import csv
        with io.StringIO(x, newline='') as buf:
            return list(csv.reader(buf, dialect=cls._fimi_dialect()))

    @classmethod
    def csv_nrows(cls, x):
        return len(cls.csv_rows(x))

    @classmethod
    def csv_row(cls, x, t):
        rows = cls.csv_rows(x)
        return rows[t] if 0 <= t < len(rows) else None

    csv_fields = staticmethod(m_csv_fields)        # no CPython function of its own: the per-line view of the reader (L_csv_rows ties it to csv.reader)
    idx_rows = staticmethod(len)                                   # rows of index numbers: how many, how long, which number
    idx_len = staticmethod(lambda R, t: len(R[t]))
    idx_at = staticmethod(lambda R, t, c: R[t][c])
    fimi_nums = staticmethod(lambda R, t: [f'{i:d}' for i in R[t]] if 0 <= t < len(R) else None)

    @classmethod
    def fimi_lines(cls, R):
        return [' '.join(cls.fimi_nums(R, t)) for t in range(len(R))]

    # ---- the csv module in the excel dialect (concepts/formats/csv_context.py; the units compare Csv.dialect / Csv.newline with it)
    ncells = staticmethod(len)                                      # a row: how many cells, which cell
    cell_at = staticmethod(lambda C, i: C[i] if C is not None and 0 <= i < len(C) else None)
    nrows = staticmethod(len)                                       # rows: how many, which
    row_at = staticmethod(lambda R, i: R[i] if 0 <= i < len(R) else None)

    @staticmethod
    def csv_limit():
        import csv
        return csv.field_size_limit()

    @staticmethod
    def csv_excel_text(R):
        """the real thing: what tools.write_csv_file leaves in the buffer Format.dumps creates for Csv (newline = ''): the first row
        through writer.writerow (the header), the others through writer.writerows"""
        import csv
        with io.StringIO(newline='') as buf:
            writer = csv.writer(buf, dialect=csv.excel)
            if R:
                writer.writerow(R[0])
            writer.writerows(R[1:])
            return buf.getvalue()

    @staticmethod
    def csv_excel_lines(lines):
        """the real thing: list(csv.reader(lines, dialect=csv.excel)) for an iterable of texts; None = _csv.Error"""
        import csv
        try:
            return list(csv.reader(lines, dialect=csv.excel))
        except csv.Error:
            return None

    @classmethod
    def csv_excel_rows(cls, x, newline='\n'):
        """the real thing: the rows csv.reader yields for the file object Format.loads hands to loadf, io.StringIO(x) (whose newline
        is '\\n': no translation, lines end at '\\n' only); None = _csv.Error"""
        with io.StringIO(x, newline=newline) as buf:
            return cls.csv_excel_lines(buf)

    @classmethod
    def excel_ok(cls, x):
        return cls.csv_excel_rows(x) is not None

    @classmethod
    def excel_read(cls, x):
        return cls.csv_excel_rows(x)

    excel_text = csv_excel_text

    @staticmethod
    def written(L):
        """the real thing: print every line into the buffer Format.dumps creates for a format with newline = None"""
        with io.StringIO(newline=None) as buf:
            for l in L:
                print(l, file=buf)
            return buf.getvalue()

    @staticmethod
    def read_back(x):
        """the real thing: what Format.loads hands to loadf, read"""
        with io.StringIO(x) as buf:
            return buf.read()

    def row_text(self, row):
        return ''.join(self.symbols[v] for v in row)

    row_len = staticmethod(len)
    row_cell = staticmethod(lambda row, c: row[c])

    def sym(self, b):
        return self.symbols[b]

    def is_key(self, ch):
        return ch in self.values

    def value_of(self, ch):
        return self.values[ch]


FIMI_DIALECT = {'delimiter': ' ', 'quotechar': None, 'escapechar': None, 'quoting': 'QUOTE_NONE', 'lineterminator': '\n', 'strict': True}


def holds(T, item):
    """truth of a schema item under the concrete interpretation"""
    if item[0] == 'fact':
        return bool(item[2])
    if item[0] == 'forall2':            # ('forall2', name, lo, hi, lo2(t), hi2(t), body(t, c), pattern(t, c)): for all lo <= t < hi, lo2(t) <= c < hi2(t)
        _, _, lo, hi, lo2, hi2, body, _ = item
        return all(body(t, c) for t in range(lo, hi) for c in range(lo2(t), hi2(t)))
    _, _, lo, hi, body, _ = item
    return all(body(t) for t in range(lo, hi))


# ---------------------------------------------------------------------------------------------------------------------
# 3b. the symbolic interpretation (created on demand: nothing of z3 is declared at import time)

class Z3T:
    symbolic = True

    def __init__(self):
        import z3
        self.z3 = z3
        I, B = z3.IntSort(), z3.BoolSort()
        self.Txt, self.Lines = z3.DeclareSort('Txt'), z3.DeclareSort('Lines')
        Txt, Lines = self.Txt, self.Lines
        F = z3.Function
        self.strip = F('txt.strip', Txt, Txt)
        self.split_nlnl = F('txt.split(nl+nl)', Txt, Lines)
        self.split_nl = F('txt.split(nl)', Txt, Lines)
        self.split_ws = F('txt.split()', Txt, Lines)
        self.unlines = F('txt.unlines', Lines, Txt)
        self.written = F('txt.written', Lines, Txt)
        self.read_back = F('txt.read_back', Txt, Txt)
        self.join_nl = F('txt.join(nl)', Lines, Txt)
        self.cat_nl = F('txt.cat(nl)', Txt, Txt, Txt)
        self.dec = F('txt.dec', I, Txt)
        self.int_of = F('txt.int', Txt, I)
        self.tlen = F('txt.len', Txt, I)
        self.chr_at = F('txt.chr', Txt, I, Txt)
        self.llen = F('lines.len', Lines, I)
        self.lat = F('lines.at', Lines, I, Txt)
        for nm in ('ne', 'nonl', 'nocr', 'nows', 'lead', 'trail'):
            setattr(self, nm, F('txt.' + nm, Txt, B))
        self._lit = F('txt.literal', I, Txt)
        self._codes = {}
        self.value_of = F('values', Txt, B)
        self.is_key = F('values.has_key', Txt, B)
        self.sym = None            # set by the unit: b -> Txt
        self.row_text = self.row_len = self.row_cell = None     # set by the unit (rows of the abstract table)
        self.And, self.Or, self.Not, self.Implies = z3.And, z3.Or, z3.Not, z3.Implies

    def lit(self, s):
        return self._lit(self._codes.setdefault(s, len(self._codes)))

    def literal_facts(self):
        """what the predicates say of the python literals met so far: EVALUATED with CPython on the literal itself (PyT is the meaning
        of the vocabulary); different literals are different texts"""
        P = PyT
        out = []
        for s in self._codes:
            t = self.lit(s)
            for nm in ('ne', 'nonl', 'nocr', 'nows', 'lead', 'trail'):
                out.append(('literal %r: %s' % (s, nm), getattr(self, nm)(t) == bool(getattr(P, nm)(s))))
            out.append(('literal %r: len' % s, self.tlen(t) == len(s)))
        if len(self._codes) > 1:
            out.append(('literals-distinct', self.z3.Distinct(*[self.lit(s) for s in self._codes])))
        return out

    def axioms(self):
        z3 = self.z3
        x, L = z3.Const('x', self.Txt), z3.Const('L', self.Lines)
        return [('txt.len-nonneg', z3.ForAll([x], self.tlen(x) >= 0, patterns=[self.tlen(x)])),
                ('lines.len-nonneg', z3.ForAll([L], self.llen(L) >= 0, patterns=[self.llen(L)])),
                # definition of ne
                ('txt.ne-is-positive-length', z3.ForAll([x], self.ne(x) == (self.tlen(x) > 0), patterns=[self.ne(x)]))]


class Z3TT(Z3T):
    """Z3T plus the vocabulary of the table format and of the FIMI rows (units of contracts/formats_chars_table.py; the cxt units keep Z3T).

    cat(a, b) = a + b      blanks(k) = ' ' * k      ljust(x, w)  rjust(x, w)      lstrip(x)  rstrip(x)
    strip_bar(x) = x.strip('|')  lstrip_bar  rstrip_bar      before_hash(x), sep_hash(x), after_hash(x) = x.partition('#')      before_bar, sep_bar, after_bar
    split_bar(x) = x.split('|')      join_bar(L) = '|'.join(L)      join_sp(L) = ' '.join(L)      tail(L) = L[1:]
    readlines(x) = the lines `for line in io.StringIO(x)` yields      written_plain(L): print of every line into an io.StringIO(newline='')
    Ints: a list of ints, ilen(W), iat(W, i)      padded(A, W) = [a.ljust(w) for a, w in zip(A, W)]  padded_r: rjust
    pct_line(k, W, A) = (' ' * k + '|'.join(f'%-{w:d}s' for w in W) + '|') % tuple(A)      pct_line_r: the same without the '-' flags
    nobar(x): no '|' in x     nohash(x): no '#'     nosp(x): no ' '     allws(x): every character of x is whitespace (holds of '')
    csv_nrows(x), csv_row(x, t): the rows csv.reader(file, dialect=FimiDialect) yields for a file with the text x (opened with newline='')
    csv_fields(l): the fields the reader makes of the line l      csv_text(R): what csv.writer(file, dialect=FimiDialect).writerows(R) writes
    rows of index numbers R: idx_rows(R), idx_len(R, t), idx_at(R, t, c);  fimi_nums(R, t) = [f'{i:d}' for i in R[t]];  fimi_lines(R)
    """

    PREDICATES = ('ne', 'nonl', 'nocr', 'nows', 'lead', 'trail', 'nobar', 'nohash', 'nosp', 'allws')

    def __init__(self):
        Z3T.__init__(self)
        z3 = self.z3
        I, B, Txt, Lines = z3.IntSort(), z3.BoolSort(), self.Txt, self.Lines
        F = z3.Function
        self.Ints, self.Rows = z3.DeclareSort('Ints'), z3.DeclareSort('IndexRows')
        self.cat = F('txt.cat', Txt, Txt, Txt)
        self.blanks = F('txt.blanks', I, Txt)
        self.ljust, self.rjust = F('txt.ljust', Txt, I, Txt), F('txt.rjust', Txt, I, Txt)
        for nm in ('lstrip', 'rstrip', 'strip_bar', 'lstrip_bar', 'rstrip_bar', 'before_hash', 'sep_hash', 'after_hash', 'before_bar', 'sep_bar',
                   'after_bar'):
            setattr(self, nm, F('txt.' + nm, Txt, Txt))
        self.split_bar = F('txt.split(bar)', Txt, Lines)
        self.join_bar, self.join_sp = F('txt.join(bar)', Lines, Txt), F('txt.join(sp)', Lines, Txt)
        self.tail = F('lines.tail', Lines, Lines)
        self.readlines = F('txt.readlines', Txt, Lines)
        self.written_plain = F('txt.written_plain', Lines, Txt)
        self.ilen, self.iat = F('ints.len', self.Ints, I), F('ints.at', self.Ints, I, I)
        self.padded, self.padded_r = F('lines.padded', Lines, self.Ints, Lines), F('lines.padded_r', Lines, self.Ints, Lines)
        self._pct, self._pct_r = F('txt.pct_line', I, self.Ints, Lines, Txt), F('txt.pct_line_r', I, self.Ints, Lines, Txt)
        for nm in ('nobar', 'nohash', 'nosp', 'allws'):
            setattr(self, nm, F('txt.' + nm, Txt, B))
        self.csv_nrows, self.csv_row = F('csv.nrows', Txt, I), F('csv.row', Txt, I, Lines)
        self.csv_fields = F('csv.fields', Txt, Lines)
        self.csv_text = F('csv.text', self.Rows, Txt)
        self.idx_rows, self.idx_len, self.idx_at = F('rows.len', self.Rows, I), F('rows.rowlen', self.Rows, I, I), F('rows.at', self.Rows, I, I, I)
        self.fimi_nums, self.fimi_lines = F('fimi.nums', self.Rows, I, Lines), F('fimi.lines', self.Rows, Lines)

    def pct_line(self, k, W, A, left=True):
        return (self._pct if left else self._pct_r)(k, W, A)

    def literal_facts(self):
        P = PyT
        out = []
        for s in self._codes:
            t = self.lit(s)
            for nm in self.PREDICATES:
                out.append(('literal %r: %s' % (s, nm), getattr(self, nm)(t) == bool(getattr(P, nm)(s))))
            out.append(('literal %r: len' % s, self.tlen(t) == len(s)))
        if len(self._codes) > 1:
            out.append(('literals-distinct', self.z3.Distinct(*[self.lit(s) for s in self._codes])))
        return out

    def axioms(self):
        """Z3T's, and the DEFINITIONAL facts of the list vocabulary (Lean: List.nil_append / append_nil, List.length_append, List.length_tail,
        List.getElem_tail) -- no fact about the characters of a text"""
        z3 = self.z3
        x, y, L, t = z3.Const('x', self.Txt), z3.Const('y', self.Txt), z3.Const('L', self.Lines), z3.Int('t')
        W = z3.Const('W', self.Ints)
        e = self.lit('')
        return Z3T.axioms(self) + [
            ('txt.cat-empty-left', z3.ForAll([y], self.cat(e, y) == y, patterns=[self.cat(e, y)])),
            ('txt.cat-empty-right', z3.ForAll([x], self.cat(x, e) == x, patterns=[self.cat(x, e)])),
            ('txt.cat-length', z3.ForAll([x, y], self.tlen(self.cat(x, y)) == self.tlen(x) + self.tlen(y), patterns=[self.cat(x, y)])),
            ('txt.empty-literal-has-length-0', self.tlen(e) == 0),
            ('lines.tail-length', z3.ForAll([L], z3.Implies(self.llen(L) >= 1, self.llen(self.tail(L)) == self.llen(L) - 1), patterns=[self.tail(L)])),
            ('lines.tail-items', z3.ForAll([L, t], z3.Implies(z3.And(0 <= t, t < self.llen(L) - 1), self.lat(self.tail(L), t) == self.lat(L, t + 1)),
                                           patterns=[self.lat(self.tail(L), t)])),
            ('ints.len-nonneg', z3.ForAll([W], self.ilen(W) >= 0, patterns=[self.ilen(W)]))]


class Z3TC:
    """The vocabulary of the csv format in the excel dialect (units of contracts/formats_chars_csv.py).  Sorts: Text (a python str; the
    SAME sort as contracts/formats_csv.py uses for the cells of its row-level contracts), Cells (a list of str: one row), CsvRows (a list of rows).
        tlen(x)      ncells(C), cell_at(C, i): the cells of a row      nrows(R), row_at(R, i): the rows
        excel_text(R)  what csv.writer(buf, dialect=csv.excel) leaves in an io.StringIO(newline='') after writerow(R[0]); writerows(R[1:])
        excel_ok(x), excel_read(x)   list(csv.reader(io.StringIO(x), dialect=csv.excel)) raises no _csv.Error / the rows it yields
        csv_limit()  csv.field_size_limit()"""
    symbolic = True

    def __init__(self):
        import z3
        self.z3 = z3
        I, B = z3.IntSort(), z3.BoolSort()
        self.Txt, self.Cells, self.Rows = z3.DeclareSort('Text'), z3.DeclareSort('Cells'), z3.DeclareSort('CsvRows')
        F = z3.Function
        self.tlen = F('text.len', self.Txt, I)
        self.ncells, self.cell_at = F('cells.len', self.Cells, I), F('cells.at', self.Cells, I, self.Txt)
        self.nrows, self.row_at = F('csvrows.len', self.Rows, I), F('csvrows.at', self.Rows, I, self.Cells)
        self.excel_text = F('csv.excel.text', self.Rows, self.Txt)
        self.excel_ok, self.excel_read = F('csv.excel.ok', self.Txt, B), F('csv.excel.read', self.Txt, self.Rows)
        self._limit = z3.Int('csv.field_size_limit()')
        self.And, self.Or, self.Not, self.Implies = z3.And, z3.Or, z3.Not, z3.Implies

    def csv_limit(self):
        return self._limit

    def literal_facts(self, lits):
        """the length of the python literals (a dict literal -> term), EVALUATED with CPython"""
        return [('literal %r: len' % (s,), self.tlen(t) == len(s)) for s, t in lits.items()]

    def axioms(self):
        z3 = self.z3
        x, C, R = z3.Const('x', self.Txt), z3.Const('C', self.Cells), z3.Const('R', self.Rows)
        return [('text.len-nonneg', z3.ForAll([x], self.tlen(x) >= 0, patterns=[self.tlen(x)])),
                ('cells.len-nonneg', z3.ForAll([C], self.ncells(C) >= 0, patterns=[self.ncells(C)])),
                ('csvrows.len-nonneg', z3.ForAll([R], self.nrows(R) >= 0, patterns=[self.nrows(R)]))]


# ---------------------------------------------------------------------------------------------------------------------
# 3c. the lemma schemas.  Every schema: (premises, conclusions); the docstring names the Lean theorem (lemmas/Text.lean) or says
#     'library assumption'.

def L_written(T, All):
    """LIBRARY ASSUMPTION (not Lean): print(l, file=buf) for every line l, buf = io.StringIO(newline=None), leaves in buf the lines
    each followed by '\\n' -- provided no line contains '\\r' (universal-newlines translation on write would turn it into '\\n');
    and io.StringIO(text).read() gives text back."""
    prem = [('forall', 'no-carriage-return-in-a-line', 0, T.llen(All), lambda t: T.nocr(T.lat(All, t)), lambda t: T.lat(All, t))]
    W = T.written(All)
    return prem, [('fact', 'written-text', T.And(W == T.unlines(All), T.read_back(W) == W))]


def L_source_parts(T, B, N, M, All, Tbl):
    """Text.cxt_source_parts: All = [B, '', N, M, ''] ++ Tbl; B, N, M non-empty without whitespace; Tbl non-empty, its lines non-empty
    without '\\n', the last one not ending with whitespace  ==>  unlines(All).strip().split('\\n\\n') == [B, N + '\\n' + M, '\\n'.join(Tbl)]"""
    e = T.lit('')
    prem = [('fact', 'lines-are-header-then-table', T.And(T.llen(All) == 5 + T.llen(Tbl), T.lat(All, 0) == B, T.lat(All, 1) == e,
                                                       T.lat(All, 2) == N, T.lat(All, 3) == M, T.lat(All, 4) == e)),
            ('forall', 'lines-after-the-header-are-the-table', 0, T.llen(Tbl), lambda t: T.lat(All, 5 + t) == T.lat(Tbl, t),
             lambda t: T.lat(Tbl, t)),
            ('fact', 'header-word-nonempty-without-whitespace', T.And(T.ne(B), T.nows(B))),
            ('fact', 'first-number-nonempty-without-whitespace', T.And(T.ne(N), T.nows(N))),
            ('fact', 'second-number-nonempty-without-whitespace', T.And(T.ne(M), T.nows(M))),
            ('fact', 'table-has-a-line', T.llen(Tbl) >= 1),
            ('forall', 'table-lines-nonempty-without-newline', 0, T.llen(Tbl),
             lambda t: T.And(T.ne(T.lat(Tbl, t)), T.nonl(T.lat(Tbl, t))), lambda t: T.lat(Tbl, t)),
            ('fact', 'last-line-does-not-end-with-whitespace', T.Implies(T.llen(Tbl) >= 1, T.trail(T.lat(Tbl, T.llen(Tbl) - 1))))]
    S = T.split_nlnl(T.strip(T.unlines(All)))
    return prem, [('fact', 'three-parts', T.And(T.llen(S) == 3, T.lat(S, 0) == B, T.lat(S, 1) == T.cat_nl(N, M),
                                                T.lat(S, 2) == T.join_nl(Tbl)))]


def L_numbers(T, N, M):
    """Text.splitWs_pair: N, M non-empty without whitespace  ==>  (N + '\\n' + M).split() == [N, M]"""
    prem = [('fact', 'first-nonempty-without-whitespace', T.And(T.ne(N), T.nows(N))),
            ('fact', 'second-nonempty-without-whitespace', T.And(T.ne(M), T.nows(M)))]
    S = T.split_ws(T.cat_nl(N, M))
    return prem, [('fact', 'two-numbers', T.And(T.llen(S) == 2, T.lat(S, 0) == N, T.lat(S, 1) == M))]


def L_dec(T, k):
    """Text.intOf_dec, Text.dec_ne_nil, Text.dec_not_ws: for k >= 0, int(f'{k:d}') == k and f'{k:d}' is non-empty without whitespace"""
    d = T.dec(k)
    return [('fact', 'natural-number', k >= 0)], [('fact', 'decimal', T.And(T.int_of(d) == k, T.ne(d), T.nows(d)))]


def L_nows(T, x):
    """Text.nows_facts: a text without whitespace characters does not start or end with one and contains neither '\\n' nor '\\r'"""
    return [('fact', 'no-whitespace', T.nows(x))], [('fact', 'edges-and-line-ends', T.And(T.lead(x), T.trail(x), T.nonl(x), T.nocr(x)))]


def L_table_lines(T, Tbl):
    """Text.table_lines: Tbl non-empty, lines non-empty without '\\n', the first not starting and the last not ending with whitespace
    ==>  '\\n'.join(Tbl).strip().split('\\n') == Tbl"""
    prem = [('fact', 'table-has-a-line', T.llen(Tbl) >= 1),
            ('forall', 'table-lines-nonempty-without-newline', 0, T.llen(Tbl),
             lambda t: T.And(T.ne(T.lat(Tbl, t)), T.nonl(T.lat(Tbl, t))), lambda t: T.lat(Tbl, t)),
            ('fact', 'first-line-does-not-start-with-whitespace', T.Implies(T.llen(Tbl) >= 1, T.lead(T.lat(Tbl, 0)))),
            ('fact', 'last-line-does-not-end-with-whitespace', T.Implies(T.llen(Tbl) >= 1, T.trail(T.lat(Tbl, T.llen(Tbl) - 1))))]
    return prem, [('fact', 'lines-back', T.split_nl(T.strip(T.join_nl(Tbl))) == Tbl)]


def L_split_join(T, L):
    """Text.split_join (core List.splitOn_intercalate): a NON-EMPTY list of lines without '\\n' (empty lines allowed)  ==>
    '\\n'.join(L).split('\\n') == L.   For L == [] it is false: ''.split('\\n') == [''] (Text.split_join_nil).  Not needed by the
    cxt units (L_table_lines subsumes it there); part of the library."""
    prem = [('fact', 'at-least-one-line', T.llen(L) >= 1),
            ('forall', 'lines-without-newline', 0, T.llen(L), lambda t: T.nonl(T.lat(L, t)), lambda t: T.lat(L, t))]
    return prem, [('fact', 'lines-back', T.split_nl(T.join_nl(L)) == L)]


def L_strip_id(T, x):
    """Text.strip_eq_self: a text that neither starts nor ends with whitespace is its own strip()"""
    return [('fact', 'no-whitespace-at-the-edges', T.And(T.lead(x), T.trail(x)))], [('fact', 'strip-is-identity', T.strip(x) == x)]


def L_row(T, row):
    """Text.length_rowText, Text.rowText_facts, Text.mem_rowText, Text.values_rowText_any: the symbols are two different
    one-character texts, neither whitespace (hence not '\\n')  ==>  ''.join(symbols[v] for v in row) has one character per cell, no
    whitespace, is non-empty if the row is, and its c-th character is a key of values with values[character] == row[c]"""
    st, sf = T.sym(True), T.sym(False)
    prem = [('fact', 'symbols-are-single-characters', T.And(T.tlen(st) == 1, T.tlen(sf) == 1)),
            ('fact', 'symbols-differ', T.Not(st == sf)),
            ('fact', 'symbols-are-not-whitespace', T.And(T.nows(st), T.nows(sf))),
            ('fact', 'values-inverts-symbols', T.And(T.is_key(st), T.is_key(sf), T.value_of(st) == True, T.value_of(sf) == False))]    # noqa: E712
    x = T.row_text(row)
    n = T.row_len(row)
    return prem, [('fact', 'row-text', T.And(T.tlen(x) == n, T.nows(x), T.Implies(n >= 1, T.ne(x)))),
                  ('forall', 'row-characters', 0, n,
                   lambda c: T.And(T.is_key(T.chr_at(x, c)), T.value_of(T.chr_at(x, c)) == T.row_cell(row, c)),
                   lambda c: T.chr_at(x, c))]


# ---- the table format (interpretations: PyT, Z3TT)

def L_percent(T, k, W, A, left=True):
    """Text.pct_line, with the LIBRARY ASSUMPTION "the %-operator of str computes pctFormat on templates made of literal text and conversions
    %-<digits>s / %<digits>s" (the template of table.dump_file; f'{w:d}' = dec w):
    (' ' * k + '|'.join(f'%-{w:d}s' for w in W) + '|') % tuple(A)  ==  ' ' * k + '|'.join(a.ljust(w) for a, w in zip(A, W)) + '|'
    for texts A, one per column, at least one column, natural widths W, any int k (' ' * k is '' for k <= 0).
    left=False: the template with '%{w:d}s' (no '-' flag) gives rjust instead of ljust."""
    P = (T.padded if left else T.padded_r)(A, W)
    pad = T.ljust if left else T.rjust
    prem = [('fact', 'one-argument-per-column-at-least-one-column', T.And(T.ilen(W) == T.llen(A), T.llen(A) >= 1)),
            ('forall', 'widths-are-natural', 0, T.ilen(W), lambda t: T.iat(W, t) >= 0, lambda t: T.iat(W, t))]
    return prem, [('fact', 'formatted-line', T.And(T.pct_line(k, W, A, left) == T.cat(T.blanks(k), T.cat(T.join_bar(P), T.lit('|'))),
                                                   T.llen(P) == T.llen(A))),
                  ('forall', 'padded-cells', 0, T.llen(A), lambda t: T.lat(P, t) == pad(T.lat(A, t), T.iat(W, t)), lambda t: T.lat(P, t))]


def L_pad(T, x, w, left=True):
    """Text.strip_ljust, mem_ljust (at '|', '#', '\\n', '\\r': none of them is the padding character), ljust_ne_nil, ljust_all, strip_all,
    ljust_eq_self (left=False: strip_rjust, mem_rjust, rjust_ne_nil, rjust_all, rjust_eq_self):  for w >= 0, y = x.ljust(w):
    x neither starts nor ends with whitespace ==> y.strip() == x;  y contains '|' / '#' / '\\n' / '\\r' only if x does;
    y is non-empty if x is or w >= 1;  x all whitespace ==> y is all whitespace and y.strip() == '';  w <= len(x) ==> y == x"""
    y = T.ljust(x, w) if left else T.rjust(x, w)
    return [('fact', 'natural-width', w >= 0)], [
        ('fact', 'padded', T.And(T.Implies(T.And(T.lead(x), T.trail(x)), T.strip(y) == x),
                                 T.Implies(T.nobar(x), T.nobar(y)), T.Implies(T.nohash(x), T.nohash(y)),
                                 T.Implies(T.nonl(x), T.nonl(y)), T.Implies(T.nocr(x), T.nocr(y)),
                                 T.Implies(T.Or(T.ne(x), w >= 1), T.ne(y)),
                                 T.Implies(T.allws(x), T.And(T.allws(y), T.strip(y) == T.lit(''))),
                                 T.Implies(w <= T.tlen(x), y == x)))]


def table_line_text(T, k, C):
    """k blanks, the cells joined with bars, a closing bar"""
    return T.cat(T.blanks(k), T.cat(T.join_bar(C), T.lit('|')))


def L_table_line(T, k, C):
    """Text.table_line (both with and without the line end), Text.bar_cells:  C = c0 :: rest at least two cells, no cell contains '|' or
    '#', the cells after the first are not empty;  x = ' ' * k + '|'.join(C) + '|',  z = x or x + '\\n'  ==>
      z.partition('#')[0] == z;   z.strip() == S := c0.lstrip() + '|' + '|'.join(rest) + '|';
      S.partition('|') == (c0.lstrip(), '|', Fl) with Fl := '|'.join(rest) + '|';   Fl.strip('|') == Fl.rstrip('|') == '|'.join(rest),  Fl.lstrip('|') == Fl;
      c0 all whitespace ==> S.strip('|') == '|'.join(rest);   '|'.join(rest).split('|') == rest;   c0.lstrip().strip() == c0.lstrip().rstrip() == c0.strip()"""
    bar, nl = T.lit('|'), T.lit('\n')
    c0, rest = T.lat(C, 0), T.tail(C)
    prem = [('fact', 'at-least-two-cells', T.llen(C) >= 2),
            ('forall', 'cells-without-bar-and-comment-sign', 0, T.llen(C), lambda t: T.And(T.nobar(T.lat(C, t)), T.nohash(T.lat(C, t))),
             lambda t: T.lat(C, t)),
            ('forall', 'cells-after-the-first-are-not-empty', 1, T.llen(C), lambda t: T.ne(T.lat(C, t)), lambda t: T.lat(C, t))]
    x = table_line_text(T, k, C)
    xn = T.cat(x, nl)
    J = T.join_bar(rest)
    Fl = T.cat(J, bar)
    S = T.cat(T.lstrip(c0), T.cat(bar, Fl))
    return prem, [('fact', 'comment-sign-absent', T.And(T.before_hash(x) == x, T.before_hash(xn) == xn)),
                  ('fact', 'stripped-line', T.And(T.strip(x) == S, T.strip(xn) == S)),
                  ('fact', 'cut-at-the-first-bar', T.And(T.before_bar(S) == T.lstrip(c0), T.sep_bar(S) == bar, T.after_bar(S) == Fl)),
                  ('fact', 'closing-bar-stripped', T.And(T.strip_bar(Fl) == J, T.rstrip_bar(Fl) == J, T.lstrip_bar(Fl) == Fl)),
                  ('fact', 'header-bars-stripped', T.Implies(T.allws(c0), T.strip_bar(S) == J)),
                  ('fact', 'cells-back', T.split_bar(J) == rest),
                  ('fact', 'first-cell-stripped', T.And(T.strip(T.lstrip(c0)) == T.strip(c0), T.rstrip(T.lstrip(c0)) == T.strip(c0)))]


def L_line_chars(T, k, C):
    """Text.table_line_chars at '\\n' and '\\r' (neither is the blank or the bar), pyWs '|' = false:  no cell contains '\\n' / '\\r'  ==>
    x = ' ' * k + '|'.join(C) + '|' contains neither, is not empty and does not end with whitespace (it ends with '|')"""
    prem = [('forall', 'cells-without-line-breaks', 0, T.llen(C), lambda t: T.And(T.nonl(T.lat(C, t)), T.nocr(T.lat(C, t))), lambda t: T.lat(C, t))]
    x = table_line_text(T, k, C)
    return prem, [('fact', 'line-characters', T.And(T.nonl(x), T.nocr(x), T.ne(x), T.trail(x)))]


def L_rstrip_text(T, All):
    """Text.rstrip_unlines: at least one line, the last one not empty and not ending with whitespace  ==>
    (what printing the lines leaves).rstrip() == '\\n'.join(All): only the final line end goes"""
    last = T.lat(All, T.llen(All) - 1)
    prem = [('fact', 'at-least-one-line', T.llen(All) >= 1),
            ('fact', 'last-line-nonempty-not-ending-with-whitespace', T.Implies(T.llen(All) >= 1, T.And(T.ne(last), T.trail(last))))]
    return prem, [('fact', 'only-the-final-line-end-goes', T.rstrip(T.unlines(All)) == T.join_nl(All))]


def L_readlines(T, L):
    """LIBRARY ASSUMPTION `for line in io.StringIO(text)` yields linesKeep '\\n' text, and Text.linesKeep_intercalate / linesKeep_unlines:
    at least one line, no line contains '\\n', the last one is not empty  ==>  iterating over '\\n'.join(L) gives len(L) lines, every line but
    the last with its line end; iterating over the printed text (every line followed by '\\n') gives every line with its line end"""
    n = T.llen(L)
    nl = T.lit('\n')
    prem = [('fact', 'at-least-one-line', n >= 1),
            ('forall', 'lines-without-newline', 0, n, lambda t: T.nonl(T.lat(L, t)), lambda t: T.lat(L, t)),
            ('fact', 'last-line-nonempty', T.Implies(n >= 1, T.ne(T.lat(L, n - 1))))]
    R, R2 = T.readlines(T.join_nl(L)), T.readlines(T.unlines(L))
    return prem, [('fact', 'as-many-lines', T.And(T.llen(R) == n, T.llen(R2) == n, T.lat(R, n - 1) == T.lat(L, n - 1))),
                  ('forall', 'lines-with-their-line-ends', 0, n - 1, lambda t: T.lat(R, t) == T.cat(T.lat(L, t), nl), lambda t: T.lat(R, t)),
                  ('forall', 'printed-lines-with-their-line-ends', 0, n, lambda t: T.lat(R2, t) == T.cat(T.lat(L, t), nl), lambda t: T.lat(R2, t))]


def L_written_plain(T, All):
    """LIBRARY ASSUMPTION (not Lean): print(l, file=buf) for every line l, buf = io.StringIO(newline=''), leaves in buf the lines each
    followed by '\\n' (no translation at all with newline=''); io.StringIO(text).read() gives text back"""
    W = T.written_plain(All)
    return [], [('fact', 'written-text', T.And(W == T.unlines(All), T.read_back(W) == W))]


# ---- FIMI: rows of decimal index numbers (interpretations: PyT, Z3TT)

def L_csv_written(T, R):
    """LIBRARY ASSUMPTION (not Lean; the C csv module): csv.writer(file, dialect=FimiDialect).writerows(R) for rows R of NATURAL numbers
    writes, for every row, str() of its numbers joined with single blanks, then '\\n' -- an empty row is an empty line -- into a file that does
    not translate line ends (opened with newline=''); str(i) == f'{i:d}'.  fimi_nums / fimi_lines name the number texts and the lines."""
    n = T.idx_rows(R)
    L = T.fimi_lines(R)
    prem = [('forall2', 'index-numbers-are-natural', 0, n, lambda t: 0, lambda t: T.idx_len(R, t), lambda t, c: T.idx_at(R, t, c) >= 0,
             lambda t, c: T.idx_at(R, t, c))]
    return prem, [('fact', 'written-text', T.And(T.csv_text(R) == T.unlines(L), T.llen(L) == n)),
                  ('forall', 'one-line-per-row', 0, n, lambda t: T.lat(L, t) == T.join_sp(T.fimi_nums(R, t)), lambda t: T.lat(L, t)),
                  ('forall', 'one-number-text-per-number', 0, n, lambda t: T.llen(T.fimi_nums(R, t)) == T.idx_len(R, t), lambda t: T.fimi_nums(R, t)),
                  ('forall2', 'numbers-in-decimal', 0, n, lambda t: 0, lambda t: T.idx_len(R, t),
                   lambda t, c: T.lat(T.fimi_nums(R, t), c) == T.dec(T.idx_at(R, t, c)), lambda t, c: T.lat(T.fimi_nums(R, t), c))]


def L_dec_sp(T, k):
    """Text.dec_no_sp, Text.dec_ne_nil, Text.dec_not_ws with Text.nows_facts: for k >= 0, f'{k:d}' is not empty and contains no ' ', '\\n', '\\r'"""
    d = T.dec(k)
    return [('fact', 'natural-number', k >= 0)], [('fact', 'decimal-digits-only', T.And(T.ne(d), T.nosp(d), T.nonl(d), T.nocr(d)))]


def L_csv_fields(T, D):
    """Text.csvFields_intercalate, Text.not_mem_intercalate (at '\\n', '\\r'): fields that are not empty and contain no ' ' / '\\n' / '\\r'
    ==>  the reader's fields of ' '.join(D) are D (for D == [] the line is '' and has NO field), and the line contains no '\\n' / '\\r'"""
    prem = [('forall', 'fields-nonempty-without-delimiter-and-line-breaks', 0, T.llen(D),
             lambda t: T.And(T.ne(T.lat(D, t)), T.nosp(T.lat(D, t)), T.nonl(T.lat(D, t)), T.nocr(T.lat(D, t))), lambda t: T.lat(D, t))]
    x = T.join_sp(D)
    return prem, [('fact', 'fields-back', T.And(T.csv_fields(x) == D, T.nonl(x), T.nocr(x)))]


def L_csv_rows(T, L):
    """LIBRARY ASSUMPTION csv.reader(file, dialect=FimiDialect) over a file opened with newline='' yields csvRows '\\n' ' ' text (line by
    line, line end removed, csvFields), and Text.csvRows_unlines:  no line contains '\\n' or '\\r'  ==>  the reader yields one row per printed
    line, row t = the fields of line t"""
    n = T.llen(L)
    prem = [('forall', 'lines-without-line-breaks', 0, n, lambda t: T.And(T.nonl(T.lat(L, t)), T.nocr(T.lat(L, t))), lambda t: T.lat(L, t))]
    x = T.unlines(L)
    return prem, [('fact', 'one-row-per-line', T.csv_nrows(x) == n),
                  ('forall', 'rows-are-the-fields-of-the-lines', 0, n, lambda t: T.csv_row(x, t) == T.csv_fields(T.lat(L, t)), lambda t: T.csv_row(x, t))]


# ---- the csv module in the excel dialect (interpretations: PyT, Z3TC)

def L_csv_excel(T, R):
    """TextCsv.csv_roundtrip (lemmas/TextCsv.lean), with the LIBRARY ASSUMPTION "in the excel dialect csv.writer writes csvWriteRow for every row
    of texts and csv.reader over io.StringIO(text) yields csvReadRows (csv.field_size_limit()) text" (the C module _csv):  no cell of R is longer
    than the field size limit  ==>  reading the text written for the rows R raises no _csv.Error and yields R -- ANY rows of ANY texts: the row
    without cells, the lone empty cell, cells with commas, quotes, '\\r', '\\n'."""
    lim = T.csv_limit()
    prem = [('forall2', 'no-cell-longer-than-the-field-size-limit', 0, T.nrows(R), lambda t: 0, lambda t: T.ncells(T.row_at(R, t)),
             lambda t, c: T.tlen(T.cell_at(T.row_at(R, t), c)) <= lim, lambda t, c: T.cell_at(T.row_at(R, t), c))]
    x = T.excel_text(R)
    return prem, [('fact', 'rows-back', T.And(T.excel_ok(x), T.excel_read(x) == R))]


LEAN = {'L_csv_excel': ['TextCsv.csv_roundtrip'],
        'L_source_parts': ['cxt_source_parts'], 'L_numbers': ['splitWs_pair'], 'L_dec': ['intOf_dec', 'dec_ne_nil', 'dec_not_ws'],
        'L_nows': ['nows_facts'], 'L_table_lines': ['table_lines'], 'L_split_join': ['split_join', 'split_join_nil'], 'L_strip_id': ['strip_eq_self'],
        'L_row': ['length_rowText', 'rowText_facts', 'mem_rowText', 'values_rowText_any'], 'L_written': [],
        # the table format, FIMI
        'L_percent': ['pct_line'], 'L_pad': ['strip_ljust', 'strip_rjust', 'mem_ljust', 'mem_rjust', 'ljust_ne_nil', 'rjust_ne_nil', 'ljust_all', 'rjust_all', 'strip_all',
                                    'ljust_eq_self', 'rjust_eq_self'],
        'L_table_line': ['table_line', 'bar_cells', 'strip_lstrip', 'strip_eq_rstrip_lstrip', 'sepOf_append_sep'], 'L_line_chars': ['table_line_chars'], 'L_rstrip_text': ['rstrip_unlines'],
        'L_readlines': ['linesKeep_intercalate', 'linesKeep_unlines'], 'L_written_plain': [], 'L_csv_written': [],
        'L_dec_sp': ['dec_no_sp', 'dec_ne_nil', 'dec_not_ws', 'nows_facts'], 'L_csv_fields': ['csvFields_intercalate', 'not_mem_intercalate'],
        'L_csv_rows': ['csvRows_unlines']}


# ---------------------------------------------------------------------------------------------------------------------
# 2. validation against CPython

ALPHABET = ('a', ' ', '\n', 'X', '.', '0', '\t', '\r', '\x1c', '\x85', '\xa0', '　', ' ', '\x0c', 'B')


def _texts(alphabet, maxlen):
    for r in range(maxlen + 1):
        for t in itertools.product(alphabet, repeat=r):
            yield ''.join(t)


def _check_schema(T, prem, concl):
    """-> 1 if the premises hold (then the conclusions must), 0 if the instance is vacuous"""
    if not all(holds(T, p) for p in prem):
        return 0
    for c in concl:
        assert holds(T, c), ('schema conclusion fails', c[1])
    return 1


def selftest(maxlen=5, verbose=False):
    """CPython against the model and against every lemma schema, on an enumerated scope.  Returns the number of instances checked
    (for the schemas: the number of NON-VACUOUS instances, i.e. with all premises true)."""
    import sys
    n = 0
    live = {}
    # str.isspace for every code point (surrogates included: python strings may hold them)
    for cp in range(sys.maxunicode + 1):
        assert chr(cp).isspace() == m_ws(chr(cp)), hex(cp)
        n += 1
    # strip / split() / split(c) / split(a+b) / join against the model
    small = ('a', ' ', '\n', '\t', '\x1c', '　', 'b')
    for s in _texts(small, maxlen):
        assert s.strip() == m_strip(s), repr(s)
        assert s.split() == m_split_ws(s), repr(s)
        assert s.split('\n') == m_split1('\n', s), repr(s)
        for a, b in (('\n', '\n'), ('a', 'b'), ('a', 'a')):
            assert s.split(a + b) == m_split2(a, b, s), repr(s)
        n += 6
    for s in _texts(('a', '\n', ' '), maxlen + 3):
        assert s.split('\n\n') == m_split2('\n', '\n', s) and s.split('\n') == m_split1('\n', s) and s.strip() == m_strip(s), repr(s)
        n += 3
    pieces = list(_texts(('a', '\n', 'b'), 2))
    for k in range(0, 4):
        for ls in itertools.product(pieces, repeat=k):
            ls = list(ls)
            for sep in ('\n', '\n\n', '', 'ab'):
                assert sep.join(ls) == m_intercalate(sep, ls)
            assert PyT.written(ls) == m_unlines(ls)
            n += 5
    # print / StringIO with carriage returns: the translation the assumption excludes does happen
    assert PyT.written(['a\rb']) == 'a\nb\n' and PyT.written(['a\r\nb']) == 'a\nb\n' and PyT.read_back('a\rb\r\n') == 'a\rb\r\n'
    # numbers
    for k in list(range(0, 3000)) + [10 ** e + d for e in range(3, 40) for d in (-1, 0, 1)]:
        assert f'{k:d}' == m_dec(k) == str(k) and int(m_dec(k)) == m_int_of(m_dec(k)) == k
        n += 1
    for s in _texts('0123456789', 4):
        if s:
            assert int(s) == m_int_of(s)
            n += 1
    # rows
    for sym_t, sym_f in (('X', '.'), ('1', '0'), ('a', 'b')):
        for k in range(0, 6):
            for row in itertools.product((False, True), repeat=k):
                assert ''.join({False: sym_f, True: sym_t}[v] for v in row) == m_row_text(sym_t, sym_f, row)
                n += 1

    n += _selftest_table_model(maxlen)
    n += _selftest_csv_model(maxlen)

    # the lemma schemas, evaluated with CPython's functions
    def count(name, k):
        live[name] = live.get(name, 0) + k
    T = PyT()
    _selftest_table_schemas(T, count, live)
    _selftest_csv_schemas(T, count, live)
    words = [w for w in _texts(('a', ' ', '\n', '\r', '\t', '0'), 3)]
    for x in _texts(ALPHABET, 3):
        count('L_strip_id', _check_schema(T, *L_strip_id(T, x)))
        count('L_nows', _check_schema(T, *L_nows(T, x)))
    for k in list(range(0, 1200)) + [-1, -5, 10 ** 20]:
        count('L_dec', _check_schema(T, *L_dec(T, k)))
    nums = ['', '0', '7', '12', ' 1', '1 ', 'a', '1\n2', '\t', '305']
    for N in nums:
        for M in nums:
            count('L_numbers', _check_schema(T, *L_numbers(T, N, M)))
    lines = ['', 'a', ' ', 'a b', ' a', 'a ', 'a\nb', 'a\n', '\na', 'X.', 'a\rb', '\x1ca', 'a　', '0', '\n']
    for k in range(0, 4):
        for Tbl in itertools.product(lines, repeat=k):
            Tbl = list(Tbl)
            count('L_table_lines', _check_schema(T, *L_table_lines(T, Tbl)))
            count('L_split_join', _check_schema(T, *L_split_join(T, Tbl)))
            count('L_written', _check_schema(T, *L_written(T, Tbl)))
            for B, N, M in (('B', '2', '13'), ('B', '', '1'), ('', '1', '1'), ('B', '1', ''), ('B ', '1', '1'), ('B', '1 0', '1'), ('B', '1', '\n1'),
                            ('ab', '00', '7')):
                All = [B, '', N, M, ''] + Tbl
                count('L_source_parts', _check_schema(T, *L_source_parts(T, B, N, M, All, Tbl)))
            # a wrong description of the lines must make the instance vacuous, not false
            count('L_source_parts/misdescribed', _check_schema(T, *L_source_parts(T, 'B', '1', '1', ['B', '', '1', '1'] + Tbl, Tbl)))
    for symbols in ({False: '.', True: 'X'}, {False: '0', True: '1'}, {False: 'X', True: 'X'}, {False: ' ', True: 'X'}, {False: '..', True: 'X'},
                    {False: '\n', True: 'X'}):
        Ts = PyT(symbols)
        for k in range(0, 6):
            for row in itertools.product((False, True), repeat=k):
                count('L_row', _check_schema(Ts, *L_row(Ts, list(row))))
    assert live.pop('L_source_parts/misdescribed') == 0
    assert '\n'.join([]).split('\n') == [''] and m_split1('\n', m_intercalate('\n', [])) == ['']      # split_join_nil
    for name in LEAN:
        assert live.get(name, 0) > 0, 'no live instance of ' + name
    if verbose:
        print(live)
    return n + sum(live.values())


def _selftest_table_model(maxlen):
    """CPython against the python copy of the definitions of the table / FIMI section of Text.lean, on an enumerated scope"""
    import csv
    n = 0
    chars = ('a', ' ', '|', '#', '\n', '\t', '　', 'X')
    for s in _texts(chars, maxlen):
        assert s.lstrip() == m_lstrip(m_ws, s) and s.rstrip() == m_rstrip(m_ws, s) and s.strip() == m_rstrip(m_ws, m_lstrip(m_ws, s)), repr(s)
        assert s.strip('|') == m_strip_c('|', s) and s.lstrip('|') == m_lstrip(lambda c: c == '|', s) and s.rstrip('|') == m_rstrip(lambda c: c == '|', s), repr(s)
        for sep in ('#', '|'):
            b, m_, a = s.partition(sep)
            assert b == m_before(sep, s) and a == m_after(sep, s) and m_ == m_sep_of(sep, s) and b + m_ + a == s, repr(s)
        assert s.split('|') == m_split1('|', s), repr(s)
        assert PyT.readlines(s) == m_lines_keep(s), repr(s)
        for w in range(0, maxlen + 3):
            assert s.ljust(w) == m_ljust(w, s) == '%-*s' % (w, s) and s.rjust(w) == m_rjust(w, s) == '%*s' % (w, s), (s, w)
            assert ('%%-%ds' % w) % s == m_ljust(w, s) and ('%%%ds' % w) % s == m_rjust(w, s) and f'%-{w:d}s' % (s,) == m_ljust(w, s), (s, w)
        n += 8 + 3 * (maxlen + 3)
    # file iteration does not cut at '\r' (the default newline of io.StringIO(text) is '\n'); print into newline='' does not translate
    assert PyT.readlines('a\rb\nc\r\n') == ['a\rb\n', 'c\r\n'] == m_lines_keep('a\rb\nc\r\n') and PyT.written_plain(['a\rb', 'c']) == 'a\rb\nc\n'
    for k in range(-2, 5):
        assert ' ' * k == ' ' * max(k, 0) and PyT.blanks(k) == ''.join(' ' for _ in range(k))
        n += 1
    pieces = ['', 'a', ' ', 'a b', '|', 'X', 'a|b']
    for k in range(0, 4):
        for ls in itertools.product(pieces, repeat=k):
            assert '|'.join(ls) == m_intercalate('|', list(ls)) and ' '.join(ls) == m_intercalate(' ', list(ls))
            n += 2
    # the % operator on the template of table.dump_file: widths, arguments, indents
    args = ['', 'a', 'X', 'a b', '%s', '%', 'long label', '　x', '|', '#']
    for ncol in (1, 2, 3):
        for W in itertools.product((0, 1, 2, 5), repeat=ncol):
            for A in itertools.product(args, repeat=ncol) if ncol < 3 else itertools.product(args[:5], repeat=ncol):
                for k in (-1, 0, 3):
                    assert PyT.pct_line(k, W, A) == ' ' * k + '|'.join(m_ljust(w, a) for a, w in zip(A, W)) + '|', (k, W, A)
                    assert PyT.pct_line(k, W, A, left=False) == ' ' * k + '|'.join(m_rjust(w, a) for a, w in zip(A, W)) + '|', (k, W, A)
                    n += 2
    # the % operator against the model of the fragment: every template over these characters; where the model gives a text, CPython gives the
    # same; where the model gives None because the arguments do not match the conversions, CPython raises TypeError
    for tmpl in _texts(('%', '-', '1', '0', 's', 'a', '|'), maxlen + 1):
        for A in ((), ('x',), ('xy z', ''), ('', 'X', 'long')):
            want = m_pct_format(tmpl, A)
            try:
                got = tmpl % A
            except (TypeError, ValueError):
                got = None
            if want is not None:
                assert got == want, (tmpl, A, got, want)
                n += 1
            elif m_pct_format(tmpl, A[:1]) is not None or any(m_pct_format(tmpl, A + ('q',) * j) is not None for j in (1, 2, 3)):
                assert got is None, (tmpl, A, got)          # in the fragment, but not as many arguments as conversions
                n += 1
    for w in (0, 1, 9, 10, 11, 105):
        for left in (False, True):
            assert m_col_template(left, w) == (f'%-{w:d}s' if left else f'%{w:d}s')
            for a in ('', 'ab', 'a' * 12, '　'):
                assert m_pct_format('x' + m_col_template(left, w) + '|', [a]) == 'x' + (a.ljust(w) if left else a.rjust(w)) + '|' == \
                    ('x' + m_col_template(left, w) + '|') % (a,)
                n += 1
    for bad in ((2, 1), (1, 2)):          # as many arguments as columns: TypeError otherwise (PyT.pct_line: None, "no such text")
        assert PyT.pct_line(0, [1] * bad[0], ['a'] * bad[1]) is None
        try:
            '|'.join('%-1s' for _ in range(bad[0])) % tuple(['a'] * bad[1])
            raise AssertionError('no TypeError for %r' % (bad,))
        except TypeError:
            pass
    # the csv module in the FIMI dialect: the reader on every text over digits, blank, line end; the writer on rows of naturals
    for s in _texts(('0', '7', ' ', '\n'), maxlen + 2):
        assert PyT.csv_rows(s) == m_csv_rows(s), repr(s)
        n += 1
    nums = [0, 7, 10, 123456789012345678901234567890]
    pool = [[]] + [list(c) for r in (1, 2) for c in itertools.product(nums, repeat=r)]
    for k in range(0, 3):
        for rows in itertools.product(pool, repeat=k):
            text = PyT.csv_text(rows)
            assert text == m_unlines([m_intercalate(' ', [m_dec(i) for i in r]) for r in rows]), rows
            assert [[m_int_of(f) for f in r] for r in m_csv_rows(text)] == [list(r) for r in rows] == [list(map(int, r)) for r in PyT.csv_rows(text)], rows
            n += 2
    assert PyT.csv_rows('\n') == [[]] and ''.split(' ') == [''] and m_csv_fields('') == []      # an empty line has NO field (str.split would give one)
    assert csv.QUOTE_NONE == getattr(csv, FIMI_DIALECT['quoting'])
    return n


def _selftest_table_schemas(T, count, live):
    """every schema of the table / FIMI section, evaluated with CPython's functions; counts the non-vacuous instances"""
    labels = ['', 'a', ' ', 'a b', ' a', 'a ', 'X', 'a|b', '#', 'a\nb', 'a\rb', '\t', 'long label', '　', 'x　']
    for x in labels:
        for w in range(0, 7):
            count('L_pad', _check_schema(T, *L_pad(T, x, w)))
            count('L_pad', _check_schema(T, *L_pad(T, x, w, left=False)))
        count('L_pad/negative-width', _check_schema(T, *L_pad(T, x, -1)))
    cells = ['', ' ', 'a', 'a ', ' a', 'X  ', '  ', 'a|', '#', 'a b ', '\t', 'a\n']
    for ncell in (0, 1, 2, 3):
        for C in itertools.product(cells, repeat=ncell) if ncell < 3 else itertools.product(cells[:8], repeat=ncell):
            for k in (0, 2, -1):
                count('L_table_line', _check_schema(T, *L_table_line(T, k, list(C))))
                count('L_line_chars', _check_schema(T, *L_line_chars(T, k, list(C))))
    args = ['', 'a', 'X', 'a b', '%s', '|']
    for ncol in (0, 1, 2, 3):
        for W in itertools.product((0, 1, 3, -1), repeat=ncol):
            for A in itertools.product(args, repeat=ncol) if ncol < 3 else itertools.product(args[:3], repeat=ncol):
                for k in (0, 2, -3):
                    count('L_percent', _check_schema(T, *L_percent(T, k, list(W), list(A))))
                    count('L_percent', _check_schema(T, *L_percent(T, k, list(W), list(A), left=False)))
    count('L_percent/wrong-argument-count', _check_schema(T, *L_percent(T, 0, [1, 1], ['a'])))
    lines = ['', 'a', ' ', 'a|', 'a ', 'a\nb', 'a\rb', ' |c|', '\n', 'x\t']
    for k in range(0, 4):
        for L in itertools.product(lines, repeat=k):
            L = list(L)
            count('L_rstrip_text', _check_schema(T, *L_rstrip_text(T, L)))
            count('L_readlines', _check_schema(T, *L_readlines(T, L)))
            count('L_written_plain', _check_schema(T, *L_written_plain(T, L)))
    for k in list(range(0, 300)) + [-1, -7, 10 ** 25]:
        count('L_dec_sp', _check_schema(T, *L_dec_sp(T, k)))
    fields = ['', '0', '7', '12', ' ', '1 2', 'a', '1\n', '1\r', '305']
    for k in range(0, 4):
        for D in itertools.product(fields, repeat=k):
            count('L_csv_fields', _check_schema(T, *L_csv_fields(T, list(D))))
    flines = ['', '0', '0 2', '12 7 305', '1\n2', '1\r', ' ', '0  1', 'a b']
    for k in range(0, 4):
        for L in itertools.product(flines, repeat=k):
            count('L_csv_rows', _check_schema(T, *L_csv_rows(T, list(L))))
    rows = [[], [0], [0, 2], [12, 7, 305], [-1], [10 ** 25, 0]]
    for k in range(0, 4):
        for R in itertools.product(rows, repeat=k):
            count('L_csv_written', _check_schema(T, *L_csv_written(T, [list(r) for r in R])))
    for name in ('L_pad/negative-width', 'L_percent/wrong-argument-count'):      # premises violated on purpose: vacuous, not false
        assert live.pop(name) == 0, name


CSV_ALPHABET = (',', '"', '\r', '\n', ' ', 'X')


def _csv_check_reader(s, lim):
    """csv.reader on the text s, read as io.StringIO(s) (lines end at '\\n') and as a file opened with newline='' (lines end at '\\r', '\\n',
    '\\r\\n'), against the state machine"""
    assert PyT.csv_excel_rows(s) == m_csv_read_rows(lim, s), (repr(s), lim)
    with io.StringIO(s, newline='') as buf:
        assert list(buf) == m_lines_univ(s), repr(s)
    assert PyT.csv_excel_rows(s, newline='') == m_csv_read_lines(lim, m_lines_univ(s)), (repr(s), lim)
    return 3


def _selftest_csv_model(maxlen):
    """CPython's csv module in the excel dialect against the python copy of lemmas/TextCsv.lean, on an enumerated scope"""
    import csv
    import random
    import sys
    n = 0
    d = csv.reader([], dialect=csv.excel).dialect
    assert {k: getattr(d, k) for k in EXCEL_DIALECT} == dict(EXCEL_DIALECT, quoting=getattr(csv, EXCEL_DIALECT['quoting']))
    with io.StringIO() as buf:              # the registered name and "no dialect" are the same parameters, for the reader and for the writer
        for d2 in [csv.reader([], dialect=x).dialect for x in ('excel', None)] + [csv.writer(buf, dialect=x).dialect for x in (csv.excel, 'excel', None)]:
            assert {k: getattr(d2, k) for k in EXCEL_DIALECT} == {k: getattr(d, k) for k in EXCEL_DIALECT}
    lim = csv.field_size_limit()
    # ---- the reader: every text over the alphabet up to maxlen + 1 characters, two ways of cutting it into lines
    for s in _texts(CSV_ALPHABET, maxlen + 1):
        n += _csv_check_reader(s, lim)
    for s in _texts((',', '"', '\n', 'X'), maxlen + 3):
        n += _csv_check_reader(s, lim)
    # ---- the reader on iterables of lines that no file yields (empty lines, lines without a line end in the middle)
    pool = ['', 'X', '"X', 'X"', ',', '\n', '\r', 'X,\n', '"', '""', 'X\rX', ' ', '"\n']
    for k in range(0, 4):
        for lines in itertools.product(pool, repeat=k):
            assert PyT.csv_excel_lines(list(lines)) == m_csv_read_lines(lim, list(lines)), lines
            n += 1
    # ---- the writer, and the reader on what it wrote: one cell up to maxlen characters, two cells up to 2, three cells up to 2 / 1 / 2
    fields = {k: list(_texts(CSV_ALPHABET, k)) for k in (1, 2, maxlen)}
    rows = [[f] for f in fields[maxlen]] + [list(r) for r in itertools.product(fields[2], repeat=2)] \
        + [list(r) for r in itertools.product(fields[2], fields[1], fields[2])] + [[]]
    for r in rows:
        text = PyT.csv_excel_text([r])
        assert text == m_csv_write_row(r) == m_csv_write_rows([r]), r
        assert PyT.csv_excel_rows(text) == [r] == m_csv_read_rows(lim, text) == PyT.csv_excel_rows(text, newline=''), r
        n += 2
    pool = [[], [''], ['', ''], ['X'], ['X,', '"'], ['\r', 'X\nX', ''], ['\n'], [' X ', '""']]
    for k in range(0, 4):
        for R in itertools.product(pool, repeat=k):
            R = [list(r) for r in R]
            text = PyT.csv_excel_text(R)
            assert text == m_csv_write_rows(R) and PyT.csv_excel_rows(text) == R == m_csv_read_rows(lim, text), R
            n += 1
    # ---- random longer ones (other characters too: str.isspace characters, NUL, non-ASCII)
    rnd = random.Random(20260929)
    chars = CSV_ALPHABET + ('a', '\t', '\x00', '\x85', ' ', '\x1c', ';', "'", '\xe9', '\U0001f600')
    for _ in range(3000):
        R = [[''.join(rnd.choice(chars) for _ in range(rnd.randrange(0, 12))) for _ in range(rnd.randrange(0, 6))] for _ in range(rnd.randrange(0, 5))]
        text = PyT.csv_excel_text(R)
        assert text == m_csv_write_rows(R) and PyT.csv_excel_rows(text) == R == m_csv_read_rows(lim, text), R
        s = ''.join(rnd.choice(chars) for _ in range(rnd.randrange(0, 40)))
        n += 1 + _csv_check_reader(s, lim)
    # ---- no other character makes the writer quote or the reader stumble: every code point below U+3100 (and every 89th above) as a cell of its own,
    #      bare, between blanks and doubled
    for cp in list(range(0, 0x3100)) + list(range(0x3100, sys.maxunicode + 1, 89)):
        ch = chr(cp)
        R = [[ch, ' ' + ch + ' ', ch + ch]]
        text = PyT.csv_excel_text(R)
        assert text == m_csv_write_rows(R) and PyT.csv_excel_rows(text) == R == m_csv_read_rows(lim, text), hex(cp)
        assert (text == ch + ', ' + ch + ' ,' + ch + ch + '\r\n') == (ch not in ',"\r\n'), hex(cp)
        n += 2
    # ---- cells that are not texts: None is written as the empty text, a number with str()
    for r in ([None], [None, 1, 0], [None, 'X', ''], [0], [1, None], ['a', 10 ** 20, -5]):
        assert PyT.csv_excel_text([r]) == m_csv_write_row(['' if v is None else str(v) for v in r]), r
        n += 1
    # ---- the field size limit: the default one at its edge, then small ones (the limit is process-wide state: restored)
    big = 'x' * lim
    for f, ok in ((big, True), (big + 'y', False), ('"' + big[1:], True), ('"' + big, False)):
        text = m_csv_write_row(['a', f])
        assert text == PyT.csv_excel_text([['a', f]]) and PyT.csv_excel_rows(text) == m_csv_read_rows(lim, text) == ([['a', f]] if ok else None)
        n += 1
    try:
        for small in (0, 1, 3):
            csv.field_size_limit(small)
            assert PyT.csv_limit() == small
            for s in _texts((',', '"', '\n', 'X'), maxlen + 1):
                assert PyT.csv_excel_rows(s) == m_csv_read_rows(small, s), (repr(s), small)
                n += 1
            for r in rows[:len(fields[maxlen])]:
                text = PyT.csv_excel_text([r])
                assert PyT.csv_excel_rows(text) == m_csv_read_rows(small, text) == ([r] if len(r[0]) <= small else None), (r, small)
                n += 1
    finally:
        csv.field_size_limit(lim)
    return n


def _selftest_csv_schemas(T, count, live):
    """L_csv_excel evaluated with CPython's csv module"""
    import csv
    cells = ['', 'X', '0', 'a,b', 'c"d', 'e\rf', 'g\nh', ' i ', '"', '\r\n', 'long label']
    pool = [[], ['']] + [[c] for c in cells] + [list(r) for r in itertools.product(cells[:6], repeat=2)] + [['', 'X', ''], ['a,b', '', 'c"d', '\n']]
    for k in range(0, 3):
        for R in itertools.product(pool, repeat=k):
            count('L_csv_excel', _check_schema(T, *L_csv_excel(T, [list(r) for r in R])))
    lim = csv.field_size_limit()
    try:
        csv.field_size_limit(3)         # with a small limit the premise fails for some rows: those instances are vacuous, the others hold
        vac = 0
        for R in itertools.product(pool, repeat=2):
            k = _check_schema(T, *L_csv_excel(T, [list(r) for r in R]))
            count('L_csv_excel', k)
            vac += 1 - k
        assert vac > 0
    finally:
        csv.field_size_limit(lim)


# ---------------------------------------------------------------------------------------------------------------------
# 2b. CPython against the Lean definitions themselves (thorough tier; needs the Lean toolchain)

LEAN_DIR = '/opt/veriftools/mathlib4'


def _lean_str(s):
    return '[' + ', '.join('Char.ofNat %d' % ord(c) for c in s) + ']'


def _lean_unstr(cs):
    return ''.join(chr(c) for c in cs)


def selftest_lean(maxlen=4, lean_file=None):
    """Run the DEFINITIONS of lemmas/Text.lean (`#eval`, on an enumerated scope written into a scratch copy of the file) and compare
    every result with CPython's own function.  Returns the number of comparisons."""
    import json
    import os
    import subprocess
    import tempfile
    here = os.path.dirname(os.path.dirname(os.path.abspath(__file__)))
    lean_file = lean_file or os.path.join(here, 'lemmas', 'Text.lean')
    with open(lean_file, encoding='utf-8') as f:
        src = f.read()
    texts = list(_texts(('a', ' ', '\n', '\t', '　'), maxlen)) + list(_texts(('a', '\n'), maxlen + 3)) \
        + ['B\n\n2\n2\n\na\nb\nc\nd\nX.\n.X\n', ' \n x\ny \n\n', '\x1ca\x85', '12\n7', '\r\n a\r']
    numbers = list(range(0, 130)) + [999, 1000, 1001, 65535, 65536, 10 ** 12, 10 ** 30 + 7]
    digit_texts = [t for t in _texts('0179', 3) if t]
    rows = [list(r) for k in range(0, 4) for r in itertools.product((False, True), repeat=k)]
    codepoints = list(range(0, 0x3100)) + [0xFEFF, 0x1F600, 0x10FFFF]
    q = lambda xs: '[' + ', '.join(xs) + ']'
    enc = 'fun (l : List Char) => l.map Char.toNat'
    prog = [
        'open Text in',
        'def selftestTexts : List (List Char) := ' + q(_lean_str(t) for t in texts),
        'open Text in',
        '#eval IO.println (toString ((selftestTexts.map (fun s => (%s) (strip pyWs s)))))' % enc,
        'open Text in',
        '#eval IO.println (toString ((selftestTexts.map (fun s => (splitWs pyWs s).map (%s)))))' % enc,
        'open Text in',
        "#eval IO.println (toString ((selftestTexts.map (fun s => (split2 '\\n' '\\n' s).map (%s)))))" % enc,
        'open Text in',
        "#eval IO.println (toString ((selftestTexts.map (fun s => (s.splitOn '\\n').map (%s)))))" % enc,
        'open Text in',
        "#eval IO.println (toString ((selftestTexts.map (fun s => (%s) (unlines '\\n' (s.splitOn 'a'))))))" % enc,
        'open Text in',
        "#eval IO.println (toString ((selftestTexts.map (fun s => (%s) ([' ', 'a'].intercalate (s.splitOn '\\n'))))))" % enc,
        'open Text in',
        '#eval IO.println (toString ((%s).map (fun n => (%s) (dec n))))' % (q(str(k) for k in numbers), enc),
        'open Text in',
        '#eval IO.println (toString ((%s).map (fun s => intOf s)))' % q(_lean_str(t) for t in digit_texts),
        'open Text in',
        "#eval IO.println (toString ((%s : List (List Bool)).map (fun r => (%s) (rowText 'X' '.' r))))" % (
            q(q('true' if v else 'false' for v in r) for r in rows), enc),
        'open Text in',
        '#eval IO.println (toString (((List.range %d) ++ %s).map (fun n => pyWs (Char.ofNat n))))' % (0x3100, q(str(c) for c in codepoints[0x3100:])),
    ]
    # ---- the table format and the FIMI rows: ljust / rjust, lstrip / rstrip, strip of a given character, partition, the lines of a file,
    #      the csv reader's fields and rows
    widths = (0, 2, 5)
    csv_texts = list(_texts(('0', '7', ' ', '\n'), maxlen + 1))
    csv_lines = [t for t in csv_texts if '\n' not in t]
    per_text = [
        "[%s].map (fun w => (%s) (ljust ' ' w s))" % (', '.join(map(str, widths)), enc),
        "[%s].map (fun w => (%s) (rjust ' ' w s))" % (', '.join(map(str, widths)), enc),
        '[(%s) (lstrip pyWs s), (%s) (rstrip pyWs s)]' % (enc, enc),
        "[(%s) (stripC 'a' s), (%s) (lstripC 'a' s), (%s) (rstripC 'a' s)]" % (enc, enc, enc),
        "[(%s) (before '\\n' s), (%s) (after '\\n' s), (%s) (before 'a' s), (%s) (after 'a' s), (%s) (sepOf 'a' s)]" % (enc, enc, enc, enc, enc),
        "(linesKeep '\\n' s).map (%s)" % enc,
        "(s.splitOn 'a').map (%s)" % enc,
    ]
    for e in per_text:
        prog += ['open Text in', '#eval IO.println (toString (selftestTexts.map (fun s => %s)))' % e]
    pct_cases = [(t, A) for t in list(_texts(('%', '-', '1', 's', 'a'), 3)) + ['  %-3s|%-1s|%-10s|', '%3s|%0s|', '%-s%s', '%12s', 'a%-2s%', '%-1s', '%-0s',
                                                                                 '%10s', '%-10s', '%01s', '%1s%-1s', 'a%-1sa', '%-1s|%-0s|', '%-12s|%3s|%-0s|']
                 for A in ((), ('x',), ('xy z', ''), ('', 'X', 'long'))]
    prog += ['open Text in',
             '#eval IO.println (toString ((%s : List (List Char × List (List Char))).map (fun p => match pctFormat p.1 p.2 with '
             '| some r => [1] ++ (%s) r | none => [0])))' % (q('(%s, %s)' % (_lean_str(t), q(_lean_str(a) for a in A)) for t, A in pct_cases), enc)]
    prog += ['open Text in', 'def selftestCsvTexts : List (List Char) := ' + q(_lean_str(t) for t in csv_texts),
             'open Text in', "#eval IO.println (toString (selftestCsvTexts.map (fun s => (csvRows '\\n' ' ' s).map (fun r => r.map (%s)))))" % enc,
             'open Text in', 'def selftestCsvLines : List (List Char) := ' + q(_lean_str(t) for t in csv_lines),
             'open Text in', "#eval IO.println (toString (selftestCsvLines.map (fun s => (csvFields ' ' s).map (%s))))" % enc]
    with tempfile.TemporaryDirectory() as d:
        fn = os.path.join(d, 'TextSelftest.lean')
        with open(fn, 'w', encoding='utf-8') as f:
            f.write(src + '\n\n' + '\n'.join(prog) + '\n')
        out = subprocess.run(['lake', 'env', 'lean', fn], cwd=LEAN_DIR, capture_output=True, text=True, timeout=900)
    lines = [l for l in out.stdout.splitlines() if l.startswith('[')]
    assert out.returncode == 0 and len(lines) == 20, (out.returncode, out.stdout[-2000:], out.stderr[-2000:])
    vals = [json.loads(l) for l in lines]
    n = 0

    def cmp_(got, want, what):
        nonlocal n
        assert len(got) == len(want), what
        for g, w, arg in zip(got, want, what[1]):
            assert g == w, (what[0], arg, g, w)
            n += 1
    code = lambda s: [ord(c) for c in s]
    cmp_(vals[0], [code(t.strip()) for t in texts], ('strip', texts))
    cmp_(vals[1], [[code(p) for p in t.split()] for t in texts], ('split()', texts))
    cmp_(vals[2], [[code(p) for p in t.split('\n\n')] for t in texts], ('split(nl+nl)', texts))
    cmp_(vals[3], [[code(p) for p in t.split('\n')] for t in texts], ('split(nl)', texts))
    # print into StringIO(newline=None): equal to unlines unless a carriage return is written (the premise of L_written)
    keep = [i for i, t in enumerate(texts) if '\r' not in t]
    assert len(keep) < len(texts) and all(vals[4][i] != code(PyT.written(texts[i].split('a'))) for i in range(len(texts)) if i not in keep)
    cmp_([vals[4][i] for i in keep], [code(PyT.written(texts[i].split('a'))) for i in keep], ('print each line', [texts[i] for i in keep]))
    cmp_(vals[5], [code(' a'.join(t.split('\n'))) for t in texts], ('join', texts))
    cmp_(vals[6], [code(f'{k:d}') for k in numbers], ('format d', numbers))
    cmp_(vals[7], [int(t) for t in digit_texts], ('int', digit_texts))
    cmp_(vals[8], [code(''.join({False: '.', True: 'X'}[v] for v in r)) for r in rows], ('row text', rows))
    cmp_(vals[9], [chr(c).isspace() for c in codepoints], ('isspace', codepoints))
    cmp_(vals[10], [[code(t.ljust(w)) for w in widths] for t in texts], ('ljust', texts))
    cmp_(vals[10], [[code(('%%-%ds' % w) % t) for w in widths] for t in texts], ('%-Ns', texts))
    cmp_(vals[11], [[code(t.rjust(w)) for w in widths] for t in texts], ('rjust', texts))
    cmp_(vals[11], [[code(('%%%ds' % w) % t) for w in widths] for t in texts], ('%Ns', texts))
    cmp_(vals[12], [[code(t.lstrip()), code(t.rstrip())] for t in texts], ('lstrip / rstrip', texts))
    cmp_(vals[13], [[code(t.strip('a')), code(t.lstrip('a')), code(t.rstrip('a'))] for t in texts], ('strip(c) / lstrip(c) / rstrip(c)', texts))
    cmp_(vals[14], [[code(t.partition('\n')[0]), code(t.partition('\n')[2]), code(t.partition('a')[0]), code(t.partition('a')[2]), code(t.partition('a')[1])]
                    for t in texts],
         ('partition', texts))
    cmp_(vals[15], [[code(l) for l in PyT.readlines(t)] for t in texts], ('lines of a file', texts))
    cmp_(vals[16], [[code(p) for p in t.split('a')] for t in texts], ('split(c)', texts))
    # the % operator: the Lean model agrees with the python copy on every case; where it gives a text, CPython gives the same text
    assert vals[17] == [([1] + code(m_pct_format(t, A))) if m_pct_format(t, A) is not None else [0] for t, A in pct_cases]
    for got, (t, A) in zip(vals[17], pct_cases):
        if got[0] == 1:
            assert got[1:] == code(t % A), (t, A)
            n += 1
    assert sum(1 for g in vals[17] if g[0] == 1) > 50
    cmp_(vals[18], [[[code(f) for f in r] for r in PyT.csv_rows(t)] for t in csv_texts], ('csv reader rows', csv_texts))
    cmp_(vals[19], [[code(f) for f in PyT.csv_rows(t + '\n')[0]] for t in csv_lines], ('csv reader fields of a line', csv_lines))
    return n + selftest_lean_csv(maxlen)


def selftest_lean_csv(maxlen=4, lean_file=None):
    """Run the DEFINITIONS of lemmas/TextCsv.lean (csvWriteRows, csvReadRows, csvReadLines; `#eval` in a scratch copy of the file) on an
    enumerated scope and compare every result with CPython's csv module in the excel dialect.  Returns the number of comparisons."""
    import csv
    import json
    import os
    import random
    import subprocess
    import tempfile
    here = os.path.dirname(os.path.dirname(os.path.abspath(__file__)))
    lean_file = lean_file or os.path.join(here, 'lemmas', 'TextCsv.lean')
    with open(lean_file, encoding='utf-8') as f:
        src = f.read()
    rnd = random.Random(7)
    chars = CSV_ALPHABET + ('a', '\t', '\x00', '\x85', '\u2028', '\xe9')
    texts = list(_texts(CSV_ALPHABET, maxlen - 1)) + list(_texts((',', '"', '\n', 'X'), maxlen + 1)) \
        + [''.join(rnd.choice(chars) for _ in range(rnd.randrange(0, 30))) for _ in range(300)]
    cells = list(_texts(CSV_ALPHABET, 2)) + ['a b', ' X ', 'X\r\nX', '"X"', ',,', 'long label, "quoted"\n']
    tables = [[]] + [[[c]] for c in cells] + [[list(r)] for r in itertools.product(cells[:7], repeat=2)] + [[[]], [[], ['']], [[''], [], ['', '']]] \
        + [[[rnd.choice(cells) for _ in range(rnd.randrange(0, 5))] for _ in range(rnd.randrange(0, 4))] for _ in range(300)]
    pool = ['', 'X', '"X', 'X"', ',', '\n', '\r', 'X,\n', '"', '""', 'X\rX', '"\n']
    line_lists = [list(l) for k in range(0, 3) for l in itertools.product(pool, repeat=k)] + [['"X', '', 'X"'], ['', 'X', '', '"X', '', 'Y"'], ['X\n', '\rX']]
    lim = csv.field_size_limit()
    q = lambda xs: '[' + ', '.join(xs) + ']'
    NONE = 0x110000          # no code point: marks the result `none` (_csv.Error)
    enc = '(fun (o : Option (List Row)) => match o with | none => [[[%d]]] | some rows => rows.map (fun (r : Row) => r.map (fun (f : List Char) => f.map Char.toNat)))' % NONE
    prog = ['open TextCsv in', 'def selftestTexts : List (List Char) := ' + q(_lean_str(t) for t in texts),
            'open TextCsv in', 'def selftestTables : List (List Row) := ' + q(q(q(_lean_str(c) for c in r) for r in R) for R in tables),
            'open TextCsv in', 'def selftestLines : List (List (List Char)) := ' + q(q(_lean_str(l) for l in L) for L in line_lists)]
    for small in (lim, 3, 0):
        prog += ['open TextCsv in', '#eval IO.println (toString (selftestTexts.map (fun s => %s (csvReadRows %d s))))' % (enc, small)]
    prog += ['open TextCsv in', '#eval IO.println (toString (selftestTables.map (fun R => (csvWriteRows R).map Char.toNat)))',
             'open TextCsv in', '#eval IO.println (toString (selftestTables.map (fun R => %s (csvReadRows %d (csvWriteRows R)))))' % (enc, lim),
             'open TextCsv in', '#eval IO.println (toString (selftestLines.map (fun L => %s (csvReadLines %d L))))' % (enc, lim)]
    with tempfile.TemporaryDirectory() as d:
        fn = os.path.join(d, 'TextCsvSelftest.lean')
        with open(fn, 'w', encoding='utf-8') as f:
            f.write(src + '\n\n' + '\n'.join(prog) + '\n')
        out = subprocess.run(['lake', 'env', 'lean', fn], cwd=LEAN_DIR, capture_output=True, text=True, timeout=900)
    lines = [l for l in out.stdout.splitlines() if l.startswith('[')]
    assert out.returncode == 0 and len(lines) == 6, (out.returncode, out.stdout[-2000:], out.stderr[-2000:])
    vals = [json.loads(l) for l in lines]
    code = lambda s: [ord(c) for c in s]
    rows_code = lambda rows: [[[NONE]]] if rows is None else [[code(f) for f in r] for r in rows]
    n = 0

    def cmp_(got, want, what):
        nonlocal n
        assert len(got) == len(want), what[0]
        for g, w, arg in zip(got, want, what[1]):
            assert g == w, (what[0], arg, g, w)
            n += 1
    try:
        for i, small in enumerate((lim, 3, 0)):
            csv.field_size_limit(small)
            cmp_(vals[i], [rows_code(PyT.csv_excel_rows(t)) for t in texts], ('csv.reader over io.StringIO(text), limit %d' % small, texts))
    finally:
        csv.field_size_limit(lim)
    assert any(v == [[[NONE]]] for v in vals[0]) and sum(v == [[[NONE]]] for v in vals[1]) > sum(v == [[[NONE]]] for v in vals[0])
    cmp_(vals[3], [code(PyT.csv_excel_text(R)) for R in tables], ('csv.writer', tables))
    cmp_(vals[4], [rows_code(PyT.csv_excel_rows(PyT.csv_excel_text(R))) for R in tables], ('csv.reader on the written text', tables))
    assert vals[4] == [rows_code(R) for R in tables]
    cmp_(vals[5], [rows_code(PyT.csv_excel_lines(L)) for L in line_lists], ('csv.reader over a list of lines', line_lists))
    return n


if __name__ == '__main__':
    import sys
    print('selftest', selftest(verbose=True))
    if '--lean' in sys.argv:
        print('selftest_lean', selftest_lean())
