"""In-memory mutants: the 'deliberately broken body' test of the VC generator (DESIGN 3.5).

Each mutant is a textual edit of a repository file applied in memory (extract.OVERRIDES) and pushed through
the proof units; every mutant marked 'breaks' must lose at least one obligation in one of the listed units, every
mutant marked 'equivalent' must keep all of them (no false alarm on a behaviour-preserving edit).
"""
import sys
import os

from . import extract, run as pyrun

M = 'concepts/matrices.py'
LM = 'concepts/lattice_members.py'
CX = 'concepts/contexts.py'
LT = 'concepts/lattices.py'
LI = 'concepts/algorithms/lindig.py'
CO = 'concepts/algorithms/common.py'
FC = 'concepts/algorithms/fcbo.py'
VZ = 'concepts/visualize.py'
JU = 'concepts/junctors.py'
FB = 'concepts/formats/base.py'
FF = 'concepts/formats/fimi.py'
AI = 'concepts/algorithms/__init__.py'
CM = 'concepts/_common.py'
TL = 'concepts/tools.py'
_BSP = 'ABS:/venv/lib/python3.12/site-packages/bitsets/'
BI, BB, BM, BS, BC = _BSP + 'integers.py', _BSP + 'bases.py', _BSP + 'meta.py', _BSP + 'series.py', _BSP + 'combos.py'
DF = 'concepts/definitions.py'
FCX, FTB, FWK = 'concepts/formats/cxt.py', 'concepts/formats/table.py', 'concepts/formats/wiki_table.py'
FCSV = 'concepts/formats/csv_context.py'
FPL = 'concepts/formats/python_literal.py'
_DUMPF = ['formats.python_literal.dump_file.fresh', 'formats.python_literal.dump_file.serialized']

MUTANTS = [
    # (file, old, new, units, 'breaks'|'equivalent')
    (M, 'i += shift', 'i += shift + 1', ['matrices.prime'], 'breaks'),
    (M, 'prime &= other[i]', 'prime &= other[i + 1]', ['matrices.prime'], 'breaks'),
    (M, 'prime &= other[i]', 'prime |= other[i]', ['matrices.prime'], 'breaks'),
    (M, 'prime = Prime', 'prime = Double', ['matrices.prime'], 'breaks'),
    (M, 'if not shift:', 'if shift:', ['matrices.prime'], 'breaks'),
    (M, 'bitset >>= shift', 'bitset >>= 1', ['matrices.prime'], 'breaks'),
    (M, 'while bitset:', 'while bitset > 1:', ['matrices.prime'], 'breaks'),
    (M, 'return make_prime(prime)', 'return make_prime(prime & Prime)', ['matrices.prime'], 'equivalent'),
    (M, 'double &= self[i]', 'double &= other[i]', ['matrices.double', 'matrices.doubleprime'], 'breaks'),
    (M, 'return make_double(double), make_prime(prime)', 'return make_prime(prime), make_double(double)', ['matrices.doubleprime'], 'breaks'),
    (M, 'double = Double\n\n            i = 0\n            while prime:', 'double = Prime\n\n            i = 0\n            while prime:', ['matrices.double'], 'breaks'),
    (LM, 'return self._extent & other._extent == self._extent\n', 'return self._extent | other._extent == self._extent\n', ['members.implies'], 'breaks'),
    (LM, 'return self._extent & other._extent == self._extent != other._extent', 'return self._extent & other._extent == self._extent', ['members.properly_implies'], 'breaks'),
    (LM, 'return self._extent | other._extent == self._extent != other._extent', 'return self._extent | other._extent == other._extent != self._extent', ['members.properly_subsumes'], 'breaks'),
    (LM, 'return self._extent & other._extent == self._extent\n', 'return other._extent | self._extent == other._extent\n', ['members.implies'], 'equivalent'),
    (LM, 'return not self._extent & other._extent\n', 'return not self._extent | other._extent\n', ['members.incompatible_with'], 'breaks'),
    (LM, "return (not self._extent & other._extent\n                and (self._extent | other._extent) == self.lattice.supremum._extent)",
         "return (not self._extent & other._extent\n                or (self._extent | other._extent) == self.lattice.supremum._extent)", ['members.complement_of'], 'breaks'),
    (LM, 'and meet != other._extent', 'and meet == other._extent', ['members.orthogonal_to'], 'breaks'),
    (LM, 'common = self._extent | other._extent', 'common = self._extent & other._extent', ['members.join'], 'breaks'),
    (LM, 'common = self._extent & other._extent', 'common = self._extent | other._extent', ['members.meet'], 'breaks'),
    (CX, 'intent = self._Objects.frommembers(objects).prime()', 'intent = self._Objects.frommembers(objects).double()', ['contexts.intension'], 'breaks'),
    (CX, 'extent = self._Properties.frommembers(properties).prime()', 'extent = self._Objects.frommembers(properties).prime()', ['contexts.extension'], 'breaks'),
    (CX, 'intent, extent = intent.doubleprime()', 'extent, intent = intent.doubleprime()', ['contexts.getitem'], 'breaks'),
    (CX, 'if it.prime() == extent:', 'if it.prime() & extent == extent:', ['contexts.minimize'], 'breaks'),
    (CX, "        if not extent:\n            yield intent\n            return", "        if not extent:\n            yield intent", ['contexts.minimize'], 'breaks'),
    (LI, 'if extent & ~objects_and_add & minimal:', 'if extent & ~objects_and_add:', ['lindig.neighbors'], 'breaks'),
    (LI, 'minimal &= ~add', 'minimal &= ~objects_and_add', ['lindig.neighbors'], 'equivalent'),
    (LI, 'minimal &= ~add', 'pass', ['lindig.neighbors'], 'breaks'),
    (LI, 'objects_and_add = objects | add', 'objects_and_add = add', ['lindig.neighbors'], 'breaks'),
    (LI, 'yield extent, intent', 'yield intent, extent', ['lindig.neighbors'], 'breaks'),
    (LI, 'minimal = ~objects', 'minimal = Objects.supremum', ['lindig.neighbors'], 'breaks'),
    (LI, 'if extent & ~objects_and_add & minimal:', 'if extent & ~objects & minimal:', ['lindig.neighbors'], 'breaks'),
    (LI, 'if extent & ~objects_and_add & minimal:', 'if extent & minimal & ~objects_and_add:', ['lindig.neighbors'], 'equivalent'),
    (CO, 'if index > seen:', 'if index >= seen:', ['common.iterunion'], 'breaks'),
    (CO, 'seen = index', 'pass', ['common.iterunion'], 'breaks'),
    (CO, 'push((sortkey(c), c))', 'push((sortkey(concept), c))', ['common.iterunion'], 'breaks'),
    (CO, 'for c in next_concepts(concept):', 'for c in next_concepts(concept)[:0]:', ['common.iterunion'], 'breaks'),
    (CO, 'heap = [(sortkey(c), c) for c in concepts]', 'heap = [(sortkey(c), c) for c in concepts if sortkey(c)]', ['common.iterunion'], 'breaks'),
    (CO, 'seen = -1', 'seen = 0', ['common.iterunion'], 'breaks'),
    (CO, '            yield concept\n            for c in next_concepts(concept):\n                push((sortkey(c), c))',
         '            for c in next_concepts(concept):\n                push((sortkey(c), c))\n            yield concept', ['common.iterunion'], 'equivalent'),
    (VZ, 'if concept.objects:', 'if concept.properties:', ['visualize.lattice'], 'breaks'),
    (VZ, 'headlabel=make_object_label(concept.objects)', 'headlabel=make_property_label(concept.objects)', ['visualize.lattice'], 'breaks'),
    (VZ, 'taillabel=make_property_label(concept.properties)', 'taillabel=make_property_label(concept.objects)', ['visualize.lattice'], 'breaks'),
    (VZ, "labelangle='270'", "labelangle='90'", ['visualize.lattice'], 'breaks'),
    (VZ, 'dot.edges((name, node_name(c))', 'dot.edges((node_name(c), name)', ['visualize.lattice'], 'breaks'),
    (VZ, 'sorted(concept.lower_neighbors, key=sortkey)', 'sorted(concept.lower_neighbors, key=sortkey)[1:]', ['visualize.lattice'], 'breaks'),
    (VZ, '        dot.node(name)\n', '        dot.node(name)\n        if not concept.lower_neighbors:\n            continue\n', ['visualize.lattice'], 'breaks'),
    (VZ, "NAME_GETTERS = [lambda c: f'c{c.index:d}']", "NAME_GETTERS = [lambda c: f'c{c.index + 1:d}']", ['visualize.lattice'], 'breaks'),
    (VZ, 'if render or view:', 'if render:', ['visualize.lattice'], 'breaks'),
    (VZ, 'sorted(concept.lower_neighbors, key=sortkey)', 'sorted(concept.lower_neighbors, key=lambda c: -c.index)', ['visualize.lattice'], 'equivalent'),
    (CX, "and self.bools == other.bools)", "and self.bools == self.bools)", ['contexts.__eq__'], 'breaks'),
    (CX, "return not self == other", "return self == other", ['contexts.__ne__'], 'breaks'),
    (FC, 'j_extent = extent & context._extents[j]', 'j_extent = extent | context._extents[j]', ['fcbo.fast_generate_from'], 'breaks'),
    (FC, 'stack = [(Objects.supremum.doubleprime(), 0, [Properties.infimum] * n_properties)]',
         'stack = [((Objects.supremum, Properties.infimum), 0, [Properties.infimum] * n_properties)]', ['fcbo.fast_generate_from'], 'breaks'),
    (FC, 'concept = (Objects.fromint(j_extent), Properties.fromint(j_intent))\n                    stack.append((concept, j + 1, next_property_sets))',
         'concept = (Objects.fromint(j_extent), Properties.fromint(j_lower))\n                    stack.append((concept, j + 1, next_property_sets))', ['fcbo.fast_generate_from'], 'breaks'),
    (FC, 'j_extent = extent & context._extents[j]', 'j_extent = extent & context._extents[j + 1]', ['fcbo.fast_generate_from'], 'breaks'),
    # still sound (a row intent is closed): breaks only the unproved completeness/uniqueness clauses
    (FC, 'j_intent = intent & context._intents[j]', 'j_intent = context._intents[j]', ['fcbo.fcbo_dual'], 'equivalent'),
    (FC, 'j_extent = prime(j_intent)\n', 'j_extent = prime(intent)\n', ['fcbo.fcbo_dual'], 'breaks'),
    (FC, 'if x & intent == x:', 'if True:', ['fcbo.fast_generate_from'], 'equivalent'),
    (FC, 'stack.append((concept, j + 1, next_property_sets))', 'stack.append((concept, j + 2, next_property_sets))', ['fcbo.fast_generate_from'], 'breaks'),
    (TL, '    if len(iterable) < 2:', '    if len(iterable) < 3:', ['tools.maximal'], 'breaks'),
    (TL, '    if len(iterable) < 2:', '    if len(iterable) < 1:', ['tools.maximal'], 'equivalent'),
    (TL, '            if not any(starmap(comparison, pairs)))', '            if any(starmap(comparison, pairs)))', ['tools.maximal'], 'breaks'),
    (TL, '    iterable = set(iterable)\n    if len(iterable) < 2:', '    iterable = list(iterable)\n    if len(iterable) < 2:', ['tools.maximal'], 'breaks'),
    (TL, 'groupby(permutations(iterable, 2), key=_groupkey)', 'groupby(permutations(iterable, 2), key=operator.itemgetter(1))', ['tools.maximal'], 'breaks'),
    (CX, "        return junctors.Relations(self.properties,\n                                  self._extents.bools(),", "        return junctors.Relations(self.properties,\n                                  self._intents.bools(),", ['contexts.relations'], 'breaks'),
    (CX, "                                  self._extents.bools(),\n                                  include_unary)", "                                  self._extents.bools(),\n                                  True)", ['contexts.relations'], 'breaks'),
    (CX, "        return definitions.Definition(self.objects, self.properties, self.bools)", "        return definitions.Definition(self.properties, self.objects, self.bools)", ['contexts.definition'], 'breaks'),
    (DF, "        yield self.objects\n        yield self.properties\n        yield self.bools", "        yield self.properties\n        yield self.objects\n        yield self.bools", ['definitions.__iter__'], 'breaks'),
    (DF, "        return formats.Format[frmat].dumps(*self, **kwargs)", "        return formats.Format[frmat].dumps(*self)", ['definitions.tostring'], 'breaks'),
    (DF, "        return fractions.Fraction(len(self._pairs), self.shape.size)", "        return fractions.Fraction(len(self._pairs), len(self.objects))", ['definitions.fill_ratio'], 'breaks'),
    (CX, "        n_true = sum(intent.count() for intent in self._intents)", "        n_true = len(self._intents)", ['contexts.fill_ratio'], 'breaks'),
    (CX, "        return tools.crc32_hex(self.tostring().encode(encoding))", "        return tools.crc32_hex(self.tostring(frmat='csv').encode(encoding))", ['contexts.crc32'], 'breaks'),
    (CM, "        return cls(len(objects), len(properties))", "        return cls(len(properties), len(objects))", ['_common.Shape._from_pair'], 'breaks'),
    (CM, "        return self.objects * self.properties", "        return self.objects + self.properties", ['_common.Shape.size'], 'breaks'),
    # the bitsets package (contracts/bitsets_lib.py)
    (BI, "        if n & 1:\n            yield i\n        i += 1", "        if n & 1:\n            yield i + 1\n        i += 1", ['bitsets.integers.indexes'], 'breaks'),
    (BI, "        i += 1\n        n >>= 1", "        i += 1\n        n >>= 2", ['bitsets.integers.indexes'], 'breaks'),
    (BI, "        if not n & 1:\n            result |= r", "        if n & 1:\n            result |= r", ['bitsets.integers.reinverted'], 'breaks'),
    (BI, "    r = 1 << (r - 1)", "    r = 1 << r", ['bitsets.integers.reinverted'], 'breaks'),
    (BI, "        result |= (r << 1) - 1", "        result |= r - 1", ['bitsets.integers.reinverted'], 'breaks'),
    (BB, "        return tuple(not not self & a for a in self._atoms)", "        return tuple(not self & a for a in self._atoms)", ['bitsets.MemberBits.bools'], 'breaks'),
    (BB, "        return filter(self.__and__, atoms)", "        return filterfalse(self.__and__, atoms)", ['bitsets.MemberBits.atoms'], 'breaks'),
    (BB, "        atoms = reversed(self._atoms) if reverse else self._atoms\n        return filterfalse", "        atoms = self._atoms if reverse else reversed(self._atoms)\n        return filterfalse", ['bitsets.MemberBits.inatoms'], 'breaks'),
    (BB, "            return frozenset(map(self._members.__getitem__, self._indexes()))", "            return tuple(map(self._members.__getitem__, self._indexes()))", ['bitsets.MemberBits.members'], 'breaks'),
    (BM, "        inters = self.supremum.copy()", "        inters = self.infimum.copy()", ['bitsets.Meta.reduce_and'], 'breaks'),
    (BM, "            union |= b", "            union &= b", ['bitsets.Meta.reduce_or'], 'breaks'),
    (BM, "        self._atoms = tuple(self.fromint(1 << i) for i in range(self._len))", "        self._atoms = tuple(self.fromint(1 << i) for i in range(1, self._len + 1))", ['bitsets.Meta.__init__'], 'breaks'),
    (BM, "        self.supremum = self.fromint((1 << self._len) - 1)", "        self.supremum = self.fromint(1 << self._len)", ['bitsets.Meta.__init__'], 'breaks'),
    (BM, "        self._map = dict(zip(self._members, self._atoms))", "        self._map = dict(zip(self._atoms, self._members))", ['bitsets.Meta.__init__'], 'breaks'),
    (BS, "        return [b.bools() for b in self]", "        return [b.bools() for b in self[1:]]", ['bitsets.Series.bools'], 'breaks'),
    (BS, "        return cls.frombitsets(map(cls.BitSet.frombools, bools))", "        return cls.frombitsets(map(cls.BitSet.frommembers, bools))", ['bitsets.Series.frombools'], 'breaks'),
    (BB, "        return cls.fromint(sum(map(cls._map.__getitem__, set(members))))", "        return cls.fromint(sum(map(cls._map.__getitem__, members)))", ['bitsets.MemberBits.frommembers'], 'breaks'),
    (BB, "        return cls.fromint(sum(compress(cls._atoms, bools)))", "        return cls.fromint(sum(cls._atoms))", ['bitsets.MemberBits.frombools'], 'breaks'),
    (BB, "        return bin(self).count('1'), self._reinverted(self._len)", "        return bin(self).count('1'), self._int", ['bitsets.MemberBits.shortlex'], 'breaks'),
    (BB, "        return -bin(self).count('1'), self._reinverted(self._len)", "        return bin(self).count('1'), self._reinverted(self._len)", ['bitsets.MemberBits.longlex'], 'breaks'),
    (BC, "            first, other = other[0], other[1:]", "            first, other = other[0], other[2:]", ['bitsets.combos.shortlex'], 'breaks'),
    (BC, "            result = current | first\n\n            yield result\n\n            if other:\n                queue.append((result, other))\n\n\ndef reverse",
         "            result = current & first\n\n            yield result\n\n            if other:\n                queue.append((result, other))\n\n\ndef reverse", ['bitsets.combos.shortlex'], 'breaks'),
    (BC, "        current, other = queue.popleft()\n\n        while other:\n            first, other = other[0], other[1:]\n            result = current | first",
         "        current, other = queue.pop()\n\n        while other:\n            first, other = other[0], other[1:]\n            result = current | first", ['bitsets.combos.shortlex'], 'breaks'),
    (BC, "    if not excludestart:\n        yield start", "    if excludestart:\n        yield start", ['bitsets.combos.shortlex'], 'breaks'),
    (BC, "            if other:\n                queue.append((result, other))\n\n\ndef reverse", "            if other:\n                queue.append((current, other))\n\n\ndef reverse", ['bitsets.combos.shortlex'], 'breaks'),
    # the order of combos.shortlex among sets of equal size (yield/shortlex-order, invariants O1-O3, lemma.powerset.order)
    (BC, "            first, other = other[0], other[1:]", "            first, other = other[-1], other[:-1]", ['bitsets.combos.shortlex'], 'breaks'),
    (BC, "            if other:\n                queue.append((result, other))\n\n\ndef reverse", "            if other:\n                queue.appendleft((result, other))\n\n\ndef reverse",
         ['bitsets.combos.shortlex'], 'breaks'),
    (BC, "            yield result\n\n            if other:\n                queue.append((result, other))\n\n\ndef reverse",
         "            if other:\n                queue.append((result, other))\n\n            yield result\n\n\ndef reverse", ['bitsets.combos.shortlex'], 'equivalent'),
    (BB, "        return map(self.frombitset, combos.shortlex(start, list(other)))", "        return map(self.frombitset, combos.shortlex(start, list(other)[::-1]))",
         ['bitsets.MemberBits.powerset'], 'breaks'),
    (BB, "        return map(self.frombitset, combos.shortlex(start, list(other)))", "        return map(self.frombitset, combos.shortlex(self, list(other)))", ['bitsets.MemberBits.powerset'], 'breaks'),
    # completeness / exactly-once of FCbO (units fcbo.*.complete)
    (FC, 'stack.append((concept, j + 1, next_property_sets))', 'stack.append((concept, j + 2, next_property_sets))', ['fcbo.fast_generate_from.complete'], 'breaks'),
    (FC, '                if j_lower & intent == j_lower:', '                if True:', ['fcbo.fast_generate_from.complete'], 'breaks'),
    (FC, 'if x & intent == x:', 'if True:', ['fcbo.fast_generate_from.complete'], 'equivalent'),
    (FC, 'if x & intent == x:', 'if x & intent != x:', ['fcbo.fast_generate_from.complete'], 'breaks'),
    (FC, 'next_property_sets = property_sets.copy()', 'next_property_sets = property_sets', ['fcbo.fast_generate_from.complete'], 'breaks'),
    (FC, '                    next_property_sets[j] = j_intent', '                    pass', ['fcbo.fast_generate_from.complete'], 'equivalent'),
    (FC, '                    next_property_sets[j] = j_intent', '                    next_property_sets[j] = intent', ['fcbo.fast_generate_from.complete'], 'equivalent'),
    (FC, '                    next_property_sets[j] = j_intent', '                    next_property_sets[j] = Properties.supremum', ['fcbo.fast_generate_from.complete'], 'breaks'),
    (FC, '            j_mask = j_property - 1\n\n            x = next_property_sets[j] & j_mask', '            j_mask = j_property\n\n            x = next_property_sets[j] & j_mask', ['fcbo.fast_generate_from.complete'], 'breaks'),
    (FC, 'if property_index == n_properties or not extent:', 'if property_index == n_properties:', ['fcbo.fast_generate_from.complete'], 'equivalent'),
    (FC, 'if property_index == n_properties or not extent:', 'if not extent:', ['fcbo.fast_generate_from.complete'], 'equivalent'),
    (FC, 'if property_index == n_properties or not extent:', 'if property_index == n_properties or extent:', ['fcbo.fast_generate_from.complete'], 'breaks'),
    (FC, 'stack = [(Objects.supremum.doubleprime(), 0, [Properties.infimum] * n_properties)]',
         'stack = [(Objects.supremum.doubleprime(), 1, [Properties.infimum] * n_properties)]', ['fcbo.fast_generate_from.complete'], 'breaks'),
    (FC, 'stack = [(Objects.supremum.doubleprime(), 0, [Properties.infimum] * n_properties)]',
         'stack = [(Objects.supremum.doubleprime(), 0, [Properties.supremum] * n_properties)]', ['fcbo.fast_generate_from.complete'], 'breaks'),
    (FC, '            x = next_property_sets[j] & j_mask', '            x = property_sets[j] & j_mask', ['fcbo.fast_generate_from.complete'], 'equivalent'),
    (FC, '            if j_property & intent:\n                continue', '            if j_property & extent:\n                continue', ['fcbo.fast_generate_from.complete'], 'breaks'),
    (FC, '        concept, property_index, property_sets = stack.pop()\n\n        yield concept', '        concept, property_index, property_sets = stack.pop()\n\n        yield concept\n        yield concept', ['fcbo.fast_generate_from.complete'], 'breaks'),
    (FC, 'stack.append((concept, j + 1, next_object_sets))', 'stack.append((concept, j + 1, object_sets))', ['fcbo.fcbo_dual.complete'], 'breaks'),
    (FC, '                if j_lower & extent == j_lower:', '                if j_lower & extent == j_lower or j == 0:', ['fcbo.fcbo_dual.complete'], 'equivalent'),
    (FC, '                if j_lower & extent == j_lower:', '                if j_lower & extent == j_lower or j == 1:', ['fcbo.fcbo_dual.complete'], 'breaks'),
    (FC, '            if extent & j_object:\n                continue', '            if extent & j_object:\n                break', ['fcbo.fcbo_dual.complete'], 'breaks'),
    (FC, "                    next_object_sets[j] = j_extent", "                    next_object_sets[j - 1] = j_extent", ['fcbo.fcbo_dual.complete'], 'breaks'),
    (CX, "or {len(b) for b in bools} != {len(properties)}):",
         "or sum(map(len, bools)) != len(objects) * len(properties)):", ['contexts.__init__'], 'breaks'),
    (CX, "            if len(set(items)) != len(items):", "            if len(set(items)) > len(items):", ['contexts.__init__'], 'breaks'),
    (CX, "        if not set(objects).isdisjoint(properties):", "        if set(objects).isdisjoint(properties):", ['contexts.__init__'], 'breaks'),
    (CX, "                                                         properties, objects, bools)",
         "                                                         objects, properties, bools)", ['contexts.__init__'], 'breaks'),
    (CX, "        self._Objects = self._extents.BitSet", "        self._Objects = self._intents.BitSet", ['contexts.__init__'], 'breaks'),
    (CX, "            if not items:\n                raise ValueError(f'empty {name}')", "            if not items:\n                raise KeyError(f'empty {name}')", ['contexts.__init__'], 'breaks'),
    (AI, 'return map(Concept._make, iterconcepts)', 'return iterconcepts', ['algorithms.iterconcepts'], 'breaks'),
    (CM, 'return cls(map(Concept._make, iterconcepts))', 'return cls(iterconcepts)', ['common.frompairs'], 'breaks'),
    (LT, 'join = self._context._Objects.reduce_or(extents)', 'join = self._context._Objects.reduce_and(extents)', ['lattices.join'], 'breaks'),
    (LT, 'return self._mapping[meet.double()]', 'return self._mapping[meet]', ['lattices.meet'], 'equivalent'),
    (LT, 'return self._mapping[join.double()]', 'return self._mapping[join]', ['lattices.join'], 'breaks'),
    (LT, "        if not key:\n            return self.supremum", "        if not key:\n            return self.infimum", ['lattices.__getitem__.empty'], 'breaks'),
    (LT, "extent = self._context.extension(properties, raw=True)", "extent = self._context.extension(properties)", ['lattices.__call__'], 'breaks'),
    (LT, "concepts = tools.maximal(concepts, comparison=Concept.properly_subsumes)", "concepts = tools.maximal(concepts, comparison=Concept.properly_implies)", ['lattices.upset_union'], 'breaks'),
    (LM, "_next_concepts=operator.attrgetter('lower_neighbors')):", "_next_concepts=operator.attrgetter('upper_neighbors')):", ['members.downset'], 'breaks'),
    (LM, "        return self._intent.members()\n\n\nclass Atom", "        return self._extent.members()\n\n\nclass Atom", ['members.infimum_minimal'], 'breaks'),
    (TL, "        idx = self._items.index(item)\n        self._seen.remove(item)\n        self._seen.add(new_item)",
         "        self._seen.add(new_item)\n        idx = self._items.index(item)\n        self._seen.remove(item)", ['tools.Unique.replace'], 'breaks'),
    (TL, "            self._seen.remove(item)\n            self._items.remove(item)", "            self._items.remove(item)", ['tools.Unique.discard'], 'breaks'),
    (TL, "        if item not in self._seen:\n            self._seen.add(item)\n            self._items.append(item)",
         "        self._seen.add(item)\n        self._items.append(item)", ['tools.Unique.add'], 'breaks'),
    (TL, "return self._fromargs(self._seen.copy(), self._items[:])", "return self._fromargs(self._seen, self._items[:])", ['tools.Unique.copy'], 'breaks'),
    (TL, "return self._fromargs(self._seen.copy(), self._items[:])", "return self._fromargs(self._seen.copy(), self._items)", ['tools.Unique.copy'], 'breaks'),
    (TL, "            self._items.insert(new_index, item)", "            self._items.insert(new_index + 1, item)", ['tools.Unique.move'], 'breaks'),
    (TL, "        if new_item in self._seen:\n            raise ValueError(f'{new_item!r} already in list')", "        pass", ['tools.Unique.replace'], 'breaks'),
    (TL, "        return item in self._seen", "        return item in self._items", ['tools.Unique.__contains__'], 'equivalent'),
    (DF, "        properties = tools.Unique(properties)\n", "        properties = set(properties)\n", ['definitions.set_object'], 'breaks'),
    (DF, "        self._objects.remove(obj)\n        self._pairs.difference_update((obj, p) for p in self._properties)", "        self._objects.remove(obj)", ['definitions.remove_object'], 'breaks'),
    (DF, "        self._pairs.difference_update((o, prop) for o in self._objects)", "        self._pairs.difference_update((prop, o) for o in self._objects)", ['definitions.remove_property'], 'breaks'),
    (DF, "        self._objects.replace(old, new)\n        pairs = self._pairs\n        pairs |= {(new, p) for p in self._properties\n                  if (old, p) in pairs and not pairs.remove((old, p))}",
         "        self._objects.replace(old, new)", ['definitions.rename_object'], 'breaks'),
    (DF, "                  if (old, p) in pairs and not pairs.remove((old, p))}", "                  if (old, p) in pairs}", ['definitions.rename_object'], 'breaks'),
    (DF, "        self._objects.add(obj)\n        self._properties |= properties\n        self._pairs.update((obj, p) for p in properties)",
         "        self._properties |= properties\n        self._pairs.update((obj, p) for p in properties)\n        self._objects.add(obj)", ['definitions.add_object'], 'equivalent'),
    (DF, "        self._properties |= properties\n        self._pairs.update((obj, p) for p in properties)", "        self._properties |= sorted(properties)\n        self._pairs.update((obj, p) for p in properties)", ['definitions.add_object'], 'breaks'),
    (DF, "        if value:\n            self._pairs.add(pair)\n        else:\n            self._pairs.discard(pair)", "        if value:\n            self._pairs.add(pair)", ['definitions.__setitem__'], 'breaks'),
    (DF, "            if p in properties:\n                pairs.add((obj, p))\n            else:\n                pairs.discard((obj, p))", "            if p in properties:\n                pairs.add((obj, p))", ['definitions.set_object'], 'breaks'),
    (DF, "        self._properties.move(prop, index)", "        self._objects.move(prop, index)", ['definitions.move_property'], 'breaks'),
    (DF, "        return self._fromargs(self._objects.copy(),\n                              self._properties.copy(),\n                              self._pairs.copy())",
         "        return self._fromargs(self._objects.copy(),\n                              self._properties.copy(),\n                              self._pairs)", ['definitions.copy'], 'breaks'),
    (DF, "        return self._fromargs(self._properties.copy(), self._objects.copy(),", "        return self._fromargs(self._properties, self._objects.copy(),", ['definitions.transposed'], 'breaks'),
    (DF, "{(p, o) for (o, p) in self._pairs})", "{(o, p) for (o, p) in self._pairs})", ['definitions.transposed'], 'breaks'),
    (DF, "                               if (o, p) not in pairs})", "                               if (p, o) not in pairs})", ['definitions.inverted'], 'breaks'),
    (DF, "        inst._pairs = _pairs\n        return inst", "        inst._pairs = set(_pairs)\n        return inst", ['definitions._fromargs'], 'breaks'),
    (DF, "        if not ignore_conflicts:\n            ensure_compatible(self, other)\n        self._objects |= other._objects",
         "        self._objects |= other._objects\n        if not ignore_conflicts:\n            ensure_compatible(self, other)", ['definitions.union_update'], 'breaks'),
    (DF, "        self._pairs &= other._pairs", "        self._pairs |= other._pairs", ['definitions.intersection_update'], 'breaks'),
    (DF, "        result = self.copy()\n        result.union_update(other, ignore_conflicts)\n        return result",
         "        result = self\n        result.union_update(other, ignore_conflicts)\n        return result", ['definitions.union'], 'breaks'),
    (DF, "        result = self.copy()\n        result.intersection_update(other, ignore_conflicts)", "        result = self.copy()\n        result.intersection_update(other)", ['definitions.intersection'], 'breaks'),
    (DF, "    difference = left._pairs ^ right._pairs", "    difference = left._pairs | right._pairs", ['definitions.conflicting_pairs'], 'breaks'),
    (DF, "    properties = left._properties & right._properties", "    properties = left._properties", ['definitions.conflicting_pairs'], 'breaks'),
    (DF, "    if conflicts:\n        raise ValueError", "    if len(conflicts) > 1:\n        raise ValueError", ['definitions.ensure_compatible'], 'breaks'),
    (DF, "        self.union_update(other)\n        return self", "        self.union_update(other, True)\n        return self", ['definitions.__ior__'], 'breaks'),
    (LI, "            upper.append(n_extent)\n", "            pass\n", ['lindig.lattice'], 'breaks'),
    (LI, "                mapping[n_extent][3].append(extent)", "                mapping[n_extent][2].append(extent)", ['lindig.lattice'], 'breaks'),
    (LI, "                mapping[n_extent][3].append(extent)", "                pass", ['lindig.lattice'], 'breaks'),
    (LI, "(n_extent, n_intent, [], [extent])", "(n_extent, n_intent, [], [])", ['lindig.lattice'], 'breaks'),
    (LI, "                push((n_extent.shortlex(), neighbor))", "                push((extent.shortlex(), neighbor))", ['lindig.lattice'], 'breaks'),
    (LI, "                push((n_extent.shortlex(), neighbor))", "                pass", ['lindig.lattice'], 'breaks'),
    (LI, "            if n_extent in mapping:", "            if n_extent not in mapping:", ['lindig.lattice'], 'breaks'),
    (LI, "    heap = [(extent.shortlex(), concept)]", "    heap = [(extent.shortlex(), (extent, intent, [], []))]", ['lindig.lattice'], 'breaks'),
    (LI, "    extent, intent = Objects.frommembers(infimum).doubleprime()", "    extent, intent = Objects.frommembers(infimum), Objects.frommembers(infimum).prime()", ['lindig.lattice'], 'breaks'),
    (LI, "        for n_extent, n_intent in neighbors(extent, Objects=Objects):", "        for n_extent, n_intent in neighbors(intent, Objects=Objects):", ['lindig.lattice'], 'breaks'),
    (LI, "mapping[n_extent] = neighbor = (n_extent, n_intent, [], [extent])\n                push((n_extent.shortlex(), neighbor))",
         "mapping[n_extent] = (n_extent, n_intent, [], [extent])\n                push((n_extent.shortlex(), (n_extent, n_intent, [], [extent])))", ['lindig.lattice'], 'breaks'),
    (LT, "            if c.objects:\n                c.objects.append(o)\n            else:\n                c.objects = [o]\n                touched.add(c)",
         "            if not c.objects:\n                c.objects.append(o)\n            else:\n                c.objects = [o]\n                touched.add(c)", ['lattices._annotate'], 'breaks'),
    (LT, "                c.objects = [o]\n                touched.add(c)", "                c.objects = [o]", ['lattices._annotate'], 'breaks'),
    (LT, "            extent = context.extension(context.intension([o]), raw=True)", "            extent = context.extension(context.intension([o]))", ['lattices._annotate'], 'breaks'),
    (LT, "        for c in touched:\n            c.properties = tuple(c.properties)", "        for c in touched:\n            c.objects = tuple(c.properties)", ['lattices._annotate'], 'breaks'),
    (LT, "                c.properties = [p]\n                touched.add(c)", "                c.objects = [p]\n                touched.add(c)", ['lattices._annotate'], 'breaks'),
    (LT, "        for p in context.properties:", "        for p in context.objects:", ['lattices._annotate'], 'breaks'),
    (LT, "            lower = (mapping[l] for l in c.lower_neighbors)\n            c.upper_neighbors = tuple(sorted(upper, key=shortlex))",
         "            lower = (mapping[l] for l in c.lower_neighbors)\n            c.upper_neighbors = tuple(sorted(upper, key=longlex))", ['lattices.__init__'], 'breaks'),
    (LT, "            lower = (mapping[l] for l in c.lower_neighbors)\n            c.upper_neighbors = tuple(sorted(upper, key=shortlex))\n            c.lower_neighbors = tuple(sorted(lower, key=longlex))",
         "            lower = (mapping[l] for l in c.lower_neighbors)\n            c.upper_neighbors = tuple(sorted(upper, key=shortlex))\n            c.lower_neighbors = tuple(sorted(upper, key=longlex))", ['lattices.__init__'], 'breaks'),
    (LT, "            c.index = index\n            upper = (mapping[u] for u in c.upper_neighbors)", "            c.index = index + 1\n            upper = (mapping[u] for u in c.upper_neighbors)", ['lattices.__init__'], 'breaks'),
    (LT, "            lower = (mapping[l] for l in c.lower_neighbors)\n            c.upper_neighbors = tuple(sorted(upper, key=shortlex))",
         "            lower = (mapping[l] for l in c.upper_neighbors)\n            c.upper_neighbors = tuple(sorted(upper, key=shortlex))", ['lattices.__init__'], 'breaks'),
    (LT, "        self._init(self, context, concepts, mapping=mapping)", "        self._init(self, context, concepts)", ['lattices.__init__'], 'breaks'),
    (LT, "        for dindex, c in enumerate(sorted(inst._concepts, key=inst._longlex)):", "        for dindex, c in enumerate(sorted(inst._concepts, key=inst._shortlex)):", ['lattices._init'], 'breaks'),
    (LT, "            c.atoms = tuple(a for a in atoms if e | a._extent == e)", "            c.atoms = tuple(a for a in atoms if e & a._extent)", ['lattices._init'], 'breaks'),
    (LT, "            c.atoms = tuple(a for a in atoms if e | a._extent == e)", "            c.atoms = tuple(a for a in atoms if e & a._extent == a._extent)", ['lattices._init'], 'equivalent'),
    (LT, "        inst.supremum.__class__ = Supremum\n        inst.infimum.__class__ = Infimum", "        inst.infimum.__class__ = Infimum\n        inst.supremum.__class__ = Supremum", ['lattices._init'], 'breaks'),
    (LT, "            c.dindex = dindex\n", "            c.dindex = dindex + 1\n", ['lattices._init'], 'breaks'),
    (JU, "        elif self is Replication:\n            self = Implication\n            left, right = right, left", "        elif self is Replication:\n            self = Implication", ['junctors.RelationMeta.__call__'], 'breaks'),
    (JU, "        if not self.binary:\n            right = pairs", "        if self.binary:\n            right = pairs", ['junctors.RelationMeta.__call__'], 'breaks'),
    (JU, "    Replication  <-  5| X| X|  | X|", "    Replication  <-  5| X| X| X| X|", ['junctors.RelationMeta.__call__', 'lemma.relation_patterns'], 'breaks'),
    (JU, "        self.sort(key=lambda r: r.order)", "        self.sort(key=lambda r: r.kind)", ['junctors.Relations.__init__'], 'breaks'),
    (JU, "if u.__class__ is Contingency), 2)", "if u.__class__ is not Contingency), 2)", ['junctors.Relations.__init__'], 'breaks'),
    (JU, "binary = (Relation(l, r, zip(lbools, rbools))", "binary = (Relation(r, l, zip(lbools, rbools))", ['junctors.Relations.__init__'], 'breaks'),
    (JU, "max((len(str(r.left)) for r in self), default=0)", "max(len(str(r.left)) for r in self)", ['junctors.Relations.tostring'], 'breaks'),
    (M, "        self.prime = self.BitSet.prime = prime", "        self.prime = self.BitSet.prime = double", ['matrices._pair_with'], 'breaks'),
    (M, "        Prime = other.BitSet.supremum  # noqa: N806", "        Prime = self.BitSet.supremum  # noqa: N806", ['matrices._pair_with'], 'breaks'),
    (M, "        y._pair_with(self, 1, x)", "        y._pair_with(self, 1, y)", ['matrices.Relation.__new__'], 'breaks'),
    (M, "        y = Y.Tuple.frombools(zip(*x.bools()))", "        y = Y.Tuple.frombools(x.bools())", ['matrices.Relation.__new__'], 'breaks'),
    (M, "            Y = bitsets.bitset(yname, ymembers, Vector, tuple=Vectors)  # noqa: N806", "            Y = X", ['matrices.Relation.__new__'], 'breaks'),
    (M, "            X = bitsets.meta.bitset(xname, xmembers, xid, Vector, None, Vectors)  # noqa: N806", "            X = bitsets.bitset(xname, xmembers, Vector, tuple=Vectors)  # noqa: N806", ['matrices.Relation.__new__.unpickle'], 'breaks'),
    (M, "            Y = bitsets.meta.bitset(yname, ymembers, yid, Vector, None, Vectors)  # noqa: N806", "            Y = bitsets.meta.bitset(yname, ymembers, xid, Vector, None, Vectors)  # noqa: N806", ['matrices.Relation.__new__.unpickle'], 'breaks'),
    (M, "            xid, yid = _ids", "            yid, xid = _ids", ['matrices.Relation.__new__.unpickle'], 'breaks'),
    (M, "        if _ids is not None:  # unpickle reconstruction", "        if _ids is None:  # unpickle reconstruction", ['matrices.Relation.__new__', 'matrices.Relation.__new__.unpickle'], 'breaks'),
    (CX, "            if not result.issubset(indexes):\n                raise ValueError('context contains invalid index')", "            pass", ['contexts.fromdict'], 'breaks'),
    (CX, "            if len(result) != len(r):\n                raise ValueError('context contains duplicated values')", "            pass", ['contexts.fromdict'], 'breaks'),
    (CX, "        if lattice is not None and not lattice:\n            raise ValueError('empty lattice')", "        pass", ['contexts.fromdict'], 'breaks'),
    (CX, "            raise ValueError(f'missing required keys in fromdict: {missing!r}')", "            raise KeyError(f'missing required keys in fromdict: {missing!r}')", ['contexts.fromdict'], 'breaks'),
    (CX, "            inst.lattice = lattices.Lattice._fromlist(inst, lattice, raw)", "            inst.lattice = lattices.Lattice._fromlist(inst, lattice, False)", ['contexts.fromdict'], 'breaks'),
    (CX, "        if not ignore_lattice and lattice is not None:", "        if lattice is not None:", ['contexts.fromdict'], 'breaks'),
    (CX, "        bools = [tuple(i in intent for i in indexes)", "        bools = [tuple(i not in intent for i in indexes)", ['contexts.fromdict'], 'breaks'),
    (CX, "            if not all(isinstance(v, str) for v in values):", "            if not any(isinstance(v, str) for v in values):", ['contexts.fromdict'], 'breaks'),
    # dropping the early row-count check is behaviour preserving: Context.__init__ rejects the mismatch with ValueError as well
    (CX, "        if len(context) != len(objects):", "        if False:", ['contexts.fromdict'], 'equivalent'),
    (LT, "            index_map = dict(enumerate(concepts))\n            shortlex = inst._shortlex\n            longlex = inst._longlex\n            concepts.sort(key=shortlex)",
         "            shortlex = inst._shortlex\n            longlex = inst._longlex\n            concepts.sort(key=shortlex)\n            index_map = dict(enumerate(concepts))", ['lattices._fromlist.raw'], 'breaks'),
    (LT, "            concepts.sort(key=shortlex)\n", "            concepts.sort(key=longlex)\n", ['lattices._fromlist.raw'], 'breaks'),
    (LT, "                upper = (index_map[i] for i in c.upper_neighbors)\n                lower = (index_map[i] for i in c.lower_neighbors)\n                c.upper_neighbors = tuple(sorted(upper, key=shortlex))",
         "                upper = (index_map[i] for i in c.upper_neighbors)\n                lower = (index_map[i] for i in c.lower_neighbors)\n                c.upper_neighbors = tuple(upper)", ['lattices._fromlist.raw'], 'breaks'),
    (LT, "                c.lower_neighbors = tuple(concepts[i] for i in c.lower_neighbors)", "                c.lower_neighbors = tuple(concepts[i] for i in c.upper_neighbors)", ['lattices._fromlist.ordered'], 'breaks'),
    (LT, "make_properties(sum(1 << i for i in in_)),", "make_properties(sum(1 << i for i in ex)),", ['lattices._fromlist.ordered', 'lattices._fromlist.raw'], 'breaks'),
    (LT, "        cls._init(inst, context, concepts)\n        return inst", "        cls._init(inst, context, concepts, unpickle=True)\n        return inst", ['lattices._fromlist.ordered'], 'breaks'),
    (CX, "                            require_lattice=require_lattice, raw=raw)", "                            require_lattice=require_lattice)", ['contexts.fromjson'], 'breaks'),
    (CX, "        elif ignore_lattice is None and 'lattice' not in self.__dict__:", "        elif ignore_lattice is None:", ['contexts.todict.none'], 'breaks'),
    (M, "                 (X._id, Y._id)))", "                 (Y._id, X._id)))", ['matrices.Relation.__reduce__'], 'breaks'),
    (LT, "                 tuple(u.index for u in c.upper_neighbors),", "                 tuple(u.dindex for u in c.upper_neighbors),", ['lattices._tolist'], 'breaks'),
    (FB, "        with open(filename, encoding=encoding, newline=cls.newline) as f:\n            return cls.loadf(f, **kwargs)",
         "        with open(filename, encoding=encoding) as f:\n            return cls.loadf(f, **kwargs)", ['formats.Format.load'], 'breaks'),
    (FB, "            return self.by_suffix[suffix.lower()]", "            return self.by_suffix[suffix]", ['formats.FormatMeta.infer_format'], 'breaks'),
    (FF, "    rows = iter_fimi_rows(bools)", "    rows = filter(None, iter_fimi_rows(bools))", ['formats.fimi.dump_file'], 'breaks'),
    (FF, "        yield [i for i, value in enumerate(row) if value]", "        yield [i + 1 for i, value in enumerate(row) if value]", ['formats.fimi.iter_fimi_rows'], 'breaks'),
    (FF, "        yield [i for i, value in enumerate(row) if value]", "        yield [i for i, value in enumerate(row) if not value]", ['formats.fimi.iter_fimi_rows'], 'breaks'),
    (CX, "        if args.serialized is not None:\n            return cls.fromdict(args.serialized)\n        return cls(args.objects, args.properties, args.bools)\n\n    @classmethod\n    def fromfile",
         "        return cls(args.objects, args.properties, args.bools)\n\n    @classmethod\n    def fromfile", ['contexts.fromstring'], 'breaks'),
    (DF, "            if objects is not None:\n                obj &= objects", "            if objects:\n                obj &= objects", ['definitions.take'], 'breaks'),
    (DF, "            obj = self._objects.copy()\n            prop = self._properties.copy()\n            if objects is not None:",
         "            obj = self._objects\n            prop = self._properties.copy()\n            if objects is not None:", ['definitions.take'], 'breaks'),
    (DF, "                               if (o, p) in pairs})", "                               })", ['definitions.take'], 'breaks'),
    (DF, "        empty_objects = [o for o in self._objects if o not in nonempty_objects]", "        empty_objects = [o for o in self._objects if o in nonempty_objects]", ['definitions.remove_empty_objects'], 'breaks'),
    (DF, "        nonempty_properties = {p for _, p in self._pairs}", "        nonempty_properties = {p for p, _ in self._pairs}", ['definitions.remove_empty_properties'], 'breaks'),
    (DF, "        for p in empty_properties:\n            self._properties.remove(p)\n        return empty_properties", "        for p in empty_properties:\n            self._properties.remove(p)\n        return sorted(empty_properties)", ['definitions.remove_empty_properties'], 'breaks'),
    (DF, "        if len(self._objects) != len(objects):\n            raise ValueError(f'duplicate objects: {objects!r}')", "        pass", ['definitions.__init__'], 'breaks'),
    (DF, "                       for p, b in zip(properties, boo) if b}", "                       for p, b in zip(properties, boo) if not b}", ['definitions.__init__'], 'breaks'),
    (TL, "        self._items = [item for item in iterable\n", "        self._items = [item for item in set(iterable)\n", ['tools.Unique.__init__'], 'breaks'),
    (TL, "                       if item not in seen and not add(item)]", "                       if not add(item)]", ['tools.Unique.__init__'], 'breaks'),
    (TL, "        return all(map(self._seen.__contains__, items))", "        return any(map(self._seen.__contains__, items))", ['tools.Unique.issuperset'], 'breaks'),
    (DF, "        return [tuple((o, p) in pairs for p in prop) for o in self._objects]", "        return [tuple((p, o) in pairs for p in prop) for o in self._objects]", ['definitions.bools'], 'breaks'),
    # line / structure level of the text formats (contracts/formats_lines.py)
    (FCX, "    yield from objects\n    yield from properties", "    yield from properties\n    yield from objects", ['formats.cxt.iter_cxt_lines'], 'breaks'),
    (FCX, "    yield f'{len(objects):d}'\n    yield f'{len(properties):d}'", "    yield f'{len(properties):d}'\n    yield f'{len(objects):d}'", ['formats.cxt.iter_cxt_lines'], 'breaks'),
    (FCX, "        yield ''.join(symbols[value] for value in row)", "        yield ''.join(symbols[not value] for value in row)", ['formats.cxt.iter_cxt_lines'], 'breaks'),
    (FCX, "        yield ''.join(symbols[value] for value in row)", "        yield ' '.join(symbols[value] for value in row)", ['formats.cxt.iter_cxt_lines'], 'breaks'),
    (FCX, "    yield 'B'\n    yield ''\n", "    yield 'B'\n", ['formats.cxt.iter_cxt_lines'], 'breaks'),
    (FCX, "    for row in bools:\n        yield", "    for row in bools[1:]:\n        yield", ['formats.cxt.iter_cxt_lines'], 'breaks'),
    (FCX, "    assert len(objects) == len(bools)", "    assert len(objects) == len(properties)", ['formats.cxt.iter_cxt_lines'], 'breaks'),
    (FCX, "        yield ''.join(symbols[value] for value in row)", "        yield ''.join([symbols[value] for value in row])", ['formats.cxt.iter_cxt_lines'], 'equivalent'),
    (FCX, "    yield f'{len(objects):d}'", "    yield f'{len(bools):d}'", ['formats.cxt.iter_cxt_lines'], 'equivalent'),
    (FCX, "        for line in iter_cxt_lines(objects, properties, bools,", "        for line in iter_cxt_lines(properties, objects, bools,", ['formats.cxt.Cxt.dumpf'], 'breaks'),
    (FCX, "        write = functools.partial(print, file=file)\n        for line in iter_cxt_lines", "        write = functools.partial(print)\n        for line in iter_cxt_lines", ['formats.cxt.Cxt.dumpf'], 'breaks'),
    (FCX, "            write(line)", "            write(line)\n            write(line)", ['formats.cxt.Cxt.dumpf'], 'breaks'),
    (FCX, "                                   symbols=cls.symbols):", "                                   ):", ['formats.cxt.Cxt.dumpf'], 'breaks'),
    (FCX, "            write(line)", "            print(line, file=file)", ['formats.cxt.Cxt.dumpf'], 'equivalent'),
    (FCX, "        properties = lines[y:y + x]", "        properties = lines[y:x]", ['formats.cxt.Cxt.loadf'], 'breaks'),
    (FCX, "        objects = lines[:y]", "        objects = lines[:x]", ['formats.cxt.Cxt.loadf'], 'breaks'),
    (FCX, "        return ContextArgs(objects, properties, bools)", "        return ContextArgs(properties, objects, bools)", ['formats.cxt.Cxt.loadf'], 'breaks'),
    (FCX, "        y, x = map(int, yx.split())", "        x, y = map(int, yx.split())", ['formats.cxt.Cxt.loadf'], 'breaks'),
    (FCX, "        lines = [l.strip() for l in table.strip().split('\\n')]", "        lines = [l for l in table.strip().split('\\n')]", ['formats.cxt.Cxt.loadf'], 'breaks'),
    (FCX, "                 for l in lines[y + x:]]", "                 for l in lines[y:]]", ['formats.cxt.Cxt.loadf'], 'breaks'),
    (FCX, "        b, yx, table = source.split('\\n\\n')", "        b, yx, table = source.split('\\n')", ['formats.cxt.Cxt.loadf'], 'breaks'),
    (FCX, "                 for l in lines[y + x:]]", "                 for l in lines[x + y:]]", ['formats.cxt.Cxt.loadf'], 'equivalent'),
    (FTB, "    wd = [tools.max_len(objects)]", "    wd = [tools.max_len(properties)]", ['formats.table.dump_file'], 'breaks'),
    (FTB, "    write(tmpl % (('',) + tuple(properties)))", "    write(tmpl % (tuple(properties) + ('',)))", ['formats.table.dump_file'], 'breaks'),
    (FTB, "tuple('X' if b else '' for b in intent)", "tuple('' if b else 'X' for b in intent)", ['formats.table.dump_file'], 'breaks'),
    (FTB, "    for o, intent in zip(objects, bools):\n        write(tmpl % ((o,)", "    for intent, o in zip(objects, bools):\n        write(tmpl % ((o,)", ['formats.table.dump_file'], 'breaks'),
    (FTB, "    wd.extend(map(len, properties))", "    wd.extend(map(len, objects))", ['formats.table.dump_file'], 'breaks'),
    (FTB, "'|'.join(f'%-{w:d}s' for w in wd) + '|'", "'|'.join(f'%{w:d}s' for w in wd) + '|'", ['formats.table.dump_file'], 'breaks'),
    (FTB, "    write(tmpl % (('',) + tuple(properties)))\n", "", ['formats.table.dump_file'], 'breaks'),
    (FTB, "        write(tmpl % ((o,) + tuple('X' if b else '' for b in intent)))", "        write(tmpl % ((o,) + tuple('X' if b else '' for b in intent)), end='')", ['formats.table.dump_file'], 'breaks'),
    (FTB, "tuple('X' if b else '' for b in intent)", "tuple('' if not b else 'X' for b in intent)", ['formats.table.dump_file'], 'equivalent'),
    (FTB, "    tmpl = ' ' * indent + '|'.join(f'%-{w:d}s' for w in wd) + '|'", "    tmpl = ' ' * indent + ('|'.join(f'%-{w:d}s' for w in wd) + '|')", ['formats.table.dump_file'], 'equivalent'),
    (FTB, "    properties = [p.strip() for p in lines[0].strip('|').split('|')]", "    properties = [p.strip() for p in lines[1].strip('|').split('|')]", ['formats.table.load_file'], 'breaks'),
    (FTB, "(objflags.partition('|')[::2] for objflags in lines[1:])", "(objflags.partition('|')[::2] for objflags in lines[2:])", ['formats.table.load_file'], 'breaks'),
    (FTB, "(objflags.partition('|')[::2] for objflags in lines[1:])", "(objflags.partition('|')[1:] for objflags in lines[1:])", ['formats.table.load_file'], 'breaks'),
    (FTB, "    objects, bools = zip(*table)\n    return ContextArgs(objects, properties, bools)", "    bools, objects = zip(*table)\n    return ContextArgs(objects, properties, bools)", ['formats.table.load_file'], 'breaks'),
    (FTB, "    lines = list(filter(None, lines))", "    lines = list(lines)", ['formats.table.load_file'], 'breaks'),
    (FTB, "    lines = (line.partition('#')[0].strip() for line in file)", "    lines = (line.partition('#')[2].strip() for line in file)", ['formats.table.load_file'], 'breaks'),
    (FTB, "tuple(bool(f.strip()) for f in flags.strip('|').split('|'))", "tuple(bool(f) for f in flags.strip('|').split('|'))", ['formats.table.load_file'], 'breaks'),
    (FTB, "tuple(bool(f.strip()) for f in flags.strip('|').split('|'))", "tuple(not not f.strip() for f in flags.strip('|').split('|'))", ['formats.table.load_file'], 'equivalent'),
    (FWK, "        write('|-')\n        write(f'!{o}')", "        write(f'!{o}')\n        write('|-')", ['formats.wiki_table.dump_file'], 'breaks'),
    (FWK, "        write('|{}'.format('||'.join(bcells)))\n    write('|}')", "        write('|{}'.format('||'.join(bcells)))", ['formats.wiki_table.dump_file'], 'breaks'),
    (FWK, "'||'.join(bcells)", "'|'.join(bcells)", ['formats.wiki_table.dump_file'], 'breaks'),
    (FWK, "for w, b in zip(wp, intent))", "for b, w in zip(wp, intent))", ['formats.wiki_table.dump_file'], 'breaks'),
    (FWK, "    write('!{}'.format('!!'.join(properties)))", "    write('!{}'.format('!!'.join(objects)))", ['formats.wiki_table.dump_file'], 'breaks'),
    (FWK, "    wp = list(map(len, properties))", "    wp = list(map(len, objects))", ['formats.wiki_table.dump_file'], 'breaks'),
    (FWK, "    write('!')\n", "", ['formats.wiki_table.dump_file'], 'breaks'),
    (FWK, "    wp = list(map(len, properties))", "    wp = [len(p) for p in properties]", ['formats.wiki_table.dump_file'], 'equivalent'),
    (FWK, "(('X' if b else '').ljust(w) for w, b in zip(wp, intent))", "[('X' if b else '').ljust(w) for w, b in zip(wp, intent)]", ['formats.wiki_table.dump_file'], 'equivalent'),
    # row-level formats (contracts/formats_csv.py)
    (FCSV, "        header = [object_header] + list(properties)", "        header = list(properties)", ['formats.csv.dumpf'], 'breaks'),
    (FCSV, "        symbool = cls.symbols[bools_as_int].__getitem__", "        symbool = cls.symbols[not bools_as_int].__getitem__", ['formats.csv.dumpf'], 'breaks'),
    (FCSV, "SYMBOLS = {False: {False: '', True: 'X'},", "SYMBOLS = {False: {False: '', True: 'x'},", ['formats.csv.dumpf', 'formats.csv.loadf'], 'breaks'),
    (FCSV, "tools.write_csv_file(file, rows, header=header, dialect=dialect)", "tools.write_csv_file(file, rows, header=header, dialect=cls.dialect)", ['formats.csv.dumpf'], 'breaks'),
    (FCSV, "        rows = ([o] + list(map(symbool, bs))", "        rows = ([o, o] + list(map(symbool, bs))", ['formats.csv.dumpf'], 'breaks'),
    (FCSV, "        symbool = cls.symbols[bools_as_int].__getitem__", "        symbool = SYMBOLS[bools_as_int].__getitem__", ['formats.csv.dumpf'], 'equivalent'),
    (FCSV, "for as_int, values in cls.values.items():", "for as_int, values in reversed(list(cls.values.items())):", ['formats.csv.loadf'], 'breaks'),
    (FCSV, "            rows = itertools.chain([first_row], reader)", "            rows = reader", ['formats.csv.loadf'], 'breaks'),
    (FCSV, "            bools.append(tuple(map(get_value, symbols)))", "            bools.append(tuple(map(get_value, reversed(symbols))))", ['formats.csv.loadf'], 'breaks'),
    (FCSV, "        object_header, *properties = next(reader)", "        *properties, object_header = next(reader)", ['formats.csv.loadf'], 'breaks'),
    (FCSV, "        objects, bools = ([] for _ in range(2))", "        objects = bools = []", ['formats.csv.loadf'], 'breaks'),
    (FCSV, "        objects, bools = ([] for _ in range(2))", "        objects, bools = [], []", ['formats.csv.loadf'], 'equivalent'),
    (FCSV, "        get_value = cls.values[bools_as_int].__getitem__", "        get_value = cls.values[not bools_as_int].__getitem__", ['formats.csv.loadf'], 'breaks'),
    (FCSV, "                except KeyError:\n                    pass\n                else:\n                    break",
           "                except KeyError:\n                    break\n                else:\n                    break", ['formats.csv.loadf'], 'breaks'),
    (FCSV, "VALUES = {as_int: {str(s): v for v, s in symbols.items()}", "VALUES = {as_int: {str(s): not v for v, s in symbols.items()}", ['formats.csv.loadf'], 'breaks'),
    (FCSV, "        reader = csv.reader(file, dialect=dialect)", "        reader = csv.reader(file)", ['formats.csv.loadf'], 'breaks'),
    (FCSV, "            bools_as_int = as_int\n", "            bools_as_int = False\n", ['formats.csv.loadf'], 'breaks'),
    (FCSV, "        if dialect is None:\n            dialect = cls.dialect\n\n        reader = csv.reader(file, dialect=dialect)",
           "        reader = csv.reader(file, dialect=cls.dialect if dialect is None else dialect)", ['formats.csv.loadf'], 'equivalent'),
    (FPL, "            row[i] = True", "            row[i] = False", ['formats.python_literal.load_file'], 'breaks'),
    (FPL, "            row[i] = True", "            row[i - 1] = True", ['formats.python_literal.load_file'], 'breaks'),
    (FPL, "        for i in true_indexes:", "        for i in true_indexes[1:]:", ['formats.python_literal.load_file'], 'breaks'),
    (FPL, "zip(bools, args['context'])", "zip(bools, args['context'][1:])", ['formats.python_literal.load_file'], 'breaks'),
    (FPL, "[[False for _ in args['properties']]\n             for _ in args['objects']]", "[[False for _ in args['objects']]\n             for _ in args['properties']]",
          ['formats.python_literal.load_file'], 'breaks'),
    (FPL, "[False for _ in args['properties']]", "[True for _ in args['properties']]", ['formats.python_literal.load_file'], 'breaks'),
    (FPL, "    return SerializedArgs(objects, properties, bools, serialized=args)", "    return SerializedArgs(properties, objects, bools, serialized=args)",
          ['formats.python_literal.load_file'], 'breaks'),
    (FPL, "[[False for _ in args['properties']]\n             for _ in args['objects']]", "[[False for _ in properties]\n             for _ in objects]",
          ['formats.python_literal.load_file'], 'equivalent'),
    (FPL, "tuple(i for i, b in enumerate(row) if b)", "tuple(i for i, b in enumerate(row) if not b)", ['formats.python_literal.dump_file.fresh'], 'breaks'),
    (FPL, "tuple(i for i, b in enumerate(row) if b)", "tuple(i + 1 for i, b in enumerate(row) if b)", ['formats.python_literal.dump_file.fresh'], 'breaks'),
    (FPL, "               'properties': properties,", "               'properties': objects,", ['formats.python_literal.dump_file.fresh'], 'breaks'),
    (FPL, "        for key in ('objects', 'properties'):", "        for key in ('properties', 'objects'):", _DUMPF, 'breaks'),
    (FPL, "        yield '}'", "        pass", _DUMPF, 'breaks'),
    (FPL, "(('lattice',) if 'lattice' in doc else ())", "('lattice',)", _DUMPF, 'breaks'),
    (FPL, "        write(line)", "        write(line)\n        write(line)", _DUMPF, 'breaks'),
    (FPL, "yield from itersection(key, lines, value_list=True)", "yield from itersection(key, lines)", _DUMPF, 'breaks'),
    (FPL, "        yield from lines\n", "        yield from lines\n        yield from lines\n", _DUMPF, 'breaks'),
    (FPL, "            line = ', '.join(map(repr, doc[key]))", "            line = ', '.join(map(repr, doc['objects']))", _DUMPF, 'breaks'),
    (FPL, "    write = functools.partial(print, file=file)", "    write = print", _DUMPF, 'breaks'),
    (FPL, "        keys = ('objects', 'properties', 'context')", "        keys = ('objects', 'properties', 'context', 'lattice')", ['formats.python_literal.dump_file.serialized'], 'breaks'),
    (FPL, "    write = functools.partial(print, file=file)\n    for line in iterlines(doc):\n        write(line)",
          "    for line in iterlines(doc):\n        print(line, file=file)", _DUMPF, 'equivalent'),
]



def _one(job):
    """worker: one mutant (source override in this process only), its units serially"""
    relpath, new_src, units = job
    lost = 0
    for r in pyrun.run_units(units, overrides={relpath: new_src}, procs=1):
        lost += len([v for v in r['vcs'] if v['status'] != 'discharged']) + len(r['errors'])
    extract.OVERRIDES.clear()
    return lost


def run(only_units=None, verbose=True, procs=None):
    import multiprocessing as mp
    import contracts.registry as registry
    registry.load_all()
    bad = []
    jobs, meta = [], []
    for relpath, old, new, units, expect in MUTANTS:
        units = [u for u in units if u in registry.UNITS]
        # a mutant is judged on ALL the units it is listed for (its edit may sit in only one of them)
        if not units or (only_units is not None and not (set(units) & set(only_units))):
            continue
        with open(extract._abspath(relpath), encoding='utf-8') as f:
            src = f.read()
        if src.count(old) < 1:
            bad.append(('mutant does not apply (source changed)', relpath, old))
            if verbose:
                print('DOES NOT APPLY', relpath, repr(old[:60]))
            continue
        jobs.append((relpath, src.replace(old, new, 1), units))
        meta.append((relpath, old, new, expect))
    procs = procs or min(len(jobs), os.cpu_count() or 4) or 1
    if procs > 1 and len(jobs) > 1:
        with mp.get_context('fork').Pool(procs, maxtasksperchild=1) as pool:      # a fresh process per mutant (see run.run_units)
            losts = pool.map(_one, jobs, chunksize=1)
    else:
        losts = [_one(j) for j in jobs]
    for (relpath, old, new, expect), lost in zip(meta, losts):
        ok = (lost > 0) == (expect == 'breaks')
        if verbose:
            print('%-10s lost=%-3d %s  %s: %r -> %r' % ('ok' if ok else 'WRONG', lost, expect, relpath, old[:40], new[:40]))
        if not ok:
            bad.append((expect, relpath, old, new))
    return len(jobs), bad


if __name__ == '__main__':
    sys.path.insert(0, os.path.dirname(os.path.dirname(os.path.abspath(__file__))))
    os.environ.setdefault('PYVC_Z3_TIMEOUT_MS', '4000')
    n, bad = run()
    print(n, 'mutants;', len(bad), 'wrong')
    sys.exit(1 if bad else 0)
