"""In-memory mutants: the 'deliberately broken body' test of the VC generator (DESIGN 3.5).

Each mutant is a textual edit of a repository file applied in memory (extract.OVERRIDES) and pushed through
the proof units; every mutant marked 'breaks' must lose at least one obligation in one of the listed units, every
mutant marked 'equivalent' must keep all of them (no false alarm on a behaviour-preserving edit).
"""
import sys
import os

from . import extract, run as pyrun

M = 'concepts/matrices.py'
LM = 'concepts/lattice_members.py'
CX = 'concepts/contexts.py'
LT = 'concepts/lattices.py'
LI = 'concepts/algorithms/lindig.py'
CO = 'concepts/algorithms/common.py'
FC = 'concepts/algorithms/fcbo.py'
VZ = 'concepts/visualize.py'
JU = 'concepts/junctors.py'
FB = 'concepts/formats/base.py'
FF = 'concepts/formats/fimi.py'
AI = 'concepts/algorithms/__init__.py'
CM = 'concepts/_common.py'
TL = 'concepts/tools.py'
_BSP = 'ABS:/venv/lib/python3.12/site-packages/bitsets/'
BI, BB, BM, BS, BC = _BSP + 'integers.py', _BSP + 'bases.py', _BSP + 'meta.py', _BSP + 'series.py', _BSP + 'combos.py'
DF = 'concepts/definitions.py'
FCX, FTB, FWK = 'concepts/formats/cxt.py', 'concepts/formats/table.py', 'concepts/formats/wiki_table.py'
FCSV = 'concepts/formats/csv_context.py'
FPL = 'concepts/formats/python_literal.py'
II = 'concepts/__init__.py'
_DUMPF = ['formats.python_literal.dump_file.fresh', 'formats.python_literal.dump_file.serialized']
_COPY = ['contexts.copy', 'contexts.copy.include_lattice']
_GETINT = ['definitions.__getitem__.int%d' % _i for _i in range(4)]
_TOFILE = ['_common.ConceptList.tofile.' + _c for _c in ('default', 'fimi', 'csv')]
_META = ['junctors.RelationMeta.__init__.' + _c for _c in ('Relation', 'Unary', 'Binary')]
_MAXLEN = ['tools.max_len', 'tools.max_len.minimum']
_UPGEN = ['lattices.upset_generalization']
_CXTCH = ['lemma.cxt.roundtrip', 'formats.cxt.Cxt.loadf.written']
_FCBO_P = ['fcbo.fast_generate_from.complete', 'fcbo.fast_generate_from']
_FCBO_O = ['fcbo.fcbo_dual.complete', 'fcbo.fcbo_dual']
_SHA_FOR = "        for data in iter(functools.partial(f.read, bufsize), b''):\n            h.update(data)"
_SHA_WHILE = "        while True:\n%s"
_TLF = ['formats.table.load_file', 'formats.table.load_file.written']
_TLF_HEAD = ("def load_file(file):\n    lines = (line.partition('#')[0].strip() for line in file)\n    lines = list(filter(None, lines))\n"
             "    properties = [p.strip() for p in lines[0].strip('|').split('|')]\n")
_TLF_OLD = _TLF_HEAD + ("    table = [(obj.strip(),\n        tuple(bool(f.strip()) for f in flags.strip('|').split('|')))\n        for obj, flags in\n"
                        "            (objflags.partition('|')[::2] for objflags in lines[1:])]\n    objects, bools = zip(*table)\n")
_TLF_ROWS = ("    for objflags in lines:\n        obj, _, flags = objflags.partition('|')\n        yield (obj.strip(),\n"
             "               tuple(bool(f.strip()) for f in flags.strip('|').split('|')))")


def _tlf(helper_body, rows_expr):
    """table.load_file with the object rows computed by the module-level helper iter_object_rows (seeded/refactorings/R14-R2.diff)"""
    return 'def iter_object_rows(lines):\n%s\n\n\n%s    objects, bools = %s\n' % (helper_body, _TLF_HEAD, rows_expr)

_UI_OLD = ("        self._seen = seen = set()\n        add = seen.add\n        self._items = [item for item in iterable\n"
           "                       if item not in seen and not add(item)]")
_UI_LOOP = "        self._seen = seen = set()\n        self._items = items = []\n        for item in iterable:\n%s"
_UR_OLD = ("        seen = set()\n        add = seen.add\n        items = [i for i in items\n"
           "                 if i not in ignore and i not in seen and not add(i)]\n        return self._fromargs(seen, items)")
_UR_LOOP = "        seen = set()\n        result = []\n        for i in items:\n%s\n        return self._fromargs(%s)"
_SUP_OLD = "        return all(map(self._seen.__contains__, items))\n"


def _sup(body, ret='result', init='True'):
    return "        result = %s\n        for item in items:\n%s        return %s\n" % (init, body, ret)

_LIN_NEW = "                mapping[n_extent] = neighbor = (n_extent, n_intent, [], [extent])\n                push((n_extent.shortlex(), neighbor))\n"
_LIN_OLD = "            if n_extent in mapping:\n                mapping[n_extent][3].append(extent)\n            else:\n" + _LIN_NEW


def _lin(look='mapping[n_extent]', exc='KeyError', handler=_LIN_NEW, els="                known[3].append(extent)\n"):
    return "            try:\n                known = %s\n            except %s:\n%s            else:\n%s" % (look, exc, handler, els)

_LIW_BODY = ("            c.index = index\n            upper = (mapping[u] for u in c.upper_neighbors)\n            lower = (mapping[l] for l in c.lower_neighbors)\n"
             "            c.upper_neighbors = tuple(sorted(upper, key=shortlex))\n            c.lower_neighbors = tuple(sorted(lower, key=longlex))\n")
_LIW_TAIL = "\n        self._init(self, context, concepts, mapping=mapping)"
_LIW_OLD = "        for index, c in enumerate(concepts):\n" + _LIW_BODY + _LIW_TAIL


def _liw(init="        index = 0\n", test="index < len(concepts)", fetch="            c = concepts[index]\n", body=_LIW_BODY, step="            index += 1\n"):
    return init + "        while " + test + ":\n" + fetch + body + step + _LIW_TAIL

_REL_CHAIN = "        members = chain(unary, binary) if include_unary else binary\n\n        super().__init__(members)\n"
_REL_OLD = _REL_CHAIN + "        self.sort(key=lambda r: r.order)\n"


def _rel(init="        super().__init__()\n", first="        if include_unary:\n            for member in unary:\n                self.append(member)\n",
         second="        for member in binary:\n            self.append(member)\n", sort="        self.sort(key=lambda r: r.order)\n"):
    return init + first + second + sort

_TDF = ['formats.table.dump_file', 'formats.table.dump_file.chars']
_TDF_OLD = "    for o, intent in zip(objects, bools):\n        write(tmpl % ((o,) + tuple('X' if b else '' for b in intent)))\n"


def _tdf(cell="('', 'X')[bool(b)]", head="    for o, intent in zip(objects, bools):\n", use="o", it="intent"):
    return head + "        write(tmpl %% ((%s,) + tuple(%s for b in %s)))\n" % (use, cell, it)

_TDG_HEAD = ("def dump_file(file, objects, properties, bools, *, indent=0, _serialized=None):\n    wd = [tools.max_len(objects)]\n    wd.extend(map(len, properties))\n"
             "    tmpl = ' ' * indent + '|'.join(f'%-{w:d}s' for w in wd) + '|'\n\n    write = functools.partial(print, file=file)\n"
             "    write(tmpl % (('',) + tuple(properties)))\n")
_TDG_OLD = _TDG_HEAD + _TDF_OLD
_TDG_HELPER = "    for o, intent in zip(objects, bools):\n        yield tmpl % ((o,) + tuple('X' if b else '' for b in intent))"


def _tdg(helper=_TDG_HELPER, loop="    for line in iter_row_lines(tmpl, objects, bools):\n        write(line)\n"):
    return "def iter_row_lines(tmpl, objects, bools):\n" + helper + "\n\n\n" + _TDG_HEAD + loop


def _tls(helper="    yield lines[0]\n    yield lines[1:]", call="tuple(split_header(lines))", order="header, object_lines"):
    """table.load_file with the header line and the object lines from the generator helper split_header (seeded/refactorings/H18)"""
    body = _TLF_OLD.replace("    properties = [p.strip() for p in lines[0].strip('|').split('|')]\n",
                            "    %s = %s\n    properties = [p.strip() for p in header.strip('|').split('|')]\n" % (order, call))
    body = body.replace("(objflags.partition('|')[::2] for objflags in lines[1:])]", "(objflags.partition('|')[::2] for objflags in object_lines)]")
    return "def split_header(lines):\n" + helper + "\n\n\n" + body


_RMI_BODY = ("            pattern = frozenset(p for p, f in zip(properties, symbols) if f)\n            ns = {'index': index, 'order': int(order),\n"
             "                  'kind': name.lower(), 'symbol': symbol, 'pattern': pattern}\n            cls = type(name, (self,), ns)\n"
             "            globals()[cls.__name__] = self.__map[pattern] = cls\n            __all__.append(cls.__name__)\n")
_RMI_OLD = "        for index, ((name, symbol, order), symbols) in enumerate(obj_flags):\n" + _RMI_BODY


def _rmi(init="        index = 0\n", test="index < len(obj_flags)", fetch="obj_flags[index]", step="            index += 1\n"):
    return init + "        while " + test + ":\n            (name, symbol, order), symbols = " + fetch + "\n" + _RMI_BODY + step


_REO, _REP = ['definitions.remove_empty_objects'], ['definitions.remove_empty_properties']
_REO_OLD = "        for o in empty_objects:\n            self._objects.remove(o)\n"
_REP_OLD = "        for p in empty_properties:\n            self._properties.remove(p)\n"
_CABC = 'ABS:/root/.pyenv/versions/3.12.1/lib/python3.12/_collections_abc.py'
_ISUB = ['stdlib.MutableSet.__isub__']
_ISUB_OLD = ("    def __isub__(self, it):\n        if it is self:\n            self.clear()\n        else:\n            for value in it:\n"
             "                self.discard(value)\n        return self\n")

_CSVL = ['formats.csv.loadf', 'formats.csv.Csv.loadf.written']
_CSVP_OLD = ("                try:\n                    list(map(values.__getitem__, first_symbols))\n                except KeyError:\n"
             "                    pass\n                else:\n                    break\n")


def _csvp(test):
    return "                %s\n                    break\n" % test

# ---- round 6: loops moved into helpers (engine.Expansion)
_LNK = ['lattices.__init__', 'lattices._fromlist.raw', 'lattices._fromlist.ordered']
_LNK_A = ("            shortlex = inst._shortlex\n            longlex = inst._longlex\n            concepts.sort(key=shortlex)\n"
          "            for index, c in enumerate(concepts):\n                c.index = index\n"
          "                upper = (index_map[i] for i in c.upper_neighbors)\n                lower = (index_map[i] for i in c.lower_neighbors)\n"
          "                c.upper_neighbors = tuple(sorted(upper, key=shortlex))\n                c.lower_neighbors = tuple(sorted(lower, key=longlex))\n")
_LNK_MID = ("        else:\n            # assume sorted(concepts, key=shortlex)\n            # assume sorted(upper_neighbors, key=shortlex)\n"
            "            # assume sorted(lower_neighbors, key=longlex)\n            for index, c in enumerate(concepts):\n                c.index = index\n"
            "                c.upper_neighbors = tuple(concepts[i] for i in c.upper_neighbors)\n"
            "                c.lower_neighbors = tuple(concepts[i] for i in c.lower_neighbors)\n\n        cls._init(inst, context, concepts)\n        return inst\n\n"
            "    def __init__(self, context: 'contexts.Context', infimum=()) -> None:\n        \"\"\"Create lattice from context.\"\"\"\n"
            "        concepts = [Concept(self, *args)\n                    for args in context._lattice(infimum)]\n        mapping = self._make_mapping(concepts)\n\n")
_LNK_OLD = _LNK_A + _LNK_MID + "        shortlex = self._shortlex\n        longlex = self._longlex\n" + _LIW_OLD
_LNK_HELPER = ("    def _link_neighbors(self, concepts, mapping) -> None:\n        shortlex = self._shortlex\n        longlex = self._longlex\n"
               "        for index, c in enumerate(concepts):\n" + _LIW_BODY.replace("\n            ", "\n            ").rstrip("\n"))


def _lnk(call_a="            concepts.sort(key=inst._shortlex)\n            inst._link_neighbors(concepts, index_map)\n",
         call_b="        self._link_neighbors(concepts, mapping)\n", helper=_LNK_HELPER, where='method'):
    """lattices.py with the numbering / neighbour-sorting loop of Data._fromlist (unordered) and Data.__init__ in ONE helper
    (seeded/refactorings/R20-R1.diff): a method of Data, or a module-level function (where='module')"""
    tail = call_b + "        self._init(self, context, concepts, mapping=mapping)"
    if where == 'module':
        return call_a + _LNK_MID + tail + "\n\n    _link_marker = None\n\n\n" + helper.replace("\n    ", "\n").lstrip(" ") + "\n\n\nclass _Rest(Data):"
    return call_a + _LNK_MID + tail + "\n\n" + helper


_ANN = ['lattices._annotate']
_ANN_OLD = ("        touched = set()\n        for o in context.objects:\n            extent = context.extension(context.intension([o]), raw=True)\n"
            "            c = mapping[extent]\n            if c.objects:\n                c.objects.append(o)\n            else:\n"
            "                c.objects = [o]\n                touched.add(c)\n\n        for c in touched:\n            c.objects = tuple(c.objects)\n\n"
            "        touched = set()\n        for p in context.properties:\n            extent = context.extension([p], raw=True)\n"
            "            c = mapping[extent]\n            if c.properties:\n                c.properties.append(p)\n            else:\n"
            "                c.properties = [p]\n                touched.add(c)\n\n        for c in touched:\n            c.properties = tuple(c.properties)\n")
_ANN_HELPER = ("        def annotate(attname, labels, get_extent):\n            touched = set()\n            for label in labels:\n"
               "                c = mapping[get_extent(label)]\n                if getattr(c, attname):\n                    getattr(c, attname).append(label)\n"
               "                else:\n                    setattr(c, attname, [label])\n                    touched.add(c)\n"
               "            for c in touched:\n                setattr(c, attname, tuple(getattr(c, attname)))\n")
_ANN_O = "        annotate('objects', context.objects,\n                 lambda o: context.extension(context.intension([o]), raw=True))\n"
_ANN_P = "        annotate('properties', context.properties,\n                 lambda p: context.extension([p], raw=True))\n"


def _ann(helper=_ANN_HELPER, first=_ANN_O, second=_ANN_P):
    """Data._annotate with the two label passes as two calls of one nested function (seeded/refactorings/R17-R1.diff)"""
    return helper + first + second


_DBL = ['matrices.double', 'matrices.doubleprime']
_DBL_LOOP = ("            i = 0\n            while %(v)s:\n                shift = (%(v)s & -%(v)s).bit_length() - 1\n                if not shift:\n"
             "                    shift = 1\n                    %(acc)s &= %(seq)s[i]\n                i += shift\n                %(v)s >>= shift\n\n")
_DBL_OLD = ("        def double(bitset):\n            \"\"\"FCA double derivation operator (extent->extent, intent->intent).\"\"\"\n            prime = Prime\n\n"
            + _DBL_LOOP % dict(v='bitset', acc='prime', seq='other') + "            double = Double\n\n" + _DBL_LOOP % dict(v='prime', acc='double', seq='self')
            + "            return make_double(double)\n\n        def doubleprime(bitset):\n"
            "            \"\"\"FCA single and double derivation (extent->extent+intent, intent->intent+extent).\"\"\"\n            prime = Prime\n\n"
            + _DBL_LOOP % dict(v='bitset', acc='prime', seq='other') + "            bitset = prime\n            double = Double\n\n"
            + _DBL_LOOP % dict(v='bitset', acc='double', seq='self') + "            return make_double(double), make_prime(prime)\n")
_DBL_HELPER = ("        def derive_twice(bitset):\n            prime = Prime\n\n" + _DBL_LOOP % dict(v='bitset', acc='prime', seq='other')
               + "            bitset = prime\n            double = Double\n\n" + _DBL_LOOP % dict(v='bitset', acc='double', seq='self')
               + "            return double, prime\n\n")


def _dbl(helper=_DBL_HELPER, double="            return make_double(derive_twice(bitset)[0])\n",
         doubleprime="            double, prime = derive_twice(bitset)\n            return make_double(double), make_prime(prime)\n"):
    """matrices._pair_with with the two zero-skipping loops in a sibling closure called by double and doubleprime (seeded/refactorings/R18-R1.diff)"""
    return helper + "        def double(bitset):\n" + double + "\n        def doubleprime(bitset):\n" + doubleprime

_H20_OLD = ("            for index, c in enumerate(concepts):\n                c.index = index\n"
            "                c.upper_neighbors = tuple(concepts[i] for i in c.upper_neighbors)\n")


def _h20(rng="range(len(concepts))", fetch="concepts[index]"):
    return ("            for index in %s:\n                c = %s\n                c.index = index\n"
            "                c.upper_neighbors = tuple(concepts[i] for i in c.upper_neighbors)\n" % (rng, fetch))


_H21_OLD = "        cls = frozenset if as_set else tuple\n        return cls(self.extent.iter_set())\n"
_H22_OLD = "        for dindex, c in enumerate(sorted(inst._concepts, key=inst._longlex)):\n"


def _h22(copy="        by_longlex = list(inst._concepts)\n", sort="        by_longlex.sort(key=inst._longlex)\n", over="by_longlex"):
    return copy + sort + "        for dindex, c in enumerate(%s):\n" % over


_H23A_OLD = "        self._pairs.update((obj, p) for p in properties)\n"
_H23R_OLD = "        self._pairs.difference_update((obj, p) for p in self._properties)\n"
_H24_OLD = "        concepts = [Concept(self, *args)\n                    for args in context._lattice(infimum)]\n"


def _h24(args="self, extent, intent, upper, lower", target="extent, intent, upper, lower"):
    return "        concepts = [Concept(%s)\n                    for %s in context._lattice(infimum)]\n" % (args, target)


_H25_OLD = "        yield from lines\n"
_H26_OLD = "    write = functools.partial(print, file=file)\n    write(tmpl"
_H27_OLD = "            for as_int, values in cls.values.items():\n"
_H29_OLD = ("        for attname in ('upper_neighbors', 'lower_neighbors'):\n            s_neighbors = getattr(self, attname)\n"
            "            o_neighbors = getattr(other, attname)\n")


def _h29(first="(self.upper_neighbors, other.upper_neighbors)", second="(self.lower_neighbors, other.lower_neighbors)", swap=False):
    pairs = [x for x in (first, second) if x]
    if swap:
        pairs = ["(other.upper_neighbors, self.upper_neighbors)", pairs[-1]]
    return "        for s_neighbors, o_neighbors in (%s,):\n" % ", ".join(pairs)

MUTANTS = [
    # (file, old, new, units, 'breaks'|'equivalent')
    (M, 'i += shift', 'i += shift + 1', ['matrices.prime'], 'breaks'),
    (M, 'prime &= other[i]', 'prime &= other[i + 1]', ['matrices.prime'], 'breaks'),
    (M, 'prime &= other[i]', 'prime |= other[i]', ['matrices.prime'], 'breaks'),
    (M, 'prime = Prime', 'prime = Double', ['matrices.prime'], 'breaks'),
    (M, 'if not shift:', 'if shift:', ['matrices.prime'], 'breaks'),
    (M, 'bitset >>= shift', 'bitset >>= 1', ['matrices.prime'], 'breaks'),
    (M, 'while bitset:', 'while bitset > 1:', ['matrices.prime'], 'breaks'),
    (M, 'return make_prime(prime)', 'return make_prime(prime & Prime)', ['matrices.prime'], 'equivalent'),
    (M, 'double &= self[i]', 'double &= other[i]', ['matrices.double', 'matrices.doubleprime'], 'breaks'),
    (M, 'return make_double(double), make_prime(prime)', 'return make_prime(prime), make_double(double)', ['matrices.doubleprime'], 'breaks'),
    (M, 'double = Double\n\n            i = 0\n            while prime:', 'double = Prime\n\n            i = 0\n            while prime:', ['matrices.double'], 'breaks'),
    (LM, 'return self._extent & other._extent == self._extent\n', 'return self._extent | other._extent == self._extent\n', ['members.implies'], 'breaks'),
    (LM, 'return self._extent & other._extent == self._extent != other._extent', 'return self._extent & other._extent == self._extent', ['members.properly_implies'], 'breaks'),
    (LM, 'return self._extent | other._extent == self._extent != other._extent', 'return self._extent | other._extent == other._extent != self._extent', ['members.properly_subsumes'], 'breaks'),
    (LM, 'return self._extent & other._extent == self._extent\n', 'return other._extent | self._extent == other._extent\n', ['members.implies'], 'equivalent'),
    (LM, 'return not self._extent & other._extent\n', 'return not self._extent | other._extent\n', ['members.incompatible_with'], 'breaks'),
    (LM, "return (not self._extent & other._extent\n                and (self._extent | other._extent) == self.lattice.supremum._extent)",
         "return (not self._extent & other._extent\n                or (self._extent | other._extent) == self.lattice.supremum._extent)", ['members.complement_of'], 'breaks'),
    (LM, 'and meet != other._extent', 'and meet == other._extent', ['members.orthogonal_to'], 'breaks'),
    (LM, 'common = self._extent | other._extent', 'common = self._extent & other._extent', ['members.join'], 'breaks'),
    (LM, 'common = self._extent & other._extent', 'common = self._extent | other._extent', ['members.meet'], 'breaks'),
    (CX, 'intent = self._Objects.frommembers(objects).prime()', 'intent = self._Objects.frommembers(objects).double()', ['contexts.intension'], 'breaks'),
    (CX, 'extent = self._Properties.frommembers(properties).prime()', 'extent = self._Objects.frommembers(properties).prime()', ['contexts.extension'], 'breaks'),
    # a type test on the abstracted caller argument is undetermined: both outcomes are explored (seeded change C01-N)
    (CX, 'intent = self._Objects.frommembers(objects).prime()',
     'intent = self._Objects.frommembers(objects).prime() if not isinstance(objects, list) else self._Objects.fromint(0).prime()', ['contexts.intension'], 'breaks'),
    (CX, 'intent = self._Objects.frommembers(objects).prime()',
     'intent = self._Objects.frommembers(objects).prime() if not isinstance(objects, list) else self._Objects.frommembers(objects).prime()', ['contexts.intension'], 'holds'),
    (CX, 'intent, extent = intent.doubleprime()', 'extent, intent = intent.doubleprime()', ['contexts.getitem'], 'breaks'),
    (CX, 'if it.prime() == extent:', 'if it.prime() & extent == extent:', ['contexts.minimize'], 'breaks'),
    (CX, "        if not extent:\n            yield intent\n            return", "        if not extent:\n            yield intent", ['contexts.minimize'], 'breaks'),
    (LI, 'if extent & ~objects_and_add & minimal:', 'if extent & ~objects_and_add:', ['lindig.neighbors'], 'breaks'),
    (LI, 'minimal &= ~add', 'minimal &= ~objects_and_add', ['lindig.neighbors'], 'equivalent'),
    (LI, 'minimal &= ~add', 'pass', ['lindig.neighbors'], 'breaks'),
    (LI, 'objects_and_add = objects | add', 'objects_and_add = add', ['lindig.neighbors'], 'breaks'),
    (LI, 'yield extent, intent', 'yield intent, extent', ['lindig.neighbors'], 'breaks'),
    (LI, 'minimal = ~objects', 'minimal = Objects.supremum', ['lindig.neighbors'], 'breaks'),
    (LI, 'if extent & ~objects_and_add & minimal:', 'if extent & ~objects & minimal:', ['lindig.neighbors'], 'breaks'),
    (LI, 'if extent & ~objects_and_add & minimal:', 'if extent & minimal & ~objects_and_add:', ['lindig.neighbors'], 'equivalent'),
    (CO, 'if index > seen:', 'if index >= seen:', ['common.iterunion'], 'breaks'),
    (CO, 'seen = index', 'pass', ['common.iterunion'], 'breaks'),
    (CO, 'push((sortkey(c), c))', 'push((sortkey(concept), c))', ['common.iterunion'], 'breaks'),
    (CO, 'for c in next_concepts(concept):', 'for c in next_concepts(concept)[:0]:', ['common.iterunion'], 'breaks'),
    (CO, 'heap = [(sortkey(c), c) for c in concepts]', 'heap = [(sortkey(c), c) for c in concepts if sortkey(c)]', ['common.iterunion'], 'breaks'),
    (CO, 'seen = -1', 'seen = 0', ['common.iterunion'], 'breaks'),
    (CO, '            yield concept\n            for c in next_concepts(concept):\n                push((sortkey(c), c))',
         '            for c in next_concepts(concept):\n                push((sortkey(c), c))\n            yield concept', ['common.iterunion'], 'equivalent'),
    (VZ, 'if concept.objects:', 'if concept.properties:', ['visualize.lattice'], 'breaks'),
    (VZ, 'headlabel=make_object_label(concept.objects)', 'headlabel=make_property_label(concept.objects)', ['visualize.lattice'], 'breaks'),
    (VZ, 'taillabel=make_property_label(concept.properties)', 'taillabel=make_property_label(concept.objects)', ['visualize.lattice'], 'breaks'),
    (VZ, "labelangle='270'", "labelangle='90'", ['visualize.lattice'], 'breaks'),
    (VZ, 'dot.edges((name, node_name(c))', 'dot.edges((node_name(c), name)', ['visualize.lattice'], 'breaks'),
    (VZ, 'sorted(concept.lower_neighbors, key=sortkey)', 'sorted(concept.lower_neighbors, key=sortkey)[1:]', ['visualize.lattice'], 'breaks'),
    (VZ, '        dot.node(name)\n', '        dot.node(name)\n        if not concept.lower_neighbors:\n            continue\n', ['visualize.lattice'], 'breaks'),
    (VZ, "NAME_GETTERS = [lambda c: f'c{c.index:d}']", "NAME_GETTERS = [lambda c: f'c{c.index + 1:d}']", ['visualize.lattice'], 'breaks'),
    (VZ, 'if render or view:', 'if render:', ['visualize.lattice'], 'breaks'),
    (VZ, 'sorted(concept.lower_neighbors, key=sortkey)', 'sorted(concept.lower_neighbors, key=lambda c: -c.index)', ['visualize.lattice'], 'equivalent'),
    (CX, "and self.bools == other.bools)", "and self.bools == self.bools)", ['contexts.__eq__'], 'breaks'),
    (CX, "return not self == other", "return self == other", ['contexts.__ne__'], 'breaks'),
    (FC, 'j_extent = extent & context._extents[j]', 'j_extent = extent | context._extents[j]', ['fcbo.fast_generate_from'], 'breaks'),
    (FC, 'stack = [(Objects.supremum.doubleprime(), 0, [Properties.infimum] * n_properties)]',
         'stack = [((Objects.supremum, Properties.infimum), 0, [Properties.infimum] * n_properties)]', ['fcbo.fast_generate_from'], 'breaks'),
    (FC, 'concept = (Objects.fromint(j_extent), Properties.fromint(j_intent))\n                    stack.append((concept, j + 1, next_property_sets))',
         'concept = (Objects.fromint(j_extent), Properties.fromint(j_lower))\n                    stack.append((concept, j + 1, next_property_sets))', ['fcbo.fast_generate_from'], 'breaks'),
    (FC, 'j_extent = extent & context._extents[j]', 'j_extent = extent & context._extents[j + 1]', ['fcbo.fast_generate_from'], 'breaks'),
    # still sound (a row intent is closed): breaks only the unproved completeness/uniqueness clauses
    (FC, 'j_intent = intent & context._intents[j]', 'j_intent = context._intents[j]', ['fcbo.fcbo_dual'], 'equivalent'),
    (FC, 'j_extent = prime(j_intent)\n', 'j_extent = prime(intent)\n', ['fcbo.fcbo_dual'], 'breaks'),
    (FC, 'if x & intent == x:', 'if True:', ['fcbo.fast_generate_from'], 'equivalent'),
    (FC, 'stack.append((concept, j + 1, next_property_sets))', 'stack.append((concept, j + 2, next_property_sets))', ['fcbo.fast_generate_from'], 'breaks'),
    (TL, '    if len(iterable) < 2:', '    if len(iterable) < 3:', ['tools.maximal'], 'breaks'),
    (TL, '    if len(iterable) < 2:', '    if len(iterable) < 1:', ['tools.maximal'], 'breaks'),      # maximal([x]) would be empty: no permutation, no group
    (TL, '            if not any(starmap(comparison, pairs)))', '            if any(starmap(comparison, pairs)))', ['tools.maximal'], 'breaks'),
    (TL, '    iterable = set(iterable)\n    if len(iterable) < 2:', '    iterable = list(iterable)\n    if len(iterable) < 2:', ['tools.maximal'], 'breaks'),
    (TL, 'groupby(permutations(iterable, 2), key=_groupkey)', 'groupby(permutations(iterable, 2), key=operator.itemgetter(1))', ['tools.maximal'], 'breaks'),
    (CX, "        return junctors.Relations(self.properties,\n                                  self._extents.bools(),", "        return junctors.Relations(self.properties,\n                                  self._intents.bools(),", ['contexts.relations'], 'breaks'),
    (CX, "                                  self._extents.bools(),\n                                  include_unary)", "                                  self._extents.bools(),\n                                  True)", ['contexts.relations'], 'breaks'),
    (CX, "        return definitions.Definition(self.objects, self.properties, self.bools)", "        return definitions.Definition(self.properties, self.objects, self.bools)", ['contexts.definition'], 'breaks'),
    (DF, "        yield self.objects\n        yield self.properties\n        yield self.bools", "        yield self.properties\n        yield self.objects\n        yield self.bools", ['definitions.__iter__'], 'breaks'),
    (DF, "        return formats.Format[frmat].dumps(*self, **kwargs)", "        return formats.Format[frmat].dumps(*self)", ['definitions.tostring'], 'breaks'),
    (DF, "        return fractions.Fraction(len(self._pairs), self.shape.size)", "        return fractions.Fraction(len(self._pairs), len(self.objects))", ['definitions.fill_ratio'], 'breaks'),
    (CX, "        n_true = sum(intent.count() for intent in self._intents)", "        n_true = len(self._intents)", ['contexts.fill_ratio'], 'breaks'),
    (CX, "        return tools.crc32_hex(self.tostring().encode(encoding))", "        return tools.crc32_hex(self.tostring(frmat='csv').encode(encoding))", ['contexts.crc32'], 'breaks'),
    (CM, "        return cls(len(objects), len(properties))", "        return cls(len(properties), len(objects))", ['_common.Shape._from_pair'], 'breaks'),
    (CM, "        return self.objects * self.properties", "        return self.objects + self.properties", ['_common.Shape.size'], 'breaks'),
    # the bitsets package (contracts/bitsets_lib.py)
    (BI, "        if n & 1:\n            yield i\n        i += 1", "        if n & 1:\n            yield i + 1\n        i += 1", ['bitsets.integers.indexes'], 'breaks'),
    (BI, "        i += 1\n        n >>= 1", "        i += 1\n        n >>= 2", ['bitsets.integers.indexes'], 'breaks'),
    (BI, "        if not n & 1:\n            result |= r", "        if n & 1:\n            result |= r", ['bitsets.integers.reinverted'], 'breaks'),
    (BI, "    r = 1 << (r - 1)", "    r = 1 << r", ['bitsets.integers.reinverted'], 'breaks'),
    (BI, "        result |= (r << 1) - 1", "        result |= r - 1", ['bitsets.integers.reinverted'], 'breaks'),
    (BB, "        return tuple(not not self & a for a in self._atoms)", "        return tuple(not self & a for a in self._atoms)", ['bitsets.MemberBits.bools'], 'breaks'),
    (BB, "        return filter(self.__and__, atoms)", "        return filterfalse(self.__and__, atoms)", ['bitsets.MemberBits.atoms'], 'breaks'),
    (BB, "        atoms = reversed(self._atoms) if reverse else self._atoms\n        return filterfalse", "        atoms = self._atoms if reverse else reversed(self._atoms)\n        return filterfalse", ['bitsets.MemberBits.inatoms'], 'breaks'),
    (BB, "            return frozenset(map(self._members.__getitem__, self._indexes()))", "            return tuple(map(self._members.__getitem__, self._indexes()))", ['bitsets.MemberBits.members'], 'breaks'),
    (BM, "        inters = self.supremum.copy()", "        inters = self.infimum.copy()", ['bitsets.Meta.reduce_and'], 'breaks'),
    (BM, "            union |= b", "            union &= b", ['bitsets.Meta.reduce_or'], 'breaks'),
    (BM, "        self._atoms = tuple(self.fromint(1 << i) for i in range(self._len))", "        self._atoms = tuple(self.fromint(1 << i) for i in range(1, self._len + 1))", ['bitsets.Meta.__init__'], 'breaks'),
    (BM, "        self.supremum = self.fromint((1 << self._len) - 1)", "        self.supremum = self.fromint(1 << self._len)", ['bitsets.Meta.__init__'], 'breaks'),
    (BM, "        self._map = dict(zip(self._members, self._atoms))", "        self._map = dict(zip(self._atoms, self._members))", ['bitsets.Meta.__init__'], 'breaks'),
    (BS, "        return [b.bools() for b in self]", "        return [b.bools() for b in self[1:]]", ['bitsets.Series.bools'], 'breaks'),
    (BS, "        return cls.frombitsets(map(cls.BitSet.frombools, bools))", "        return cls.frombitsets(map(cls.BitSet.frommembers, bools))", ['bitsets.Series.frombools'], 'breaks'),
    (BB, "        return cls.fromint(sum(map(cls._map.__getitem__, set(members))))", "        return cls.fromint(sum(map(cls._map.__getitem__, members)))", ['bitsets.MemberBits.frommembers'], 'breaks'),
    (BB, "        return cls.fromint(sum(compress(cls._atoms, bools)))", "        return cls.fromint(sum(cls._atoms))", ['bitsets.MemberBits.frombools'], 'breaks'),
    (BB, "        return bin(self).count('1'), self._reinverted(self._len)", "        return bin(self).count('1'), self._int", ['bitsets.MemberBits.shortlex'], 'breaks'),
    (BB, "        return -bin(self).count('1'), self._reinverted(self._len)", "        return bin(self).count('1'), self._reinverted(self._len)", ['bitsets.MemberBits.longlex'], 'breaks'),
    (BC, "            first, other = other[0], other[1:]", "            first, other = other[0], other[2:]", ['bitsets.combos.shortlex'], 'breaks'),
    (BC, "            result = current | first\n\n            yield result\n\n            if other:\n                queue.append((result, other))\n\n\ndef reverse",
         "            result = current & first\n\n            yield result\n\n            if other:\n                queue.append((result, other))\n\n\ndef reverse", ['bitsets.combos.shortlex'], 'breaks'),
    (BC, "        current, other = queue.popleft()\n\n        while other:\n            first, other = other[0], other[1:]\n            result = current | first",
         "        current, other = queue.pop()\n\n        while other:\n            first, other = other[0], other[1:]\n            result = current | first", ['bitsets.combos.shortlex'], 'breaks'),
    (BC, "    if not excludestart:\n        yield start", "    if excludestart:\n        yield start", ['bitsets.combos.shortlex'], 'breaks'),
    (BC, "            if other:\n                queue.append((result, other))\n\n\ndef reverse", "            if other:\n                queue.append((current, other))\n\n\ndef reverse", ['bitsets.combos.shortlex'], 'breaks'),
    # the order of combos.shortlex among sets of equal size (yield/shortlex-order, invariants O1-O3, lemma.powerset.order)
    (BC, "            first, other = other[0], other[1:]", "            first, other = other[-1], other[:-1]", ['bitsets.combos.shortlex'], 'breaks'),
    (BC, "            if other:\n                queue.append((result, other))\n\n\ndef reverse", "            if other:\n                queue.appendleft((result, other))\n\n\ndef reverse",
         ['bitsets.combos.shortlex'], 'breaks'),
    (BC, "            yield result\n\n            if other:\n                queue.append((result, other))\n\n\ndef reverse",
         "            if other:\n                queue.append((result, other))\n\n            yield result\n\n\ndef reverse", ['bitsets.combos.shortlex'], 'equivalent'),
    (BB, "        return map(self.frombitset, combos.shortlex(start, list(other)))", "        return map(self.frombitset, combos.shortlex(start, list(other)[::-1]))",
         ['bitsets.MemberBits.powerset'], 'breaks'),
    (BB, "        return map(self.frombitset, combos.shortlex(start, list(other)))", "        return map(self.frombitset, combos.shortlex(self, list(other)))", ['bitsets.MemberBits.powerset'], 'breaks'),
    # found by the systematic mutation score (seeded/MUTATION_SCORE.md): weaknesses of contracts, now closed
    (JU, "        if exclude_orthogonal:\n            self = (r for r in self if r.__class__ is not Orthogonal)", "        if not exclude_orthogonal:\n            self = (r for r in self if r.__class__ is not Orthogonal)", ['junctors.Relations.tostring'], 'breaks'),
    (JU, "            self = (r for r in self if r.__class__ is not Orthogonal)", "            self = (r for r in self if r.__class__ is Orthogonal)", ['junctors.Relations.tostring'], 'breaks'),
    (JU, "            self = (r for r in self if r.__class__ is not Orthogonal)", "            pass", ['junctors.Relations.tostring'], 'breaks'),
    (JU, "    def tostring(self, exclude_orthogonal: bool = False) -> str:", "    def tostring(self, exclude_orthogonal: bool = True) -> str:", ['junctors.Relations.tostring'], 'breaks'),
    (DF, "             reorder: bool = False):", "             reorder: bool = True):", ['definitions.take'], 'breaks'),
    (CX, "            missing = [k for k in required_keys if k not in d]", "            missing = [k for k in required_keys if k in d]", ['contexts.fromdict'], 'breaks'),
    (FB, "        if cls.dumps_rstrip:\n            source = source.rstrip()", "        if not cls.dumps_rstrip:\n            source = source.rstrip()", ['formats.Format.dumps'], 'breaks'),
    (FB, "        if cls.dumps_rstrip:\n            source = source.rstrip()", "        if cls.dumps_rstrip:\n            pass", ['formats.Format.dumps'], 'breaks'),
    (CX, "        objects, properties = map(tuple, (objects, properties))\n\n        for items, name in", "        for items, name in", ['contexts.__init__'], 'breaks'),
    (DF, "        return (self.objects, self.properties, self.bools) == other", "        return (self.objects, self.properties, self.bools) != other", ['definitions.__eq__.plain'], 'breaks'),
    (DF, "        return (self.objects, self.properties, self.bools) == other", "        return (self.properties, self.objects, self.bools) == other", ['definitions.__eq__.plain'], 'breaks'),
    (DF, "            notfound = (self._objects.rsub(objects or ())", "            notfound = (self._objects.rsub(objects and ())", ['definitions.take'], 'breaks'),
    (DF, "                        | self._properties.rsub(properties or ()))", "                        | self._properties.rsub(properties and ()))", ['definitions.take'], 'breaks'),
    (DF, "            raise KeyError(list(notfound))", "            raise KeyError(list(objects))", ['definitions.take'], 'breaks'),
    # behaviour-preserving edits the systematic run showed to be flagged (false alarms), now quiet
    ('concepts/algorithms/common.py', "    seen = -1", "    seen = -2", ['common.iterunion'], 'equivalent'),
    (LT, "        concepts = tools.maximal(concepts, comparison=Concept.properly_subsumes)\n", "", ['lattices.upset_union'], 'equivalent'),
    (LT, "        concepts = tools.maximal(concepts, comparison=Concept.properly_subsumes)\n", "        concepts = tools.maximal(concepts, comparison=Concept.properly_implies)\n", ['lattices.upset_union'], 'breaks'),
    # completeness / exactly-once of FCbO (units fcbo.*.complete)
    (FC, 'stack.append((concept, j + 1, next_property_sets))', 'stack.append((concept, j + 2, next_property_sets))', ['fcbo.fast_generate_from.complete'], 'breaks'),
    (FC, '                if j_lower & intent == j_lower:', '                if True:', ['fcbo.fast_generate_from.complete'], 'breaks'),
    (FC, 'if x & intent == x:', 'if True:', ['fcbo.fast_generate_from.complete'], 'equivalent'),
    (FC, 'if x & intent == x:', 'if x & intent != x:', ['fcbo.fast_generate_from.complete'], 'breaks'),
    (FC, 'next_property_sets = property_sets.copy()', 'next_property_sets = property_sets', ['fcbo.fast_generate_from.complete'], 'breaks'),
    (FC, '                    next_property_sets[j] = j_intent', '                    pass', ['fcbo.fast_generate_from.complete'], 'equivalent'),
    (FC, '                    next_property_sets[j] = j_intent', '                    next_property_sets[j] = intent', ['fcbo.fast_generate_from.complete'], 'equivalent'),
    (FC, '                    next_property_sets[j] = j_intent', '                    next_property_sets[j] = Properties.supremum', ['fcbo.fast_generate_from.complete'], 'breaks'),
    (FC, '            j_mask = j_property - 1\n\n            x = next_property_sets[j] & j_mask', '            j_mask = j_property\n\n            x = next_property_sets[j] & j_mask', ['fcbo.fast_generate_from.complete'], 'breaks'),
    (FC, 'if property_index == n_properties or not extent:', 'if property_index == n_properties:', ['fcbo.fast_generate_from.complete'], 'equivalent'),
    (FC, 'if property_index == n_properties or not extent:', 'if not extent:', ['fcbo.fast_generate_from.complete'], 'equivalent'),
    (FC, 'if property_index == n_properties or not extent:', 'if property_index == n_properties or extent:', ['fcbo.fast_generate_from.complete'], 'breaks'),
    (FC, 'stack = [(Objects.supremum.doubleprime(), 0, [Properties.infimum] * n_properties)]',
         'stack = [(Objects.supremum.doubleprime(), 1, [Properties.infimum] * n_properties)]', ['fcbo.fast_generate_from.complete'], 'breaks'),
    (FC, 'stack = [(Objects.supremum.doubleprime(), 0, [Properties.infimum] * n_properties)]',
         'stack = [(Objects.supremum.doubleprime(), 0, [Properties.supremum] * n_properties)]', ['fcbo.fast_generate_from.complete'], 'breaks'),
    (FC, '            x = next_property_sets[j] & j_mask', '            x = property_sets[j] & j_mask', ['fcbo.fast_generate_from.complete'], 'equivalent'),
    (FC, '            if j_property & intent:\n                continue', '            if j_property & extent:\n                continue', ['fcbo.fast_generate_from.complete'], 'breaks'),
    (FC, '        concept, property_index, property_sets = stack.pop()\n\n        yield concept', '        concept, property_index, property_sets = stack.pop()\n\n        yield concept\n        yield concept', ['fcbo.fast_generate_from.complete'], 'breaks'),
    (FC, 'stack.append((concept, j + 1, next_object_sets))', 'stack.append((concept, j + 1, object_sets))', ['fcbo.fcbo_dual.complete'], 'breaks'),
    (FC, '                if j_lower & extent == j_lower:', '                if j_lower & extent == j_lower or j == 0:', ['fcbo.fcbo_dual.complete'], 'equivalent'),
    (FC, '                if j_lower & extent == j_lower:', '                if j_lower & extent == j_lower or j == 1:', ['fcbo.fcbo_dual.complete'], 'breaks'),
    (FC, '            if extent & j_object:\n                continue', '            if extent & j_object:\n                break', ['fcbo.fcbo_dual.complete'], 'breaks'),
    (FC, "                    next_object_sets[j] = j_extent", "                    next_object_sets[j - 1] = j_extent", ['fcbo.fcbo_dual.complete'], 'breaks'),
    (CX, "or {len(b) for b in bools} != {len(properties)}):",
         "or sum(map(len, bools)) != len(objects) * len(properties)):", ['contexts.__init__'], 'breaks'),
    (CX, "            if len(set(items)) != len(items):", "            if len(set(items)) > len(items):", ['contexts.__init__'], 'breaks'),
    (CX, "        if not set(objects).isdisjoint(properties):", "        if set(objects).isdisjoint(properties):", ['contexts.__init__'], 'breaks'),
    (CX, "                                                         properties, objects, bools)",
         "                                                         objects, properties, bools)", ['contexts.__init__'], 'breaks'),
    (CX, "        self._Objects = self._extents.BitSet", "        self._Objects = self._intents.BitSet", ['contexts.__init__'], 'breaks'),
    (CX, "            if not items:\n                raise ValueError(f'empty {name}')", "            if not items:\n                raise KeyError(f'empty {name}')", ['contexts.__init__'], 'breaks'),
    (AI, 'return map(Concept._make, iterconcepts)', 'return iterconcepts', ['algorithms.iterconcepts'], 'breaks'),
    (CM, 'return cls(map(Concept._make, iterconcepts))', 'return cls(iterconcepts)', ['common.frompairs'], 'breaks'),
    (LT, 'join = self._context._Objects.reduce_or(extents)', 'join = self._context._Objects.reduce_and(extents)', ['lattices.join'], 'breaks'),
    (LT, 'return self._mapping[meet.double()]', 'return self._mapping[meet]', ['lattices.meet'], 'equivalent'),
    (LT, 'return self._mapping[join.double()]', 'return self._mapping[join]', ['lattices.join'], 'breaks'),
    (LT, "        if not key:\n            return self.supremum", "        if not key:\n            return self.infimum", ['lattices.__getitem__.empty'], 'breaks'),
    (LT, "extent = self._context.extension(properties, raw=True)", "extent = self._context.extension(properties)", ['lattices.__call__'], 'breaks'),
    (LT, "concepts = tools.maximal(concepts, comparison=Concept.properly_subsumes)", "concepts = tools.maximal(concepts, comparison=Concept.properly_implies)", ['lattices.upset_union'], 'breaks'),
    (LM, "_next_concepts=operator.attrgetter('lower_neighbors')):", "_next_concepts=operator.attrgetter('upper_neighbors')):", ['members.downset'], 'breaks'),
    (LM, "        return self._intent.members()\n\n\nclass Atom", "        return self._extent.members()\n\n\nclass Atom", ['members.infimum_minimal'], 'breaks'),
    (TL, "        idx = self._items.index(item)\n        self._seen.remove(item)\n        self._seen.add(new_item)",
         "        self._seen.add(new_item)\n        idx = self._items.index(item)\n        self._seen.remove(item)", ['tools.Unique.replace'], 'breaks'),
    (TL, "            self._seen.remove(item)\n            self._items.remove(item)", "            self._items.remove(item)", ['tools.Unique.discard'], 'breaks'),
    (TL, "        if item not in self._seen:\n            self._seen.add(item)\n            self._items.append(item)",
         "        self._seen.add(item)\n        self._items.append(item)", ['tools.Unique.add'], 'breaks'),
    (TL, "return self._fromargs(self._seen.copy(), self._items[:])", "return self._fromargs(self._seen, self._items[:])", ['tools.Unique.copy'], 'breaks'),
    (TL, "return self._fromargs(self._seen.copy(), self._items[:])", "return self._fromargs(self._seen.copy(), self._items)", ['tools.Unique.copy'], 'breaks'),
    (TL, "            self._items.insert(new_index, item)", "            self._items.insert(new_index + 1, item)", ['tools.Unique.move'], 'breaks'),
    (TL, "        if new_item in self._seen:\n            raise ValueError(f'{new_item!r} already in list')", "        pass", ['tools.Unique.replace'], 'breaks'),
    (TL, "        return item in self._seen", "        return item in self._items", ['tools.Unique.__contains__'], 'equivalent'),
    (DF, "        properties = tools.Unique(properties)\n", "        properties = set(properties)\n", ['definitions.set_object'], 'breaks'),
    (DF, "        self._objects.remove(obj)\n        self._pairs.difference_update((obj, p) for p in self._properties)", "        self._objects.remove(obj)", ['definitions.remove_object'], 'breaks'),
    (DF, "        self._pairs.difference_update((o, prop) for o in self._objects)", "        self._pairs.difference_update((prop, o) for o in self._objects)", ['definitions.remove_property'], 'breaks'),
    (DF, "        self._objects.replace(old, new)\n        pairs = self._pairs\n        pairs |= {(new, p) for p in self._properties\n                  if (old, p) in pairs and not pairs.remove((old, p))}",
         "        self._objects.replace(old, new)", ['definitions.rename_object'], 'breaks'),
    (DF, "                  if (old, p) in pairs and not pairs.remove((old, p))}", "                  if (old, p) in pairs}", ['definitions.rename_object'], 'breaks'),
    (DF, "        self._objects.add(obj)\n        self._properties |= properties\n        self._pairs.update((obj, p) for p in properties)",
         "        self._properties |= properties\n        self._pairs.update((obj, p) for p in properties)\n        self._objects.add(obj)", ['definitions.add_object'], 'equivalent'),
    (DF, "        self._properties |= properties\n        self._pairs.update((obj, p) for p in properties)", "        self._properties |= sorted(properties)\n        self._pairs.update((obj, p) for p in properties)", ['definitions.add_object'], 'breaks'),
    (DF, "        if value:\n            self._pairs.add(pair)\n        else:\n            self._pairs.discard(pair)", "        if value:\n            self._pairs.add(pair)", ['definitions.__setitem__'], 'breaks'),
    (DF, "            if p in properties:\n                pairs.add((obj, p))\n            else:\n                pairs.discard((obj, p))", "            if p in properties:\n                pairs.add((obj, p))", ['definitions.set_object'], 'breaks'),
    (DF, "        self._properties.move(prop, index)", "        self._objects.move(prop, index)", ['definitions.move_property'], 'breaks'),
    (DF, "        return self._fromargs(self._objects.copy(),\n                              self._properties.copy(),\n                              self._pairs.copy())",
         "        return self._fromargs(self._objects.copy(),\n                              self._properties.copy(),\n                              self._pairs)", ['definitions.copy'], 'breaks'),
    (DF, "        return self._fromargs(self._properties.copy(), self._objects.copy(),", "        return self._fromargs(self._properties, self._objects.copy(),", ['definitions.transposed'], 'breaks'),
    (DF, "{(p, o) for (o, p) in self._pairs})", "{(o, p) for (o, p) in self._pairs})", ['definitions.transposed'], 'breaks'),
    (DF, "                               if (o, p) not in pairs})", "                               if (p, o) not in pairs})", ['definitions.inverted'], 'breaks'),
    (DF, "        inst._pairs = _pairs\n        return inst", "        inst._pairs = set(_pairs)\n        return inst", ['definitions._fromargs'], 'breaks'),
    (DF, "        if not ignore_conflicts:\n            ensure_compatible(self, other)\n        self._objects |= other._objects",
         "        self._objects |= other._objects\n        if not ignore_conflicts:\n            ensure_compatible(self, other)", ['definitions.union_update'], 'breaks'),
    (DF, "        self._pairs &= other._pairs", "        self._pairs |= other._pairs", ['definitions.intersection_update'], 'breaks'),
    (DF, "        result = self.copy()\n        result.union_update(other, ignore_conflicts)\n        return result",
         "        result = self\n        result.union_update(other, ignore_conflicts)\n        return result", ['definitions.union'], 'breaks'),
    (DF, "        result = self.copy()\n        result.intersection_update(other, ignore_conflicts)", "        result = self.copy()\n        result.intersection_update(other)", ['definitions.intersection'], 'breaks'),
    (DF, "    difference = left._pairs ^ right._pairs", "    difference = left._pairs | right._pairs", ['definitions.conflicting_pairs'], 'breaks'),
    (DF, "    properties = left._properties & right._properties", "    properties = left._properties", ['definitions.conflicting_pairs'], 'breaks'),
    (DF, "    if conflicts:\n        raise ValueError", "    if len(conflicts) > 1:\n        raise ValueError", ['definitions.ensure_compatible'], 'breaks'),
    (DF, "        self.union_update(other)\n        return self", "        self.union_update(other, True)\n        return self", ['definitions.__ior__'], 'breaks'),
    (LI, "            upper.append(n_extent)\n", "            pass\n", ['lindig.lattice'], 'breaks'),
    (LI, "                mapping[n_extent][3].append(extent)", "                mapping[n_extent][2].append(extent)", ['lindig.lattice'], 'breaks'),
    (LI, "                mapping[n_extent][3].append(extent)", "                pass", ['lindig.lattice'], 'breaks'),
    (LI, "(n_extent, n_intent, [], [extent])", "(n_extent, n_intent, [], [])", ['lindig.lattice'], 'breaks'),
    (LI, "                push((n_extent.shortlex(), neighbor))", "                push((extent.shortlex(), neighbor))", ['lindig.lattice'], 'breaks'),
    (LI, "                push((n_extent.shortlex(), neighbor))", "                pass", ['lindig.lattice'], 'breaks'),
    (LI, "            if n_extent in mapping:", "            if n_extent not in mapping:", ['lindig.lattice'], 'breaks'),
    (LI, "    heap = [(extent.shortlex(), concept)]", "    heap = [(extent.shortlex(), (extent, intent, [], []))]", ['lindig.lattice'], 'breaks'),
    (LI, "    extent, intent = Objects.frommembers(infimum).doubleprime()", "    extent, intent = Objects.frommembers(infimum), Objects.frommembers(infimum).prime()", ['lindig.lattice'], 'breaks'),
    (LI, "        for n_extent, n_intent in neighbors(extent, Objects=Objects):", "        for n_extent, n_intent in neighbors(intent, Objects=Objects):", ['lindig.lattice'], 'breaks'),
    (LI, "mapping[n_extent] = neighbor = (n_extent, n_intent, [], [extent])\n                push((n_extent.shortlex(), neighbor))",
         "mapping[n_extent] = (n_extent, n_intent, [], [extent])\n                push((n_extent.shortlex(), (n_extent, n_intent, [], [extent])))", ['lindig.lattice'], 'breaks'),
    (LT, "            if c.objects:\n                c.objects.append(o)\n            else:\n                c.objects = [o]\n                touched.add(c)",
         "            if not c.objects:\n                c.objects.append(o)\n            else:\n                c.objects = [o]\n                touched.add(c)", ['lattices._annotate'], 'breaks'),
    (LT, "                c.objects = [o]\n                touched.add(c)", "                c.objects = [o]", ['lattices._annotate'], 'breaks'),
    (LT, "            extent = context.extension(context.intension([o]), raw=True)", "            extent = context.extension(context.intension([o]))", ['lattices._annotate'], 'breaks'),
    (LT, "        for c in touched:\n            c.properties = tuple(c.properties)", "        for c in touched:\n            c.objects = tuple(c.properties)", ['lattices._annotate'], 'breaks'),
    (LT, "                c.properties = [p]\n                touched.add(c)", "                c.objects = [p]\n                touched.add(c)", ['lattices._annotate'], 'breaks'),
    (LT, "        for p in context.properties:", "        for p in context.objects:", ['lattices._annotate'], 'breaks'),
    (LT, "            lower = (mapping[l] for l in c.lower_neighbors)\n            c.upper_neighbors = tuple(sorted(upper, key=shortlex))",
         "            lower = (mapping[l] for l in c.lower_neighbors)\n            c.upper_neighbors = tuple(sorted(upper, key=longlex))", ['lattices.__init__'], 'breaks'),
    (LT, "            lower = (mapping[l] for l in c.lower_neighbors)\n            c.upper_neighbors = tuple(sorted(upper, key=shortlex))\n            c.lower_neighbors = tuple(sorted(lower, key=longlex))",
         "            lower = (mapping[l] for l in c.lower_neighbors)\n            c.upper_neighbors = tuple(sorted(upper, key=shortlex))\n            c.lower_neighbors = tuple(sorted(upper, key=longlex))", ['lattices.__init__'], 'breaks'),
    (LT, "            c.index = index\n            upper = (mapping[u] for u in c.upper_neighbors)", "            c.index = index + 1\n            upper = (mapping[u] for u in c.upper_neighbors)", ['lattices.__init__'], 'breaks'),
    (LT, "            lower = (mapping[l] for l in c.lower_neighbors)\n            c.upper_neighbors = tuple(sorted(upper, key=shortlex))",
         "            lower = (mapping[l] for l in c.upper_neighbors)\n            c.upper_neighbors = tuple(sorted(upper, key=shortlex))", ['lattices.__init__'], 'breaks'),
    (LT, "        self._init(self, context, concepts, mapping=mapping)", "        self._init(self, context, concepts)", ['lattices.__init__'], 'breaks'),
    (LT, "        for dindex, c in enumerate(sorted(inst._concepts, key=inst._longlex)):", "        for dindex, c in enumerate(sorted(inst._concepts, key=inst._shortlex)):", ['lattices._init'], 'breaks'),
    (LT, "            c.atoms = tuple(a for a in atoms if e | a._extent == e)", "            c.atoms = tuple(a for a in atoms if e & a._extent)", ['lattices._init'], 'breaks'),
    (LT, "            c.atoms = tuple(a for a in atoms if e | a._extent == e)", "            c.atoms = tuple(a for a in atoms if e & a._extent == a._extent)", ['lattices._init'], 'equivalent'),
    (LT, "        inst.supremum.__class__ = Supremum\n        inst.infimum.__class__ = Infimum", "        inst.infimum.__class__ = Infimum\n        inst.supremum.__class__ = Supremum", ['lattices._init'], 'breaks'),
    (LT, "            c.dindex = dindex\n", "            c.dindex = dindex + 1\n", ['lattices._init'], 'breaks'),
    (JU, "        elif self is Replication:\n            self = Implication\n            left, right = right, left", "        elif self is Replication:\n            self = Implication", ['junctors.RelationMeta.__call__'], 'breaks'),
    (JU, "        if not self.binary:\n            right = pairs", "        if self.binary:\n            right = pairs", ['junctors.RelationMeta.__call__'], 'breaks'),
    (JU, "    Replication  <-  5| X| X|  | X|", "    Replication  <-  5| X| X| X| X|", ['junctors.RelationMeta.__call__', 'lemma.relation_patterns'], 'breaks'),
    (JU, "        self.sort(key=lambda r: r.order)", "        self.sort(key=lambda r: r.kind)", ['junctors.Relations.__init__'], 'breaks'),
    (JU, "if u.__class__ is Contingency), 2)", "if u.__class__ is not Contingency), 2)", ['junctors.Relations.__init__'], 'breaks'),
    (JU, "binary = (Relation(l, r, zip(lbools, rbools))", "binary = (Relation(r, l, zip(lbools, rbools))", ['junctors.Relations.__init__'], 'breaks'),
    (JU, "max((len(str(r.left)) for r in self), default=0)", "max(len(str(r.left)) for r in self)", ['junctors.Relations.tostring'], 'breaks'),
    (M, "        self.prime = self.BitSet.prime = prime", "        self.prime = self.BitSet.prime = double", ['matrices._pair_with'], 'breaks'),
    (M, "        Prime = other.BitSet.supremum  # noqa: N806", "        Prime = self.BitSet.supremum  # noqa: N806", ['matrices._pair_with'], 'breaks'),
    (M, "        y._pair_with(self, 1, x)", "        y._pair_with(self, 1, y)", ['matrices.Relation.__new__'], 'breaks'),
    (M, "        y = Y.Tuple.frombools(zip(*x.bools()))", "        y = Y.Tuple.frombools(x.bools())", ['matrices.Relation.__new__'], 'breaks'),
    (M, "            Y = bitsets.bitset(yname, ymembers, Vector, tuple=Vectors)  # noqa: N806", "            Y = X", ['matrices.Relation.__new__'], 'breaks'),
    (M, "            X = bitsets.meta.bitset(xname, xmembers, xid, Vector, None, Vectors)  # noqa: N806", "            X = bitsets.bitset(xname, xmembers, Vector, tuple=Vectors)  # noqa: N806", ['matrices.Relation.__new__.unpickle'], 'breaks'),
    (M, "            Y = bitsets.meta.bitset(yname, ymembers, yid, Vector, None, Vectors)  # noqa: N806", "            Y = bitsets.meta.bitset(yname, ymembers, xid, Vector, None, Vectors)  # noqa: N806", ['matrices.Relation.__new__.unpickle'], 'breaks'),
    (M, "            xid, yid = _ids", "            yid, xid = _ids", ['matrices.Relation.__new__.unpickle'], 'breaks'),
    (M, "        if _ids is not None:  # unpickle reconstruction", "        if _ids is None:  # unpickle reconstruction", ['matrices.Relation.__new__', 'matrices.Relation.__new__.unpickle'], 'breaks'),
    (CX, "            if not result.issubset(indexes):\n                raise ValueError('context contains invalid index')", "            pass", ['contexts.fromdict'], 'breaks'),
    (CX, "            if len(result) != len(r):\n                raise ValueError('context contains duplicated values')", "            pass", ['contexts.fromdict'], 'breaks'),
    (CX, "        if lattice is not None and not lattice:\n            raise ValueError('empty lattice')", "        pass", ['contexts.fromdict'], 'breaks'),
    (CX, "            raise ValueError(f'missing required keys in fromdict: {missing!r}')", "            raise KeyError(f'missing required keys in fromdict: {missing!r}')", ['contexts.fromdict'], 'breaks'),
    (CX, "            inst.lattice = lattices.Lattice._fromlist(inst, lattice, raw)", "            inst.lattice = lattices.Lattice._fromlist(inst, lattice, False)", ['contexts.fromdict'], 'breaks'),
    (CX, "        if not ignore_lattice and lattice is not None:", "        if lattice is not None:", ['contexts.fromdict'], 'breaks'),
    (CX, "        bools = [tuple(i in intent for i in indexes)", "        bools = [tuple(i not in intent for i in indexes)", ['contexts.fromdict'], 'breaks'),
    (CX, "            if not all(isinstance(v, str) for v in values):", "            if not any(isinstance(v, str) for v in values):", ['contexts.fromdict'], 'breaks'),
    # dropping the early row-count check is behaviour preserving: Context.__init__ rejects the mismatch with ValueError as well
    (CX, "        if len(context) != len(objects):", "        if False:", ['contexts.fromdict'], 'equivalent'),
    (LT, "            index_map = dict(enumerate(concepts))\n            shortlex = inst._shortlex\n            longlex = inst._longlex\n            concepts.sort(key=shortlex)",
         "            shortlex = inst._shortlex\n            longlex = inst._longlex\n            concepts.sort(key=shortlex)\n            index_map = dict(enumerate(concepts))", ['lattices._fromlist.raw'], 'breaks'),
    (LT, "            concepts.sort(key=shortlex)\n", "            concepts.sort(key=longlex)\n", ['lattices._fromlist.raw'], 'breaks'),
    (LT, "                upper = (index_map[i] for i in c.upper_neighbors)\n                lower = (index_map[i] for i in c.lower_neighbors)\n                c.upper_neighbors = tuple(sorted(upper, key=shortlex))",
         "                upper = (index_map[i] for i in c.upper_neighbors)\n                lower = (index_map[i] for i in c.lower_neighbors)\n                c.upper_neighbors = tuple(upper)", ['lattices._fromlist.raw'], 'breaks'),
    (LT, "                c.lower_neighbors = tuple(concepts[i] for i in c.lower_neighbors)", "                c.lower_neighbors = tuple(concepts[i] for i in c.upper_neighbors)", ['lattices._fromlist.ordered'], 'breaks'),
    (LT, "make_properties(sum(1 << i for i in in_)),", "make_properties(sum(1 << i for i in ex)),", ['lattices._fromlist.ordered', 'lattices._fromlist.raw'], 'breaks'),
    (LT, "        cls._init(inst, context, concepts)\n        return inst", "        cls._init(inst, context, concepts, unpickle=True)\n        return inst", ['lattices._fromlist.ordered'], 'breaks'),
    (CX, "                            require_lattice=require_lattice, raw=raw)", "                            require_lattice=require_lattice)", ['contexts.fromjson'], 'breaks'),
    (CX, "        elif ignore_lattice is None and 'lattice' not in self.__dict__:", "        elif ignore_lattice is None:", ['contexts.todict.none'], 'breaks'),
    (M, "                 (X._id, Y._id)))", "                 (Y._id, X._id)))", ['matrices.Relation.__reduce__'], 'breaks'),
    (LT, "                 tuple(u.index for u in c.upper_neighbors),", "                 tuple(u.dindex for u in c.upper_neighbors),", ['lattices._tolist'], 'breaks'),
    (FB, "        with open(filename, encoding=encoding, newline=cls.newline) as f:\n            return cls.loadf(f, **kwargs)",
         "        with open(filename, encoding=encoding) as f:\n            return cls.loadf(f, **kwargs)", ['formats.Format.load'], 'breaks'),
    (FB, "            return self.by_suffix[suffix.lower()]", "            return self.by_suffix[suffix]", ['formats.FormatMeta.infer_format'], 'breaks'),
    (FF, "    rows = iter_fimi_rows(bools)", "    rows = filter(None, iter_fimi_rows(bools))", ['formats.fimi.dump_file'], 'breaks'),
    (FF, "        yield [i for i, value in enumerate(row) if value]", "        yield [i + 1 for i, value in enumerate(row) if value]", ['formats.fimi.iter_fimi_rows'], 'breaks'),
    (FF, "        yield [i for i, value in enumerate(row) if value]", "        yield [i for i, value in enumerate(row) if not value]", ['formats.fimi.iter_fimi_rows'], 'breaks'),
    (CX, "        if args.serialized is not None:\n            return cls.fromdict(args.serialized)\n        return cls(args.objects, args.properties, args.bools)\n\n    @classmethod\n    def fromfile",
         "        return cls(args.objects, args.properties, args.bools)\n\n    @classmethod\n    def fromfile", ['contexts.fromstring'], 'breaks'),
    (DF, "            if objects is not None:\n                obj &= objects", "            if objects:\n                obj &= objects", ['definitions.take'], 'breaks'),
    (DF, "            obj = self._objects.copy()\n            prop = self._properties.copy()\n            if objects is not None:",
         "            obj = self._objects\n            prop = self._properties.copy()\n            if objects is not None:", ['definitions.take'], 'breaks'),
    (DF, "                               if (o, p) in pairs})", "                               })", ['definitions.take'], 'breaks'),
    (DF, "        empty_objects = [o for o in self._objects if o not in nonempty_objects]", "        empty_objects = [o for o in self._objects if o in nonempty_objects]", ['definitions.remove_empty_objects'], 'breaks'),
    (DF, "        nonempty_properties = {p for _, p in self._pairs}", "        nonempty_properties = {p for p, _ in self._pairs}", ['definitions.remove_empty_properties'], 'breaks'),
    (DF, "        for p in empty_properties:\n            self._properties.remove(p)\n        return empty_properties", "        for p in empty_properties:\n            self._properties.remove(p)\n        return sorted(empty_properties)", ['definitions.remove_empty_properties'], 'breaks'),
    (DF, "        if len(self._objects) != len(objects):\n            raise ValueError(f'duplicate objects: {objects!r}')", "        pass", ['definitions.__init__'], 'breaks'),
    (DF, "                       for p, b in zip(properties, boo) if b}", "                       for p, b in zip(properties, boo) if not b}", ['definitions.__init__'], 'breaks'),
    (TL, "        self._items = [item for item in iterable\n", "        self._items = [item for item in set(iterable)\n", ['tools.Unique.__init__'], 'breaks'),
    (TL, "                       if item not in seen and not add(item)]", "                       if not add(item)]", ['tools.Unique.__init__'], 'breaks'),
    (TL, "        return all(map(self._seen.__contains__, items))", "        return any(map(self._seen.__contains__, items))", ['tools.Unique.issuperset'], 'breaks'),
    (DF, "        return [tuple((o, p) in pairs for p in prop) for o in self._objects]", "        return [tuple((p, o) in pairs for p in prop) for o in self._objects]", ['definitions.bools'], 'breaks'),
    # line / structure level of the text formats (contracts/formats_lines.py)
    (FCX, "    yield from objects\n    yield from properties", "    yield from properties\n    yield from objects", ['formats.cxt.iter_cxt_lines'], 'breaks'),
    (FCX, "    yield f'{len(objects):d}'\n    yield f'{len(properties):d}'", "    yield f'{len(properties):d}'\n    yield f'{len(objects):d}'", ['formats.cxt.iter_cxt_lines'], 'breaks'),
    (FCX, "        yield ''.join(symbols[value] for value in row)", "        yield ''.join(symbols[not value] for value in row)", ['formats.cxt.iter_cxt_lines'], 'breaks'),
    (FCX, "        yield ''.join(symbols[value] for value in row)", "        yield ' '.join(symbols[value] for value in row)", ['formats.cxt.iter_cxt_lines'], 'breaks'),
    (FCX, "    yield 'B'\n    yield ''\n", "    yield 'B'\n", ['formats.cxt.iter_cxt_lines'], 'breaks'),
    (FCX, "    for row in bools:\n        yield", "    for row in bools[1:]:\n        yield", ['formats.cxt.iter_cxt_lines'], 'breaks'),
    (FCX, "    assert len(objects) == len(bools)", "    assert len(objects) == len(properties)", ['formats.cxt.iter_cxt_lines'], 'breaks'),
    (FCX, "        yield ''.join(symbols[value] for value in row)", "        yield ''.join([symbols[value] for value in row])", ['formats.cxt.iter_cxt_lines'], 'equivalent'),
    (FCX, "    yield f'{len(objects):d}'", "    yield f'{len(bools):d}'", ['formats.cxt.iter_cxt_lines'], 'equivalent'),
    (FCX, "        for line in iter_cxt_lines(objects, properties, bools,", "        for line in iter_cxt_lines(properties, objects, bools,", ['formats.cxt.Cxt.dumpf'], 'breaks'),
    (FCX, "        write = functools.partial(print, file=file)\n        for line in iter_cxt_lines", "        write = functools.partial(print)\n        for line in iter_cxt_lines", ['formats.cxt.Cxt.dumpf'], 'breaks'),
    (FCX, "            write(line)", "            write(line)\n            write(line)", ['formats.cxt.Cxt.dumpf'], 'breaks'),
    (FCX, "                                   symbols=cls.symbols):", "                                   ):", ['formats.cxt.Cxt.dumpf'], 'breaks'),
    (FCX, "            write(line)", "            print(line, file=file)", ['formats.cxt.Cxt.dumpf'], 'equivalent'),
    (FCX, "        properties = lines[y:y + x]", "        properties = lines[y:x]", ['formats.cxt.Cxt.loadf'], 'breaks'),
    (FCX, "        objects = lines[:y]", "        objects = lines[:x]", ['formats.cxt.Cxt.loadf'], 'breaks'),
    (FCX, "        return ContextArgs(objects, properties, bools)", "        return ContextArgs(properties, objects, bools)", ['formats.cxt.Cxt.loadf'], 'breaks'),
    (FCX, "        y, x = map(int, yx.split())", "        x, y = map(int, yx.split())", ['formats.cxt.Cxt.loadf'], 'breaks'),
    (FCX, "        lines = [l.strip() for l in table.strip().split('\\n')]", "        lines = [l for l in table.strip().split('\\n')]", ['formats.cxt.Cxt.loadf'], 'breaks'),
    (FCX, "                 for l in lines[y + x:]]", "                 for l in lines[y:]]", ['formats.cxt.Cxt.loadf'], 'breaks'),
    (FCX, "        b, yx, table = source.split('\\n\\n')", "        b, yx, table = source.split('\\n')", ['formats.cxt.Cxt.loadf'], 'breaks'),
    (FCX, "                 for l in lines[y + x:]]", "                 for l in lines[x + y:]]", ['formats.cxt.Cxt.loadf'], 'equivalent'),
    # character level (contracts/formats_chars.py): the constants read from the source, and the real loadf on the written text
    (FCX, "SYMBOLS = {False: '.', True: 'X'}", "SYMBOLS = {False: ' ', True: 'X'}", _CXTCH, 'breaks'),
    (FCX, "SYMBOLS = {False: '.', True: 'X'}", "SYMBOLS = {False: 'X', True: 'X'}", _CXTCH, 'breaks'),
    (FCX, "SYMBOLS = {False: '.', True: 'X'}", "SYMBOLS = {False: '..', True: 'X'}", _CXTCH, 'breaks'),
    (FCX, "SYMBOLS = {False: '.', True: 'X'}", "SYMBOLS = {False: '\\n', True: 'X'}", _CXTCH, 'breaks'),
    (FCX, "SYMBOLS = {False: '.', True: 'X'}", "SYMBOLS = {False: '\\u3000', True: 'X'}", _CXTCH, 'breaks'),
    (FCX, "SYMBOLS = {False: '.', True: 'X'}", "SYMBOLS = {False: '.', True: ''}", _CXTCH, 'breaks'),
    (FCX, "SYMBOLS = {False: '.', True: 'X'}", "SYMBOLS = {False: '0', True: '1'}", _CXTCH, 'equivalent'),
    (FCX, "SYMBOLS = {False: '.', True: 'X'}", "SYMBOLS = {True: 'X', False: '.'}", _CXTCH, 'equivalent'),
    (FCX, "    values = {s: b for b, s in symbols.items()}", "    values = {s: not b for b, s in symbols.items()}", _CXTCH, 'breaks'),
    (FCX, "    values = {s: b for b, s in symbols.items()}", "    values = {b: s for b, s in symbols.items()}", _CXTCH, 'breaks'),
    (FCX, "    values = {s: b for b, s in symbols.items()}", "    values = {'X': True}", _CXTCH, 'breaks'),
    (FCX, "    values = {s: b for b, s in symbols.items()}", "    values = {'X': True, '.': False, 'x': True}", _CXTCH, 'equivalent'),
    (FCX, "    symbols = SYMBOLS\n", "    symbols = {False: '.', True: '.'}\n", _CXTCH, 'breaks'),
    (FCX, "    dumps_rstrip = False\n\n", "", _CXTCH, 'equivalent'),
    # not a change of behaviour: the library assumption L_written is stated (and validated) for newline=None only, the units say so
    (FB, "    newline = None\n", "    newline = ''\n", _CXTCH, 'breaks'),
    (FCX, "        properties = lines[y:y + x]", "        properties = lines[y:x]", _CXTCH[1:], 'breaks'),
    (FCX, "        objects = lines[:y]", "        objects = lines[:x]", _CXTCH[1:], 'breaks'),
    (FCX, "        return ContextArgs(objects, properties, bools)", "        return ContextArgs(properties, objects, bools)", _CXTCH[1:], 'breaks'),
    (FCX, "        y, x = map(int, yx.split())", "        x, y = map(int, yx.split())", _CXTCH[1:], 'breaks'),
    (FCX, "                 for l in lines[y + x:]]", "                 for l in lines[y:]]", _CXTCH[1:], 'breaks'),
    (FCX, "        b, yx, table = source.split('\\n\\n')", "        b, yx, table = source.split('\\n')", _CXTCH[1:], 'breaks'),
    (FCX, "        b, yx, table = source.split('\\n\\n')", "        b, yx, table, more = source.split('\\n\\n')", _CXTCH[1:], 'breaks'),
    (FCX, "        y, x = map(int, yx.split())", "        y, x = map(int, yx.split('\\n\\n'))", _CXTCH[1:], 'breaks'),
    (FCX, "        lines = [l.strip() for l in table.strip().split('\\n')]", "        lines = [l.strip() for l in table.strip().split()]", _CXTCH[1:], 'breaks'),
    (FCX, "        bools = [tuple(map(cls.values.__getitem__, l))\n                 for l in lines[y + x:]]", "        bools = [tuple(map(cls.values.__getitem__, l))\n                 for l in lines[y + x + 1:]]", _CXTCH[1:], 'breaks'),
    (FCX, "        bools = [tuple(map(cls.values.__getitem__, l))", "        bools = [tuple(map(cls.values.__getitem__, l.strip()))", _CXTCH[1:], 'equivalent'),
    (FCX, "        lines = [l.strip() for l in table.strip().split('\\n')]", "        lines = [l for l in table.strip().split('\\n')]", _CXTCH[1:], 'equivalent'),
    (FCX, "                 for l in lines[y + x:]]", "                 for l in lines[x + y:]]", _CXTCH[1:], 'equivalent'),
    (FTB, "    wd = [tools.max_len(objects)]", "    wd = [tools.max_len(properties)]", ['formats.table.dump_file'], 'breaks'),
    (FTB, "    write(tmpl % (('',) + tuple(properties)))", "    write(tmpl % (tuple(properties) + ('',)))", ['formats.table.dump_file'], 'breaks'),
    (FTB, "tuple('X' if b else '' for b in intent)", "tuple('' if b else 'X' for b in intent)", ['formats.table.dump_file'], 'breaks'),
    (FTB, "    for o, intent in zip(objects, bools):\n        write(tmpl % ((o,)", "    for intent, o in zip(objects, bools):\n        write(tmpl % ((o,)", ['formats.table.dump_file'], 'breaks'),
    (FTB, "    wd.extend(map(len, properties))", "    wd.extend(map(len, objects))", ['formats.table.dump_file'], 'breaks'),
    (FTB, "'|'.join(f'%-{w:d}s' for w in wd) + '|'", "'|'.join(f'%{w:d}s' for w in wd) + '|'", ['formats.table.dump_file'], 'breaks'),
    (FTB, "    write(tmpl % (('',) + tuple(properties)))\n", "", ['formats.table.dump_file'], 'breaks'),
    (FTB, "        write(tmpl % ((o,) + tuple('X' if b else '' for b in intent)))", "        write(tmpl % ((o,) + tuple('X' if b else '' for b in intent)), end='')", ['formats.table.dump_file'], 'breaks'),
    (FTB, "tuple('X' if b else '' for b in intent)", "tuple('' if not b else 'X' for b in intent)", ['formats.table.dump_file'], 'equivalent'),
    (FTB, "    tmpl = ' ' * indent + '|'.join(f'%-{w:d}s' for w in wd) + '|'", "    tmpl = ' ' * indent + ('|'.join(f'%-{w:d}s' for w in wd) + '|')", ['formats.table.dump_file'], 'equivalent'),
    (FTB, "    properties = [p.strip() for p in lines[0].strip('|').split('|')]", "    properties = [p.strip() for p in lines[1].strip('|').split('|')]", ['formats.table.load_file'], 'breaks'),
    (FTB, "(objflags.partition('|')[::2] for objflags in lines[1:])", "(objflags.partition('|')[::2] for objflags in lines[2:])", ['formats.table.load_file'], 'breaks'),
    (FTB, "(objflags.partition('|')[::2] for objflags in lines[1:])", "(objflags.partition('|')[1:] for objflags in lines[1:])", ['formats.table.load_file'], 'breaks'),
    (FTB, "    objects, bools = zip(*table)\n    return ContextArgs(objects, properties, bools)", "    bools, objects = zip(*table)\n    return ContextArgs(objects, properties, bools)", ['formats.table.load_file'], 'breaks'),
    (FTB, "    lines = list(filter(None, lines))", "    lines = list(lines)", ['formats.table.load_file'], 'breaks'),
    (FTB, "    lines = (line.partition('#')[0].strip() for line in file)", "    lines = (line.partition('#')[2].strip() for line in file)", ['formats.table.load_file'], 'breaks'),
    (FTB, "tuple(bool(f.strip()) for f in flags.strip('|').split('|'))", "tuple(bool(f) for f in flags.strip('|').split('|'))", ['formats.table.load_file'], 'breaks'),
    (FTB, "tuple(bool(f.strip()) for f in flags.strip('|').split('|'))", "tuple(not not f.strip() for f in flags.strip('|').split('|'))", ['formats.table.load_file'], 'equivalent'),
    (FWK, "        write('|-')\n        write(f'!{o}')", "        write(f'!{o}')\n        write('|-')", ['formats.wiki_table.dump_file'], 'breaks'),
    (FWK, "        write('|{}'.format('||'.join(bcells)))\n    write('|}')", "        write('|{}'.format('||'.join(bcells)))", ['formats.wiki_table.dump_file'], 'breaks'),
    (FWK, "'||'.join(bcells)", "'|'.join(bcells)", ['formats.wiki_table.dump_file'], 'breaks'),
    (FWK, "for w, b in zip(wp, intent))", "for b, w in zip(wp, intent))", ['formats.wiki_table.dump_file'], 'breaks'),
    (FWK, "    write('!{}'.format('!!'.join(properties)))", "    write('!{}'.format('!!'.join(objects)))", ['formats.wiki_table.dump_file'], 'breaks'),
    (FWK, "    wp = list(map(len, properties))", "    wp = list(map(len, objects))", ['formats.wiki_table.dump_file'], 'breaks'),
    (FWK, "    write('!')\n", "", ['formats.wiki_table.dump_file'], 'breaks'),
    (FWK, "    wp = list(map(len, properties))", "    wp = [len(p) for p in properties]", ['formats.wiki_table.dump_file'], 'equivalent'),
    (FWK, "(('X' if b else '').ljust(w) for w, b in zip(wp, intent))", "[('X' if b else '').ljust(w) for w, b in zip(wp, intent)]", ['formats.wiki_table.dump_file'], 'equivalent'),
    # row-level formats (contracts/formats_csv.py)
    (FCSV, "        header = [object_header] + list(properties)", "        header = list(properties)", ['formats.csv.dumpf'], 'breaks'),
    (FCSV, "        symbool = cls.symbols[bools_as_int].__getitem__", "        symbool = cls.symbols[not bools_as_int].__getitem__", ['formats.csv.dumpf'], 'breaks'),
    (FCSV, "SYMBOLS = {False: {False: '', True: 'X'},", "SYMBOLS = {False: {False: '', True: 'x'},", ['formats.csv.dumpf', 'formats.csv.loadf'], 'breaks'),
    (FCSV, "tools.write_csv_file(file, rows, header=header, dialect=dialect)", "tools.write_csv_file(file, rows, header=header, dialect=cls.dialect)", ['formats.csv.dumpf'], 'breaks'),
    (FCSV, "        rows = ([o] + list(map(symbool, bs))", "        rows = ([o, o] + list(map(symbool, bs))", ['formats.csv.dumpf'], 'breaks'),
    (FCSV, "        symbool = cls.symbols[bools_as_int].__getitem__", "        symbool = SYMBOLS[bools_as_int].__getitem__", ['formats.csv.dumpf'], 'equivalent'),
    (FCSV, "for as_int, values in cls.values.items():", "for as_int, values in reversed(list(cls.values.items())):", ['formats.csv.loadf'], 'breaks'),
    (FCSV, "            rows = itertools.chain([first_row], reader)", "            rows = reader", ['formats.csv.loadf'], 'breaks'),
    (FCSV, "            bools.append(tuple(map(get_value, symbols)))", "            bools.append(tuple(map(get_value, reversed(symbols))))", ['formats.csv.loadf'], 'breaks'),
    (FCSV, "        object_header, *properties = next(reader)", "        *properties, object_header = next(reader)", ['formats.csv.loadf'], 'breaks'),
    (FCSV, "        objects, bools = ([] for _ in range(2))", "        objects = bools = []", ['formats.csv.loadf'], 'breaks'),
    (FCSV, "        objects, bools = ([] for _ in range(2))", "        objects, bools = [], []", ['formats.csv.loadf'], 'equivalent'),
    (FCSV, "        get_value = cls.values[bools_as_int].__getitem__", "        get_value = cls.values[not bools_as_int].__getitem__", ['formats.csv.loadf'], 'breaks'),
    (FCSV, "                except KeyError:\n                    pass\n                else:\n                    break",
           "                except KeyError:\n                    break\n                else:\n                    break", ['formats.csv.loadf'], 'breaks'),
    (FCSV, "VALUES = {as_int: {str(s): v for v, s in symbols.items()}", "VALUES = {as_int: {str(s): not v for v, s in symbols.items()}", ['formats.csv.loadf'], 'breaks'),
    (FCSV, "        reader = csv.reader(file, dialect=dialect)", "        reader = csv.reader(file)", ['formats.csv.loadf'], 'breaks'),
    (FCSV, "            bools_as_int = as_int\n", "            bools_as_int = False\n", ['formats.csv.loadf'], 'breaks'),
    (FCSV, "        if dialect is None:\n            dialect = cls.dialect\n\n        reader = csv.reader(file, dialect=dialect)",
           "        reader = csv.reader(file, dialect=cls.dialect if dialect is None else dialect)", ['formats.csv.loadf'], 'equivalent'),
    (FPL, "            row[i] = True", "            row[i] = False", ['formats.python_literal.load_file'], 'breaks'),
    (FPL, "            row[i] = True", "            row[i - 1] = True", ['formats.python_literal.load_file'], 'breaks'),
    (FPL, "        for i in true_indexes:", "        for i in true_indexes[1:]:", ['formats.python_literal.load_file'], 'breaks'),
    (FPL, "zip(bools, args['context'])", "zip(bools, args['context'][1:])", ['formats.python_literal.load_file'], 'breaks'),
    (FPL, "[[False for _ in args['properties']]\n             for _ in args['objects']]", "[[False for _ in args['objects']]\n             for _ in args['properties']]",
          ['formats.python_literal.load_file'], 'breaks'),
    (FPL, "[False for _ in args['properties']]", "[True for _ in args['properties']]", ['formats.python_literal.load_file'], 'breaks'),
    (FPL, "    return SerializedArgs(objects, properties, bools, serialized=args)", "    return SerializedArgs(properties, objects, bools, serialized=args)",
          ['formats.python_literal.load_file'], 'breaks'),
    (FPL, "[[False for _ in args['properties']]\n             for _ in args['objects']]", "[[False for _ in properties]\n             for _ in objects]",
          ['formats.python_literal.load_file'], 'equivalent'),
    (FPL, "tuple(i for i, b in enumerate(row) if b)", "tuple(i for i, b in enumerate(row) if not b)", ['formats.python_literal.dump_file.fresh'], 'breaks'),
    (FPL, "tuple(i for i, b in enumerate(row) if b)", "tuple(i + 1 for i, b in enumerate(row) if b)", ['formats.python_literal.dump_file.fresh'], 'breaks'),
    (FPL, "               'properties': properties,", "               'properties': objects,", ['formats.python_literal.dump_file.fresh'], 'breaks'),
    (FPL, "        for key in ('objects', 'properties'):", "        for key in ('properties', 'objects'):", _DUMPF, 'breaks'),
    (FPL, "        yield '}'", "        pass", _DUMPF, 'breaks'),
    (FPL, "(('lattice',) if 'lattice' in doc else ())", "('lattice',)", _DUMPF, 'breaks'),
    (FPL, "        write(line)", "        write(line)\n        write(line)", _DUMPF, 'breaks'),
    (FPL, "yield from itersection(key, lines, value_list=True)", "yield from itersection(key, lines)", _DUMPF, 'breaks'),
    (FPL, "        yield from lines\n", "        yield from lines\n        yield from lines\n", _DUMPF, 'breaks'),
    (FPL, "            line = ', '.join(map(repr, doc[key]))", "            line = ', '.join(map(repr, doc['objects']))", _DUMPF, 'breaks'),
    (FPL, "    write = functools.partial(print, file=file)", "    write = print", _DUMPF, 'breaks'),
    (FPL, "        keys = ('objects', 'properties', 'context')", "        keys = ('objects', 'properties', 'context', 'lattice')", ['formats.python_literal.dump_file.serialized'], 'breaks'),
    (FPL, "    write = functools.partial(print, file=file)\n    for line in iterlines(doc):\n        write(line)",
          "    for line in iterlines(doc):\n        print(line, file=file)", _DUMPF, 'equivalent'),
    # remaining I/O and helper functions (contracts/cover_io.py)
    (II, "    return Context.fromfile(filename, frmat, encoding)", "    return Context.fromfile(filename, encoding, frmat)", ['concepts.load'], 'breaks'),
    (II, "    return Context.fromfile(filename, frmat, encoding)", "    return Context.fromfile(filename, frmat)", ['concepts.load'], 'breaks'),
    (II, "    return Context.fromfile(filename, frmat, encoding)", "    return Context.fromfile(filename, encoding=encoding, frmat=frmat)", ['concepts.load'], 'equivalent'),
    (II, "    return Context.fromfile(filename, 'cxt', encoding)", "    return Context.fromfile(filename, 'table', encoding)", ['concepts.load_cxt'], 'breaks'),
    (II, "    return Context.fromfile(filename, 'cxt', encoding)", "    return Context.fromfile(filename, 'cxt')", ['concepts.load_cxt'], 'breaks'),
    (II, "    return Context.fromfile(filename, 'csv', encoding, dialect=dialect)", "    return Context.fromfile(filename, 'csv', encoding)", ['concepts.load_csv'], 'breaks'),
    (II, "    return Context.fromfile(filename, 'csv', encoding, dialect=dialect)", "    return Context.fromfile(filename, 'csv', dialect, encoding=encoding)", ['concepts.load_csv'], 'breaks'),
    (II, "    return Context.fromstring(source, frmat=frmat)", "    return Context.fromstring(source)", ['concepts.make_context'], 'breaks'),
    (II, "    return Context.fromstring(source, frmat=frmat)", "    return Context.fromfile(source, frmat=frmat)", ['concepts.make_context'], 'breaks'),
    (II, "    return Context.fromstring(source, frmat=frmat)", "    return Context.fromstring(source, frmat)", ['concepts.make_context'], 'equivalent'),
    (TL, "    if header is not None:\n        writer.writerow(header)\n    writer.writerows(rows)", "    writer.writerows(rows)\n    if header is not None:\n        writer.writerow(header)",
         ['tools.write_csv_file'], 'breaks'),
    (TL, "    writer = csv.writer(file, dialect=dialect)", "    writer = csv.writer(file)", ['tools.write_csv_file'], 'breaks'),
    (TL, "    if header is not None:\n        writer.writerow(header)\n", "    writer.writerow(header)\n", ['tools.write_csv_file'], 'breaks'),
    (TL, "        writer.writerow(header)\n    writer.writerows(rows)", "        writer.writerow(header)\n    writer.writerows(rows)\n    writer.writerows(rows)", ['tools.write_csv_file'], 'breaks'),
    (TL, "    writer = csv.writer(file, dialect=dialect)", "    writer = csv.writer(file, dialect)", ['tools.write_csv_file'], 'equivalent'),
    (TL, "        reader = csv.reader(f, dialect=dialect)", "        reader = csv.reader(f)", ['tools.csv_iterrows'], 'breaks'),
    (TL, "    with open(path, encoding=encoding, newline=newline) as f:\n        reader", "    with open(path, encoding=encoding) as f:\n        reader", ['tools.csv_iterrows'], 'breaks'),
    (TL, "        yield from reader", "        yield from reader\n        yield from reader", ['tools.csv_iterrows'], 'breaks'),
    (TL, "        write_csv_file(f, rows, header=header)", "        write_csv_file(f, rows)", ['tools.write_csv'], 'breaks'),
    (TL, "    with open(path, 'w', encoding=encoding, newline=newline) as f:\n        write_csv_file", "    with open(path, 'a', encoding=encoding, newline=newline) as f:\n        write_csv_file",
         ['tools.write_csv'], 'breaks'),
    (TL, "        write_csv_file(f, rows, header=header)", "        write_csv_file(f, rows, header=header, dialect='excel-tab')", ['tools.write_csv'], 'breaks'),
    # the repair of the finding (a given dialect is forwarded) keeps the contract
    (TL, "        write_csv_file(f, rows, header=header)", "        write_csv_file(f, rows, header=header, dialect=dialect)", ['tools.write_csv'], 'equivalent'),
    (TL, "        for line in lines:\n            write(line)", "        for line in lines:\n            write(line)\n            write(line)", ['tools.write_lines'], 'breaks'),
    (TL, "        write = functools.partial(print, file=f)\n        for line in lines:", "        write = print\n        for line in lines:", ['tools.write_lines'], 'breaks'),
    (TL, "    with open(path, 'w', encoding=encoding, newline=newline) as f:\n        write = ", "    with open(path, 'w', encoding=encoding) as f:\n        write = ", ['tools.write_lines'], 'breaks'),
    (TL, "        for line in lines:\n            write(line)", "        for line in lines:\n            print(line, file=f)", ['tools.write_lines'], 'equivalent'),
    (TL, "    with open(filepath, 'rb') as f:", "    with open(filepath, 'r') as f:", ['tools.sha256sum'], 'breaks'),
    (TL, "            h.update(data)", "            h.update(data)\n            h.update(data)", ['tools.sha256sum'], 'breaks'),
    (TL, "    return h.hexdigest()", "    return h.digest()", ['tools.sha256sum'], 'breaks'),
    (TL, "functools.partial(f.read, bufsize), b'')", "functools.partial(f.read, 1024), b'')", ['tools.sha256sum'], 'breaks'),
    (TL, "functools.partial(f.read, bufsize), b'')", "lambda: f.read(bufsize), b'')", ['tools.sha256sum'], 'equivalent'),
    (TL, "    value = zlib.crc32(data) & 0xffffffff", "    value = zlib.crc32(data) & 0xfffffff", ['tools.crc32_hex'], 'breaks'),
    (TL, "    return f'{value:x}'", "    return f'{value:X}'", ['tools.crc32_hex'], 'breaks'),
    (TL, "    value = zlib.crc32(data) & 0xffffffff", "    value = 0xffffffff & zlib.crc32(data)", ['tools.crc32_hex'], 'equivalent'),
    (TL, "_re_upper.sub(rf'{sep}\\1', name[1:])).lower()", "_re_upper.sub(rf'{sep}\\1', name)).lower()", ['tools.snakify'], 'breaks'),
    (TL, "_re_upper.sub(rf'{sep}\\1', name[1:])).lower()", "_re_upper.sub(rf'{sep}\\1', name[1:])).upper()", ['tools.snakify'], 'breaks'),
    (TL, "_re_upper.sub(rf'{sep}\\1', name[1:])).lower()", "_re_upper.sub(rf'\\1{sep}', name[1:])).lower()", ['tools.snakify'], 'breaks'),
    (TL, "_re_upper=re.compile(r'([A-Z])')", "_re_upper=re.compile(r'([a-z])')", ['tools.snakify'], 'breaks'),
    (TL, "    return (name[:1] + _re_upper", "    return (name[:2] + _re_upper", ['tools.snakify'], 'breaks'),
    (TL, "    kwargs['obj'] = obj\n", "    kwargs['fp'] = obj\n", ['tools.dump_json'], 'breaks'),
    (TL, "    _call_json('dump', path_or_fileobj, encoding, mode, **kwargs)", "    _call_json('dump', path_or_fileobj, mode, encoding, **kwargs)", ['tools.dump_json'], 'breaks'),
    (TL, "    _call_json('dump', path_or_fileobj, encoding, mode, **kwargs)", "    _call_json('dump', obj, encoding, mode, **kwargs)", ['tools.dump_json'], 'breaks'),
    (TL, "    return _call_json('load', path_or_fileobj, encoding, mode, **kwargs)", "    return _call_json('load', path_or_fileobj, encoding, mode)", ['tools.load_json'], 'breaks'),
    (TL, "    return _call_json('load', path_or_fileobj, encoding, mode, **kwargs)", "    return _call_json('dump', path_or_fileobj, encoding, mode, **kwargs)", ['tools.load_json'], 'breaks'),
    (TL, "    return _call_json('load', path_or_fileobj, encoding, mode, **kwargs)", "    _call_json('load', path_or_fileobj, encoding, mode, **kwargs)", ['tools.load_json'], 'breaks'),
    (TL, "    close = not fallthrough", "    close = fallthrough", ['tools._call_json'], 'breaks'),
    (TL, "(fp=f, **kwargs)", "(fp=path_or_fileobj, **kwargs)", ['tools._call_json'], 'breaks'),
    (TL, "    finally:\n        if close:\n            f.close()", "    finally:\n        pass", ['tools._call_json'], 'breaks'),
    (TL, "    except (AttributeError, TypeError):\n        raise TypeError", "    except (AttributeError, TypeError, ValueError):\n        raise TypeError", ['tools._call_json'], 'breaks'),
    (TL, "    finally:\n        if close:\n            f.close()", "    else:\n        if close:\n            f.close()", ['tools._call_json'], 'breaks'),
    (TL, "(fp=f, **kwargs)", "(fp=f)", ['tools._call_json'], 'breaks'),
    (TL, "    f, fallthrough = _get_fileobj(path_or_fileobj, mode, encoding=encoding)", "    f, fallthrough = _get_fileobj(path_or_fileobj, mode, encoding)", ['tools._call_json'], 'equivalent'),
    (TL, "            fallthrough = True", "            fallthrough = False", ['tools._get_fileobj'], 'breaks'),
    (TL, "        f = open(path_or_fileobj, mode, encoding=encoding)", "        f = open(path_or_fileobj, encoding=encoding)", ['tools._get_fileobj'], 'breaks'),
    (TL, "            f = path_or_fileobj.open(mode, encoding=encoding)", "            f = path_or_fileobj.open(mode)", ['tools._get_fileobj'], 'breaks'),
    (TL, "    except TypeError:\n        try:", "    except (TypeError, OSError):\n        try:", ['tools._get_fileobj'], 'breaks'),
    (TL, "    fallthrough = False\n\n    try:", "    fallthrough = True\n\n    try:", ['tools._get_fileobj'], 'breaks'),
    (TL, "        f = open(path_or_fileobj, mode, encoding=encoding)", "        f = open(path_or_fileobj, mode=mode, encoding=encoding)", ['tools._get_fileobj'], 'equivalent'),
    (FB, "            if 'suffix' in dct:", "            if 'name' in dct:", ['formats.FormatMeta.__init__'], 'breaks'),
    (FB, "            self._map[self.name] = self", "            self._map[name] = self", ['formats.FormatMeta.__init__'], 'breaks'),
    (FB, "tools.snakify(name, sep='-')", "tools.snakify(name)", ['formats.FormatMeta.__init__'], 'breaks'),
    (FB, "        if not dct.get('__abstract__'):", "        if dct.get('__abstract__'):", ['formats.FormatMeta.__init__'], 'breaks'),
    (FB, "                self.by_suffix[self.suffix] = self.name", "                self.by_suffix[self.name] = self.suffix", ['formats.FormatMeta.__init__'], 'breaks'),
    (FB, "dict.fromkeys(dct['aliases'], self)", "dict.fromkeys(dct['aliases'], self.name)", ['formats.FormatMeta.__init__'], 'breaks'),
    (FB, "            if 'name' not in dct:\n                self.name", "            if True:\n                self.name", ['formats.FormatMeta.__init__'], 'breaks'),
    (FB, "            if 'aliases' in dct:", "            if dct.get('__abstract__') or 'aliases' in dct:", ['formats.FormatMeta.__init__'], 'equivalent'),
    (FB, '"""Parse file-like object and return ``ContextArgs``."""\n        raise NotImplementedError', '"""Parse file-like object and return ``ContextArgs``."""\n        return None',
         ['formats.Format.loadf'], 'breaks'),
    (FB, '"""Parse file-like object and return ``ContextArgs``."""\n        raise NotImplementedError', '"""Parse file-like object and return ``ContextArgs``."""\n        raise ValueError',
         ['formats.Format.loadf'], 'breaks'),
    (FB, 'into file-like object."""\n        raise NotImplementedError', 'into file-like object."""\n        pass', ['formats.Format.dumpf'], 'breaks'),
    (FB, 'into file-like object."""\n        raise NotImplementedError', 'into file-like object."""\n        raise NotImplementedError()', ['formats.Format.dumpf'], 'equivalent'),
    (FF, "        yield tuple(map(int, values))", "        yield tuple(values)", ['formats.fimi.read_concepts_dat'], 'breaks'),
    (FF, "        yield tuple(map(int, values))", "        yield tuple(map(int, values[1:]))", ['formats.fimi.read_concepts_dat'], 'breaks'),
    (FF, "                              dialect=Fimi.dialect)\n    for values", "                              dialect='excel')\n    for values", ['formats.fimi.read_concepts_dat'], 'breaks'),
    (FF, "    rows = tools.csv_iterrows(path, encoding=encoding, newline=newline,", "    rows = tools.csv_iterrows(path, encoding=encoding,", ['formats.fimi.read_concepts_dat'], 'breaks'),
    (FF, "        yield tuple(map(int, values))", "        yield tuple(int(v) for v in values)", ['formats.fimi.read_concepts_dat'], 'equivalent'),
    (FF, "for extent, _ in iterconcepts) if extents", "for extent, _ in iterconcepts) if not extents", ['formats.fimi.write_concepts_dat'], 'breaks'),
    (FF, "for _, intent in iterconcepts))", "for intent, _ in iterconcepts))", ['formats.fimi.write_concepts_dat'], 'breaks'),
    (FF, "        tools.write_csv_file(f, rows, dialect=Fimi.dialect)", "        tools.write_csv_file(f, rows)", ['formats.fimi.write_concepts_dat'], 'breaks'),
    (FF, "    with open(path, 'w', encoding=encoding, newline=newline) as f:", "    with open(path, 'w', newline=newline) as f:", ['formats.fimi.write_concepts_dat'], 'breaks'),
    (FF, "(list(intent.iter_set()) for _, intent in iterconcepts))", "(list(intent.iter_set())[1:] for _, intent in iterconcepts))", ['formats.fimi.write_concepts_dat'], 'breaks'),
    (FF, "        tools.write_csv_file(f, rows, dialect=Fimi.dialect)", "        tools.write_csv_file(f, rows, dialect=FimiDialect)", ['formats.fimi.write_concepts_dat'], 'equivalent'),
    (VZ, "        if directory is not None:\n            filename = os.path.basename(filename)", "        if directory is None:\n            filename = os.path.basename(filename)", ['visualize.render_all'], 'breaks'),
    (VZ, "        c = concepts.load(cxtfile, encoding=encoding)", "        c = concepts.load(cxtfile)", ['visualize.render_all'], 'breaks'),
    (VZ, "            print(f'  matches exclude, skip')\n            continue", "            print(f'  matches exclude, skip')", ['visualize.render_all'], 'breaks'),
    (VZ, "        dot = l.graphviz(filename, directory, format=out_format)", "        dot = l.graphviz(filename, directory)", ['visualize.render_all'], 'breaks'),
    (VZ, "        dot.render()", "        dot.render()\n        dot.render()", ['visualize.render_all'], 'breaks'),
    (VZ, "        filename = f'{os.path.splitext(cxtfile)[0]}.gv'", "        filename = f'{os.path.splitext(cxtfile)[1]}.gv'", ['visualize.render_all'], 'breaks'),
    (VZ, "        filename = f'{os.path.splitext(cxtfile)[0]}.gv'", "        filename = f'{cxtfile}.gv'", ['visualize.render_all'], 'breaks'),
    (VZ, "        dot = l.graphviz(filename, directory, format=out_format)", "        dot = l.graphviz(filename, directory=directory, format=out_format)", ['visualize.render_all'], 'equivalent'),
    # ---- contracts/cover_core.py: the remaining small functions of the core classes
    (CX, "return self._Objects._members", "return self._Properties._members", ['contexts.objects'], 'breaks'),
    (CX, "return self._Properties._members", "return self._Objects._members", ['contexts.properties'], 'breaks'),
    (CX, "return self._intents.bools()", "return self._extents.bools()", ['contexts.bools'], 'breaks'),
    (CX, "return Context(self.objects, self.properties, self.bools)", "return Context(self.properties, self.objects, self.bools)", _COPY, 'breaks'),
    (CX, "return Context(self.objects, self.properties, self.bools)", "return self", _COPY, 'breaks'),
    (CX, "return Context(self.objects, self.properties, self.bools)",
         "new = Context(self.objects, self.properties, self.bools)\n        new.lattice = self.lattice\n        return new", _COPY, 'breaks'),
    (CX, "if include_lattice:  # pragma: no cover", "if not include_lattice:", _COPY, 'breaks'),
    (CX, "if include_lattice:  # pragma: no cover", "if include_lattice is True:", ['contexts.copy'], 'equivalent'),
    (CX, "return (f'{self!r}\\n'\n                f'{self.tostring(indent=4)}')", "return (f'{self.tostring(indent=4)}\\n'\n                f'{self!r}')", ['contexts.__str__'], 'breaks'),
    (CX, "f'{self.tostring(indent=4)}')", "f'{self.tostring()}')", ['contexts.__str__'], 'breaks'),
    (CX, "f' mapping {len(self.objects)} objects'", "f' mapping {len(self.properties)} objects'", ['contexts.__repr__'], 'breaks'),
    (CX, "f' [{self.crc32()}] at {id(self):#x}>')", "f' [{self.crc32()}] at {id(self)}>')", ['contexts.__repr__'], 'breaks'),
    (DF, "if o not in self._objects or p not in self._properties:", "if o not in self._objects and p not in self._properties:", ['definitions.__getitem__'], 'breaks'),
    (DF, "if o not in self._objects or p not in self._properties:", "if o not in self._objects:", ['definitions.__getitem__'], 'breaks'),
    (DF, "return pair in self._pairs", "return pair not in self._pairs", ['definitions.__getitem__'], 'breaks'),
    (DF, "        o, p = pair\n        if o not in self._objects", "        p, o = pair\n        if o not in self._objects", ['definitions.__getitem__'], 'breaks'),
    (DF, "return pair in self._pairs", "return (o, p) in self._pairs", ['definitions.__getitem__'], 'equivalent'),
    (DF, "return list(self)[pair]", "return list(self)[pair - 1]", _GETINT, 'breaks'),
    (DF, "return list(self)[pair]", "return list(self)[::-1][pair]", _GETINT, 'breaks'),
    (DF, "return not self == other", "return self == other", ['definitions.__ne__'], 'breaks'),
    (DF, "return not self == other", "return not self is other", ['definitions.__ne__'], 'breaks'),
    (DF, "return cls(args.objects, args.properties, args.bools)", "return cls(args.properties, args.objects, args.bools)", ['definitions.fromfile'], 'breaks'),
    (DF, "args = frmat.load(filename, encoding, **kwargs)", "args = frmat.load(filename, None, **kwargs)", ['definitions.fromfile'], 'breaks'),
    (DF, "args = frmat.load(filename, encoding, **kwargs)", "args = frmat.load(filename, encoding)", ['definitions.fromfile'], 'breaks'),
    (DF, "        return self.tostring()\n", "        return self.tostring(frmat='cxt')\n", ['definitions.__str__'], 'breaks'),
    (DF, "f'{self._objects._items!r}, {self._properties._items!r},'", "f'{self._properties._items!r}, {self._objects._items!r},'", ['definitions.__repr__'], 'breaks'),
    (DF, "f'{self._objects._items!r}, {self._properties._items!r},'", "f'{self._objects!r}, {self._properties!r},'", ['definitions.__repr__'], 'breaks'),
    (CM, "        return self.objects\n", "        return self.properties\n", ['_common.Shape.rows'], 'breaks'),
    (CM, "        return self.properties\n", "        return self.objects\n", ['_common.Shape.columns'], 'breaks'),
    (CM, "f'(objects={self.objects:_d},'", "f'(objects={self.properties:_d},'", ['_common.Shape.__repr__'], 'breaks'),
    (CM, "f' properties={self.properties:_d})')", "f' properties={self.properties})')", ['_common.Shape.__repr__'], 'breaks'),
    (CM, "return self.extent.members()", "return self.intent.members()", ['_common.Concept.objects'], 'breaks'),
    (CM, "return self.intent.members()", "return self.extent.members()", ['_common.Concept.properties'], 'breaks'),
    (CM, "return self.extent.count()", "return self.intent.count()", ['_common.Concept.n_objects'], 'breaks'),
    (CM, "return self.intent.count()", "return self.extent.count()", ['_common.Concept.n_properties'], 'breaks'),
    (CM, "return f'{self.extent.bits()} <-> {self.intent.bits()}'", "return f'{self.intent.bits()} <-> {self.extent.bits()}'", ['_common.Concept.__str__'], 'breaks'),
    (CM, "return self.extent_index_set(as_set=as_set), self.intent_index_set(as_set=as_set)",
         "return self.extent_index_set(as_set=as_set), self.intent_index_set()", ['_common.Concept.index_sets'], 'breaks'),
    (CM, "return self.extent_index_set(as_set=as_set), self.intent_index_set(as_set=as_set)",
         "return self.intent_index_set(as_set=as_set), self.extent_index_set(as_set=as_set)", ['_common.Concept.index_sets'], 'breaks'),
    (CM, "return cls(self.extent.iter_set())", "return cls(self.intent.iter_set())", ['_common.Concept.extent_index_set'], 'breaks'),
    (CM, "cls = frozenset if as_set else tuple", "cls = tuple if as_set else frozenset", ['_common.Concept.extent_index_set'], 'breaks'),
    (CM, "return cls(self.intent.iter_set())", "return cls(self.extent.iter_set())", ['_common.Concept.intent_index_set'], 'breaks'),
    (CM, "return cls(self.intent.iter_set())", "return tuple(self.intent.iter_set())", ['_common.Concept.intent_index_set'], 'breaks'),
    (JU, "        self.left = left\n        self.bools = bools", "        self.left = left\n        self.bools = left", ['junctors.Unary.__init__'], 'breaks'),
    (JU, "        self.left = left\n        self.bools = bools", "        self.left = left", ['junctors.Unary.__init__'], 'breaks'),
    (JU, "        self.left = left\n        self.right = right", "        self.left = right\n        self.right = left", ['junctors.Binary.__init__'], 'breaks'),
    (JU, "return f'{self.left} {self.kind}'\n", "return f'{self.kind} {self.left}'\n", ['junctors.Unary.__str__'], 'breaks'),
    (JU, "return f'<{self.__class__.__name__}({self.left!r})>'", "return f'<{self.__class__.__name__}({self.left})>'", ['junctors.Unary.__repr__'], 'breaks'),
    (JU, "return f'{self.left} {self.kind} {self.right}'", "return f'{self.right} {self.kind} {self.left}'", ['junctors.Binary.__str__'], 'breaks'),
    (JU, "({self.left!r}, {self.right!r})>'", "({self.right!r}, {self.left!r})>'", ['junctors.Binary.__repr__'], 'breaks'),
    ('concepts/matrices.py', "({self[0]!r}, {self[1]!r})>'", "({self[1]!r}, {self[0]!r})>'", ['matrices.Relation.__repr__'], 'breaks'),
    ('concepts/matrices.py', "({self[0]!r}, {self[1]!r})>'", "({self[0]}, {self[1]!r})>'", ['matrices.Relation.__repr__'], 'breaks'),
    ('concepts/matrices.py', "return f'<{self.__class__.__name__}({self[0]!r}", "return f'<Relation({self[0]!r}", ['matrices.Relation.__repr__'], 'breaks'),
    ('concepts/matrices.py', "({self[0]!r}, {self[1]!r})>'", "({self[0]!r}, {self[-1]!r})>'", ['matrices.Relation.__repr__'], 'equivalent'),
    (JU, "return self.tostring(exclude_orthogonal=True)", "return self.tostring()", ['junctors.Relations.__str__'], 'breaks'),
    (JU, "return self.tostring(exclude_orthogonal=True)", "return self.tostring(exclude_orthogonal=False)", ['junctors.Relations.__str__'], 'breaks'),
    (JU, "'kind': name.lower()", "'kind': name", _META, 'breaks'),
    (JU, "'order': int(order)", "'order': index", _META, 'breaks'),
    (JU, "pattern = frozenset(p for p, f in zip(properties, symbols) if f)", "pattern = frozenset(p for p, f in zip(properties, symbols) if not f)", _META, 'breaks'),
    (JU, "cls = type(name, (self,), ns)", "cls = type(name, bases, ns)", _META, 'breaks'),
    (JU, "globals()[cls.__name__] = self.__map[pattern] = cls", "globals()[cls.__name__] = cls", _META, 'breaks'),
    (JU, "if 'binary' not in dct:", "if 'binary' in dct:", _META, 'breaks'),
    (JU, "in enumerate(obj_flags):", "in enumerate(obj_flags, 1):", _META, 'breaks'),
    (JU, "    Subcontrary  v   6| X| X| X|  |", "    Subcontrary  v   6| X| X|  | X|", _META, 'breaks'),
    (JU, "    Tautology     f -1|X| |", "    Tautology     f -1| |X|", _META, 'breaks'),
    (JU, "    Equivalent   <-> 1| X|  |  | X|", "    Equivalent   <-> 3| X|  |  | X|", _META, 'breaks'),
    (JU, "symbols = {'T': True, 'F': False}", "symbols = {'F': False, 'T': True}", _META, 'equivalent'),
    (JU, "properties = [get_prop(fg) for fg in table[0].strip('|').split('|')]", "properties = list(map(get_prop, table[0].strip('|').split('|')))", _META, 'equivalent'),
    (TL, "if i not in ignore and i not in seen and not add(i)]", "if i not in ignore and not add(i)]", ['tools.Unique.rsub'], 'breaks'),
    (TL, "if i not in ignore and i not in seen and not add(i)]", "if i not in seen and not add(i)]", ['tools.Unique.rsub'], 'breaks'),
    (TL, "if i not in ignore and i not in seen and not add(i)]", "if i in ignore and i not in seen and not add(i)]", ['tools.Unique.rsub'], 'breaks'),
    (TL, "if i not in ignore and i not in seen and not add(i)]", "if i not in ignore and i not in seen]", ['tools.Unique.rsub'], 'breaks'),
    (TL, "return self._fromargs(seen, items)", "return self._fromargs(ignore, items)", ['tools.Unique.rsub'], 'breaks'),
    (TL, "return self._fromargs(seen, items)", "return self._fromargs(set(), items)", ['tools.Unique.rsub'], 'breaks'),
    (TL, "if i not in ignore and i not in seen and not add(i)]", "if i not in seen and i not in ignore and not add(i)]", ['tools.Unique.rsub'], 'equivalent'),
    (TL, "arg = repr(self._items) if self._items else ''", "arg = repr(self._items)", ['tools.Unique.__repr__'], 'breaks'),
    (TL, "arg = repr(self._items) if self._items else ''", "arg = repr(self._seen) if self._items else ''", ['tools.Unique.__repr__'], 'breaks'),
    (TL, "        self.fget = fget\n", "        self.fget = None\n", ['tools.lazyproperty.__init__'], 'breaks'),
    (TL, "for attr in ('__module__', '__name__', '__doc__'):", "for attr in ('__module__', '__doc__'):", ['tools.lazyproperty.__init__'], 'breaks'),
    (TL, "setattr(self, attr, getattr(fget, attr))", "setattr(fget, attr, getattr(fget, attr))", ['tools.lazyproperty.__init__'], 'breaks'),
    (TL, "return max(result, minimum)", "return result", _MAXLEN, 'breaks'),
    (TL, "return max(result, minimum)", "return max(result, minimum) + 1", _MAXLEN, 'breaks'),
    (TL, "        return minimum\n", "        return 0\n", _MAXLEN, 'breaks'),
    (TL, "return max(result, minimum)", "return max(minimum, result)", _MAXLEN, 'equivalent'),
    (LM, "if len(o_neighbors) != len(s_neighbors):", "if len(o_neighbors) < len(s_neighbors):", ['members.Pair._eq'], 'breaks'),
    (LM, "for attname in ('upper_neighbors', 'lower_neighbors'):", "for attname in ('upper_neighbors',):", ['members.Pair._eq'], 'breaks'),
    (LM, "or other._intent.members() != self._intent.members()):", "or other._intent.members() != other._intent.members()):", ['members.Pair._eq'], 'breaks'),
    (LM, "if o._extent.members() != s._extent.members():", "if o._extent.members() != o._extent.members():", ['members.Pair._eq'], 'breaks'),
    (LM, "                    return False\n        return True", "                    return False\n        return False", ['members.Pair._eq'], 'breaks'),
    (LM, "            return NotImplemented\n\n        if (other._extent.members()", "            return False\n\n        if (other._extent.members()", ['members.Pair._eq'], 'breaks'),
    (LM, "if o._extent.members() != s._extent.members():", "if s._extent.members() != o._extent.members():", ['members.Pair._eq'], 'equivalent'),
    (LM, "for s, o in zip(s_neighbors, o_neighbors):\n                if o._extent.members() != s._extent.members():",
         "for o, s in zip(o_neighbors, s_neighbors):\n                if o._extent.members() != s._extent.members():", ['members.Pair._eq'], 'equivalent'),
    (LM, "        return self._extent.members()\n", "        return self._intent.members()\n", ['members.Pair.extent'], 'breaks'),
    (LM, "        return self._intent.members()\n", "        return self._extent.members()\n", ['members.Pair.intent'], 'breaks'),
    (LM, "extent = ', '.join(self._extent.members())", "extent = ', '.join(self._intent.members())", ['members.__str__'], 'breaks'),
    (LM, "objects = ' <=> {}'.format(' '.join(self.objects)) if self.objects else ''", "objects = ' <=> {}'.format(' '.join(self.objects)) if self.properties else ''",
         ['members.__str__'], 'breaks'),
    (LM, "return f'{{{extent}}} <-> [{intent}]{objects}{properties}'", "return f'{{{extent}}} <-> [{intent}]{properties}{objects}'", ['members.__str__'], 'breaks'),
    (LM, "intent = ' '.join(self._intent.members())", "intent = ', '.join(self._intent.members())", ['members.__str__'], 'breaks'),
    (LM, "return f'<{self.__class__.__name__} {self}>'", "return f'<{self.__class__.__name__} {self!r}>'", ['members.__repr__'], 'breaks'),
    (LT, "if (len(other._concepts) != len(self._concepts)", "if (len(other._concepts) < len(self._concepts)", ['lattices._eq'], 'breaks'),
    (LT, "or not all(s._eq(o) for s, o in zip(self._concepts, other._concepts))):", "or not all(s._eq(s) for s, o in zip(self._concepts, other._concepts))):",
         ['lattices._eq'], 'breaks'),
    (LT, "            or not all(s._eq(o) for s, o in zip(self._concepts, other._concepts))):", "                ):", ['lattices._eq'], 'breaks'),
    (LT, "!= {e.members() for e in self._mapping}):", "!= {e.members() for e in other._mapping}):", ['lattices._eq'], 'breaks'),
    (LT, "if (o.index != s.index or o.dindex != s.dindex", "if (o.index != s.index or o.dindex != o.dindex", ['lattices._eq'], 'breaks'),
    (LT, "!= [a._extent.members() for a in s.atoms]", "!= [a._extent.members() for a in o.atoms]", ['lattices._eq'], 'breaks'),
    (LT, "or o.objects != s.objects or o.properties != s.properties):", "or o.objects != s.objects):", ['lattices._eq'], 'breaks'),
    (LT, "                return False\n\n        return True", "                return False\n\n        return False", ['lattices._eq'], 'breaks'),
    (LT, "if (o.index != s.index or o.dindex != s.dindex", "if (s.index != o.index or s.dindex != o.dindex", ['lattices._eq'], 'equivalent'),
    (LT, "concepts = '\\n'.join(f'    {c}' for c in self._concepts)", "concepts = '\\n'.join(f'    {c}' for c in reversed(self._concepts))", ['lattices.__str__'], 'breaks'),
    (LT, "concepts = '\\n'.join(f'    {c}' for c in self._concepts)", "concepts = '\\n'.join(f'    {c!r}' for c in self._concepts)", ['lattices.__str__'], 'breaks'),
    (LT, "return f'{self!r}\\n{concepts}'", "return f'{concepts}\\n{self!r}'", ['lattices.__str__'], 'breaks'),
    (LT, "f' of {len(self.atoms)} atoms'", "f' of {len(self)} atoms'", ['lattices.__repr__'], 'breaks'),
    (LT, "f' {len(self.supremum.lower_neighbors)} coatoms'", "f' {len(self.supremum.upper_neighbors)} coatoms'", ['lattices.__repr__'], 'breaks'),
    (LT, "if concept._extent | target == target:", "if concept._extent & target == target:", _UPGEN, 'breaks'),
    (LT, "if concept._extent | target == target:", "if concept._extent | target == concept._extent:", _UPGEN, 'breaks'),
    (LT, "            if index > seen:\n                seen = index\n                if concept", "            if index >= seen:\n                seen = index\n                if concept", _UPGEN, 'breaks'),
    (LT, "                seen = index\n                if concept", "                if concept", _UPGEN, 'breaks'),
    (LT, "        seen = -1\n        while heap:\n            index, concept = pop(heap)\n            if index > seen:",
         "        seen = 0\n        while heap:\n            index, concept = pop(heap)\n            if index > seen:", _UPGEN, 'breaks'),
    (LT, "push(heap, (c.index, c))", "push(heap, (concept.index, c))", _UPGEN, 'breaks'),
    (LT, "                                       comparison=Concept.properly_subsumes)]", "                                       comparison=Concept.properly_implies)]", _UPGEN, 'breaks'),
    (LT, "        target = self._context._Objects.reduce_or(extents)", "        target = self._context._Objects.supremum", _UPGEN, 'breaks'),
    (LT, "                    yield concept\n                    if concept._extent == target:\n                        return\n",
         "                    if concept._extent == target:\n                        return\n                    yield concept\n", _UPGEN, 'breaks'),
    (LT, "                    if concept._extent == target:\n                        return\n", "", _UPGEN, 'equivalent'),
    (LT, "                    yield concept\n                    if concept._extent == target:\n                        return\n                    for c in concept.upper_neighbors:\n                        push(heap, (c.index, c))",
         "                    for c in concept.upper_neighbors:\n                        push(heap, (c.index, c))\n                    yield concept\n                    if concept._extent == target:\n                        return",
         _UPGEN, 'equivalent'),
    (CM, "if frmat != 'fimi':  # pragma: no cover", "if frmat == 'fimi':", _TOFILE, 'breaks'),
    (CM, "formats.write_concepts_dat(filename, self, **kwargs)", "formats.write_concepts_dat(filename, self)", _TOFILE, 'breaks'),
    (CM, "formats.write_concepts_dat(filename, self, **kwargs)", "formats.write_concepts_dat(self, filename, **kwargs)", _TOFILE, 'breaks'),
    # robustness round 3: behaviour-preserving reformulations that used to raise an alarm stay quiet ('equivalent'), and the same
    # reformulations with a defect are still caught ('breaks')
    # -- comprehension <-> accumulator loop in front of the loop that carries the invariant (`accumulator_form` clause, engine.CompView)
    (DF, "        empty_properties = [p for p in self._properties if p not in nonempty_properties]",
         "        empty_properties = []\n        for p in self._properties:\n            if p not in nonempty_properties:\n                empty_properties.append(p)",
         ['definitions.remove_empty_properties'], 'equivalent'),
    (DF, "        empty_objects = [o for o in self._objects if o not in nonempty_objects]",
         "        empty_objects = []\n        for o in self._objects:\n            if o not in nonempty_objects:\n                empty_objects.append(o)",
         ['definitions.remove_empty_objects'], 'equivalent'),
    (DF, "        empty_objects = [o for o in self._objects if o not in nonempty_objects]",
         "        empty_objects = []\n        for o in self._objects:\n            obj = o\n            if obj not in nonempty_objects:\n                empty_objects.append(obj)",
         ['definitions.remove_empty_objects'], 'equivalent'),
    (DF, "        empty_properties = [p for p in self._properties if p not in nonempty_properties]",
         "        empty_properties = []\n        for p in self._properties:\n            if p in nonempty_properties:\n                empty_properties.append(p)",
         ['definitions.remove_empty_properties'], 'breaks'),
    (DF, "        empty_properties = [p for p in self._properties if p not in nonempty_properties]",
         "        empty_properties = []\n        for p in self._properties:\n            empty_properties.append(p)",
         ['definitions.remove_empty_properties'], 'breaks'),
    (DF, "        empty_objects = [o for o in self._objects if o not in nonempty_objects]",
         "        empty_objects = []\n        for o in self._properties:\n            if o not in nonempty_objects:\n                empty_objects.append(o)",
         ['definitions.remove_empty_objects'], 'breaks'),
    # -- table.load_file: the nested comprehension as a loop with a tuple-unpacking local; zip(*table) then gets a contract sequence
    (FTB, "    table = [(obj.strip(),\n        tuple(bool(f.strip()) for f in flags.strip('|').split('|')))\n        for obj, flags in\n            (objflags.partition('|')[::2] for objflags in lines[1:])]",
          "    table = []\n    for objflags in lines[1:]:\n        obj, flags = objflags.partition('|')[::2]\n        table.append((obj.strip(),\n                      tuple(bool(f.strip())\n                            for f in flags.strip('|').split('|'))))",
          ['formats.table.load_file'], 'equivalent'),
    (FTB, "    table = [(obj.strip(),\n        tuple(bool(f.strip()) for f in flags.strip('|').split('|')))\n        for obj, flags in\n            (objflags.partition('|')[::2] for objflags in lines[1:])]",
          "    table = []\n    for objflags in lines[2:]:\n        obj, flags = objflags.partition('|')[::2]\n        table.append((obj.strip(),\n                      tuple(bool(f.strip())\n                            for f in flags.strip('|').split('|'))))",
          ['formats.table.load_file'], 'breaks'),
    (FTB, "    table = [(obj.strip(),\n        tuple(bool(f.strip()) for f in flags.strip('|').split('|')))\n        for obj, flags in\n            (objflags.partition('|')[::2] for objflags in lines[1:])]",
          "    table = []\n    for objflags in lines[1:]:\n        flags, obj = objflags.partition('|')[::2]\n        table.append((obj.strip(),\n                      tuple(bool(f.strip())\n                            for f in flags.strip('|').split('|'))))",
          ['formats.table.load_file'], 'breaks'),
    # -- FCbO: variants that yield the same concepts, each once (C04; the emission order is not part of it)
    (FC, 'stack.append((concept, j + 1, next_property_sets))', 'stack.append((concept, j, next_property_sets))', _FCBO_P, 'equivalent'),
    (FC, 'stack.append((concept, j + 1, next_object_sets))', 'stack.append((concept, j, next_object_sets))', _FCBO_O, 'equivalent'),
    (FC, 'for j, j_property in reversed(j_atom[property_index:]):', 'for j, j_property in j_atom[property_index:]:', _FCBO_P, 'equivalent'),
    (FC, 'for j, j_object in reversed(j_atom[object_index:]):', 'for j, j_object in j_atom[object_index:]:', _FCBO_O, 'equivalent'),
    (FC, '        if property_index == n_properties or not extent:\n            continue\n\n', '', _FCBO_P, 'equivalent'),
    (FC, '        if object_index == n_objects or not intent:\n            continue\n\n', '', _FCBO_O, 'equivalent'),
    (FC, 'stack.append((concept, j + 1, next_property_sets))', 'stack.append((concept, j - 1, next_property_sets))', ['fcbo.fast_generate_from.complete'], 'breaks'),
    (FC, 'stack.append((concept, j + 1, next_object_sets))', 'stack.append((concept, object_index, next_object_sets))', ['fcbo.fcbo_dual.complete'], 'breaks'),
    (FC, 'for j, j_property in reversed(j_atom[property_index:]):', 'for j, j_property in j_atom[property_index + 1:]:', ['fcbo.fast_generate_from.complete'], 'breaks'),
    (FC, 'for j, j_object in reversed(j_atom[object_index:]):', 'for j, j_object in j_atom:', ['fcbo.fcbo_dual.complete'], 'breaks'),
    (FC, '            if j_property & intent:\n                continue\n', '', ['fcbo.fast_generate_from.complete'], 'breaks'),
    # -- FCbO: renamed locals (the `use lemma` instances hang on the read of the failed set / of the context line, not on a name)
    (FC, '            x = next_property_sets[j] & j_mask\n\n            if x & intent == x:', '            inherited = next_property_sets[j] & j_mask\n\n            if inherited & intent == inherited:', _FCBO_P, 'equivalent'),
    (FC, '            x = next_object_sets[j] & j_mask\n\n            if x & extent == x:', '            inherited = next_object_sets[j] & j_mask\n\n            if inherited & extent == inherited:', _FCBO_O, 'equivalent'),
    # robustness round 5 (seeded/REFACTORINGS.md): `break` in contract loops, generator helpers executed in place, set-accumulator loops, ...
    # -- tools.sha256sum: the chunk loop spelled with `while True ... break` / with an assignment expression; the clause is about the
    #    chunks READ (ghost position of the file), a break on the wrong read, a skipped or doubled read are caught in every spelling
    (TL, _SHA_FOR, _SHA_WHILE % ("            data = f.read(bufsize)\n            if data == b'':\n                break\n            h.update(data)"), ['tools.sha256sum'], 'equivalent'),
    (TL, _SHA_FOR, _SHA_WHILE % ("            data = f.read(bufsize)\n            if not data:\n                break\n            h.update(data)"), ['tools.sha256sum'], 'equivalent'),
    (TL, _SHA_FOR, _SHA_WHILE % ("            data = f.read(bufsize)\n            if data != b'':\n                h.update(data)\n            else:\n                break"), ['tools.sha256sum'], 'equivalent'),
    (TL, _SHA_FOR, "        while data := f.read(bufsize):\n            h.update(data)", ['tools.sha256sum'], 'equivalent'),
    (TL, _SHA_FOR, _SHA_WHILE % ("            data = f.read(bufsize)\n            if data != b'':\n                break\n            h.update(data)"), ['tools.sha256sum'], 'breaks'),
    (TL, _SHA_FOR, _SHA_WHILE % ("            data = f.read(bufsize)\n            if data == b'':\n                break\n            data = f.read(bufsize)\n            h.update(data)"), ['tools.sha256sum'], 'breaks'),
    (TL, _SHA_FOR, _SHA_WHILE % ("            data = f.read(bufsize)\n            if data == b'':\n                pass\n            h.update(data)"), ['tools.sha256sum'], 'breaks'),
    (TL, _SHA_FOR, _SHA_WHILE % ("            data = f.read(bufsize)\n            if data == b'':\n                break\n            h.update(data)\n            break"), ['tools.sha256sum'], 'breaks'),
    (TL, _SHA_FOR, "        f.read(bufsize)\n" + _SHA_WHILE % ("            data = f.read(bufsize)\n            if not data:\n                break\n            h.update(data)"), ['tools.sha256sum'], 'breaks'),
    (TL, _SHA_FOR, _SHA_WHILE % ("            data = f.read(1024)\n            if data == b'':\n                break\n            h.update(data)"), ['tools.sha256sum'], 'breaks'),
    (TL, _SHA_FOR, "        while not (data := f.read(bufsize)):\n            h.update(data)", ['tools.sha256sum'], 'breaks'),
    (TL, _SHA_FOR, "        while data := f.read(bufsize):\n            h.update(data)\n            h.update(data)", ['tools.sha256sum'], 'breaks'),
    (TL, _SHA_FOR, _SHA_FOR + "\n            f.read(bufsize)", ['tools.sha256sum'], 'breaks'),
    # -- table.load_file: the rows computed by a module-level GENERATOR helper consumed at the call site (engine: call_generator_helper);
    #    the helper is part of the verified text: the wrong tuple, the wrong part of the line, the wrong slice at the call are caught
    (FTB, _TLF_OLD, _tlf(_TLF_ROWS, 'zip(*iter_object_rows(lines[1:]))'), _TLF, 'equivalent'),
    (FTB, _TLF_OLD, _tlf(_TLF_ROWS, 'zip(*list(iter_object_rows(lines[1:])))'), _TLF, 'equivalent'),
    (FTB, _TLF_OLD, _tlf(_TLF_ROWS, 'zip(*tuple(iter_object_rows(lines[1:])))'), _TLF, 'equivalent'),
    (FTB, _TLF_OLD, _tlf("    table = []\n    for objflags in lines:\n        obj, _, flags = objflags.partition('|')\n        table.append((obj.strip(),\n"
                         "               tuple(bool(f.strip()) for f in flags.strip('|').split('|'))))\n    return table",
                         'zip(*iter_object_rows(lines[1:]))'), _TLF, 'equivalent'),
    (FTB, _TLF_OLD, _tlf(_TLF_ROWS.replace("(obj.strip(),\n               tuple(bool(f.strip()) for f in flags.strip('|').split('|')))",
                                           "(tuple(bool(f.strip()) for f in flags.strip('|').split('|')), obj.strip())"),
                         'zip(*iter_object_rows(lines[1:]))'), _TLF, 'breaks'),
    (FTB, _TLF_OLD, _tlf(_TLF_ROWS.replace('yield (obj.strip(),', 'yield (obj,'), 'zip(*iter_object_rows(lines[1:]))'), _TLF, 'breaks'),
    (FTB, _TLF_OLD, _tlf(_TLF_ROWS.replace('obj, _, flags =', 'obj, flags, _ ='), 'zip(*iter_object_rows(lines[1:]))'), _TLF, 'breaks'),
    (FTB, _TLF_OLD, _tlf(_TLF_ROWS.replace("flags.strip('|')", "flags"), 'zip(*iter_object_rows(lines[1:]))'), _TLF, 'breaks'),
    (FTB, _TLF_OLD, _tlf(_TLF_ROWS, 'zip(*iter_object_rows(lines))'), _TLF, 'breaks'),
    (FTB, _TLF_OLD, _tlf(_TLF_ROWS, 'zip(*iter_object_rows(lines[2:]))'), _TLF, 'breaks'),
    (FTB, _TLF_OLD, _tlf(_TLF_ROWS + "\n        yield (obj.strip(), ())", 'zip(*iter_object_rows(lines[1:]))'), _TLF, 'breaks'),
    # -- tools.Unique.__init__ / Unique.rsub: the side-effecting list comprehension spelled as a loop that fills `seen` and a list; the
    #    `comprehension_loops` clause keyed ListComp#0 is about the iteration and runs on either spelling (engine: comprehension_spec_loop)
    (TL, _UI_OLD, _UI_LOOP % "            if item not in seen:\n                seen.add(item)\n                items.append(item)", ['tools.Unique.__init__'], 'equivalent'),
    (TL, _UI_OLD, _UI_LOOP % "            if item in seen:\n                continue\n            seen.add(item)\n            items.append(item)", ['tools.Unique.__init__'], 'equivalent'),
    (TL, _UI_OLD, "        seen = set()\n        items = []\n        for item in iterable:\n            if item not in seen:\n                seen.add(item)\n                items.append(item)\n        self._seen = seen\n        self._items = items", ['tools.Unique.__init__'], 'equivalent'),
    (TL, _UI_OLD, _UI_LOOP % "            if item not in seen:\n                items.append(item)", ['tools.Unique.__init__'], 'breaks'),
    (TL, _UI_OLD, _UI_LOOP % "            if item not in seen:\n                seen.add(item)\n            items.append(item)", ['tools.Unique.__init__'], 'breaks'),
    (TL, _UI_OLD, _UI_LOOP % "            if item in seen:\n                seen.add(item)\n                items.append(item)", ['tools.Unique.__init__'], 'breaks'),
    (TL, _UI_OLD, _UI_LOOP % "            if item not in seen:\n                seen.add(item)\n                items.insert(0, item)", ['tools.Unique.__init__'], 'breaks'),
    (TL, _UI_OLD, _UI_LOOP % "            seen.add(item)\n            if item not in seen:\n                items.append(item)", ['tools.Unique.__init__'], 'breaks'),
    (TL, _UI_OLD, "        self._seen = seen = set()\n        self._items = []\n        items = []\n        for item in iterable:\n            if item not in seen:\n                seen.add(item)\n                items.append(item)", ['tools.Unique.__init__'], 'breaks'),
    (TL, _UR_OLD, _UR_LOOP % ("            if i not in ignore and i not in seen:\n                seen.add(i)\n                result.append(i)", 'seen, result'), ['tools.Unique.rsub'], 'equivalent'),
    (TL, _UR_OLD, _UR_LOOP % ("            if i in ignore:\n                continue\n            if i not in seen:\n                seen.add(i)\n                result.append(i)", 'seen, result'), ['tools.Unique.rsub'], 'equivalent'),
    (TL, _UR_OLD, _UR_LOOP % ("            if i not in seen:\n                seen.add(i)\n                result.append(i)", 'seen, result'), ['tools.Unique.rsub'], 'breaks'),
    (TL, _UR_OLD, _UR_LOOP % ("            if i not in ignore and i not in seen:\n                ignore.add(i)\n                result.append(i)", 'seen, result'), ['tools.Unique.rsub'], 'breaks'),
    (TL, _UR_OLD, _UR_LOOP % ("            if i not in ignore or i not in seen:\n                seen.add(i)\n                result.append(i)", 'seen, result'), ['tools.Unique.rsub'], 'breaks'),
    (TL, _UR_OLD, _UR_LOOP % ("            if i not in ignore and i not in seen:\n                seen.add(i)\n                result.append(i)", 'seen, []'), ['tools.Unique.rsub'], 'breaks'),
    (TL, _UR_OLD, _UR_LOOP % ("            if i not in ignore and i not in seen:\n                seen.add(i)\n                result.append(i)", 'ignore, result'), ['tools.Unique.rsub'], 'breaks'),
    # -- tools.Unique.issuperset: all(map(...)) spelled as a loop with a flag and `break` (break in a contract for-loop; a name assigned
    #    only in front of the break keeps its value at the loop head: engine.names_reaching_head)
    (TL, _SUP_OLD, _sup("            if item not in self._seen:\n                result = False\n                break\n"), ['tools.Unique.issuperset'], 'equivalent'),
    (TL, _SUP_OLD, _sup("            if item in self._seen:\n                continue\n            result = False\n            break\n"), ['tools.Unique.issuperset'], 'equivalent'),
    (TL, _SUP_OLD, _sup("            if item not in self._seen:\n                break\n"), ['tools.Unique.issuperset'], 'breaks'),
    (TL, _SUP_OLD, _sup("            if item in self._seen:\n                result = False\n                break\n"), ['tools.Unique.issuperset'], 'breaks'),
    (TL, _SUP_OLD, _sup("            if item not in self._seen:\n                result = False\n                break\n", init='False'), ['tools.Unique.issuperset'], 'breaks'),
    (TL, _SUP_OLD, _sup("            break\n            if item not in self._seen:\n                result = False\n"), ['tools.Unique.issuperset'], 'breaks'),
    (TL, _SUP_OLD, _sup("            if item not in self._seen:\n                result = False\n            break\n"), ['tools.Unique.issuperset'], 'breaks'),
    (TL, _SUP_OLD, _sup("            if item not in self._seen:\n                result = False\n                break\n", ret='not result'), ['tools.Unique.issuperset'], 'breaks'),
    (TL, _SUP_OLD, _sup("            if item not in self._seen:\n                result = False\n                break\n            result = True\n", init='False'), ['tools.Unique.issuperset'], 'breaks'),
    # -- lindig.lattice: `if k in mapping: use(mapping[k]) else: new` spelled `try: v = mapping[k] except KeyError: new else: use(v)`
    #    (A-EXC: a key that may be absent is an obligation unless the code catches the KeyError -- engine.catches, lib.key_present)
    (LI, _LIN_OLD, _lin(), ['lindig.lattice'], 'equivalent'),
    (LI, _LIN_OLD, _lin(exc='LookupError'), ['lindig.lattice'], 'equivalent'),
    (LI, _LIN_OLD, "            try:\n                mapping[n_extent][3].append(extent)\n            except KeyError:\n" + _LIN_NEW, ['lindig.lattice'], 'equivalent'),
    (LI, _LIN_OLD, _lin(handler="                known = None\n                known[3].append(extent)\n", els=_LIN_NEW), ['lindig.lattice'], 'breaks'),
    (LI, _LIN_OLD, _lin(look='mapping[extent]'), ['lindig.lattice'], 'breaks'),
    (LI, _LIN_OLD, _lin(handler="                mapping[n_extent] = neighbor = (n_extent, n_intent, [], [extent])\n"), ['lindig.lattice'], 'breaks'),
    (LI, _LIN_OLD, _lin(els="                known[2].append(extent)\n"), ['lindig.lattice'], 'breaks'),
    (LI, _LIN_OLD, "            try:\n                known = mapping[n_extent]\n            except KeyError:\n" + _LIN_NEW, ['lindig.lattice'], 'breaks'),
    (LI, _LIN_OLD, _lin(exc='ValueError'), ['lindig.lattice'], 'breaks'),
    # -- Lattice.__init__: `for index, c in enumerate(concepts)` spelled `index = 0; while index < len(concepts): c = concepts[index]; ...;
    #    index += 1` -- the clause of the for-loop runs on the index spelling (engine.exec_index_while, obligations `index-range`)
    (LT, _LIW_OLD, _liw(), ['lattices.__init__'], 'equivalent'),
    (LT, _LIW_OLD, _liw(init="        n_concepts = len(concepts)\n        index = 0\n", test="index < n_concepts", step="            index = index + 1\n"), ['lattices.__init__'], 'equivalent'),
    (LT, _LIW_OLD, _liw(test="len(concepts) > index"), ['lattices.__init__'], 'equivalent'),
    (LT, _LIW_OLD, _liw(init="        index = 1\n"), ['lattices.__init__'], 'breaks'),
    (LT, _LIW_OLD, _liw(test="index < len(concepts) - 1"), ['lattices.__init__'], 'breaks'),
    (LT, _LIW_OLD, _liw(test="index < len(concepts) + 1"), ['lattices.__init__'], 'breaks'),
    (LT, _LIW_OLD, _liw(step="            index += 2\n"), ['lattices.__init__'], 'breaks'),
    (LT, _LIW_OLD, _liw(fetch="            c = concepts[0]\n"), ['lattices.__init__'], 'breaks'),
    (LT, _LIW_OLD, _liw(fetch="            c = concepts[index + 1]\n"), ['lattices.__init__'], 'breaks'),
    (LT, _LIW_OLD, _liw(body=_LIW_BODY.replace("c.index = index", "c.index = index + 1")), ['lattices.__init__'], 'breaks'),
    (LT, _LIW_OLD, _liw(body=_LIW_BODY.replace("key=longlex", "key=shortlex")), ['lattices.__init__'], 'breaks'),
    # -- junctors.Relations.__init__: chain(unary, binary) handed to list.__init__ spelled as two loops of appends; the sort key as a
    #    nested def (the contract states the CONTENT of the list: what __init__ got, then every iterable appended item by item, in order)
    (JU, _REL_OLD, _rel(), ['junctors.Relations.__init__'], 'equivalent'),
    (JU, _REL_OLD, _rel(init="", first="        if include_unary:\n            super().__init__(unary)\n        else:\n            super().__init__()\n"), ['junctors.Relations.__init__'], 'equivalent'),
    (JU, _REL_OLD, _REL_CHAIN + "\n        def by_order(r):\n            return r.order\n\n        self.sort(key=by_order)\n", ['junctors.Relations.__init__'], 'equivalent'),
    (JU, _REL_OLD, _rel(first="        for member in binary:\n            self.append(member)\n", second="        if include_unary:\n            for member in unary:\n                self.append(member)\n"), ['junctors.Relations.__init__'], 'breaks'),
    (JU, _REL_OLD, _rel(first="        for member in unary:\n            self.append(member)\n"), ['junctors.Relations.__init__'], 'breaks'),
    (JU, _REL_OLD, _rel(first="        if not include_unary:\n            for member in unary:\n                self.append(member)\n"), ['junctors.Relations.__init__'], 'breaks'),
    (JU, _REL_OLD, _rel(second="        for member in binary:\n            self.append(member)\n            self.append(member)\n"), ['junctors.Relations.__init__'], 'breaks'),
    (JU, _REL_OLD, _rel(second="        for member in binary:\n            self.append(member)\n            break\n"), ['junctors.Relations.__init__'], 'breaks'),
    (JU, _REL_OLD, _rel(second="", sort="        self.sort(key=lambda r: r.order)\n        for member in binary:\n            self.append(member)\n"), ['junctors.Relations.__init__'], 'breaks'),
    (JU, _REL_OLD, _rel(second="        for member in combos:\n            self.append(member)\n"), ['junctors.Relations.__init__'], 'breaks'),
    (JU, _REL_OLD, _REL_CHAIN + "\n        def by_order(r):\n            return r.index\n\n        self.sort(key=by_order)\n", ['junctors.Relations.__init__'], 'breaks'),
    (JU, _REL_OLD, _REL_CHAIN + "\n        def by_order(r):\n            return -r.order\n\n        self.sort(key=by_order)\n", ['junctors.Relations.__init__'], 'breaks'),
    # -- table.dump_file: the cell text chosen by indexing a pair with a bool; the (object, row) pair unpacked in the loop body
    (FTB, _TDF_OLD, _tdf(), _TDF, 'equivalent'),
    (FTB, _TDF_OLD, _tdf(cell="'X' if b else ''", head="    for row in zip(objects, bools):\n        o, intent = row\n"), _TDF, 'equivalent'),
    (FTB, _TDF_OLD, _tdf(cell="'X' if b else ''", head="    for row in zip(objects, bools):\n", use="row[0]", it="row[1]"), _TDF, 'equivalent'),
    (FTB, _TDF_OLD, _tdf(cell="('X', '')[bool(b)]"), _TDF, 'breaks'),
    (FTB, _TDF_OLD, _tdf(cell="('', 'X')[not b]"), _TDF, 'breaks'),
    (FTB, _TDF_OLD, _tdf(cell="('', 'x')[bool(b)]"), _TDF, 'breaks'),
    (FTB, _TDF_OLD, _tdf(cell="('', 'X')[1]"), _TDF, 'breaks'),
    (FTB, _TDF_OLD, _tdf(cell="'X' if b else ''", head="    for row in zip(objects, bools):\n        intent, o = row\n"), _TDF, 'breaks'),
    (FTB, _TDF_OLD, _tdf(cell="'X' if b else ''", head="    for row in zip(objects, bools):\n", use="row[1]", it="row[1]"), _TDF, 'breaks'),
    # -- table.dump_file: the row lines computed by a module-level generator helper consumed by the `for` loop of the contract (the one-loop
    #    form of call_generator_helper: the generator IS a generator expression); the chars unit reads the cell texts from the helper
    (FTB, _TDG_OLD, _tdg(), _TDF, 'equivalent'),
    (FTB, _TDG_OLD, _tdg(helper=_TDG_HELPER.replace("(o,) + ", "('',) + ")), _TDF, 'breaks'),
    (FTB, _TDG_OLD, _tdg(helper=_TDG_HELPER.replace("'X' if b else ''", "'' if b else 'X'")), _TDF, 'breaks'),
    (FTB, _TDG_OLD, _tdg(helper="    for o, intent in zip(objects, bools):\n        if intent:\n            yield tmpl % ((o,) + tuple('X' if b else '' for b in intent))"), _TDF, 'breaks'),
    (FTB, _TDG_OLD, _tdg(loop="    for line in iter_row_lines(tmpl, objects, bools):\n        write(line)\n        write(line)\n"), _TDF, 'breaks'),
    (FTB, _TDG_OLD, _tdg(loop="    for line in iter_row_lines(tmpl, bools, objects):\n        write(line)\n"), _TDF, 'breaks'),
    (FTB, _TDG_OLD, _tdg(loop="    lines = iter_row_lines(tmpl, objects, bools)\n    for line in lines:\n        write(line)\n"), _TDF, 'breaks'),      # a generator object with a name: not executed in place (an alarm, not a defect)
    # -- table.load_file: header and object lines from a straight-line generator helper collected by tuple() (run to exhaustion at the call)
    (FTB, _TLF_OLD, _tls(), _TLF, 'equivalent'),
    (FTB, _TLF_OLD, _tls(helper="    yield lines[1:]\n    yield lines[0]"), _TLF, 'breaks'),
    (FTB, _TLF_OLD, _tls(helper="    yield lines[0]\n    yield lines[2:]"), _TLF, 'breaks'),
    (FTB, _TLF_OLD, _tls(helper="    yield lines[1]\n    yield lines[1:]"), _TLF, 'breaks'),
    (FTB, _TLF_OLD, _tls(order="object_lines, header"), _TLF, 'breaks'),
    (FTB, _TLF_OLD, _tls(helper="    yield lines[0]\n    yield lines[1:]\n    yield lines"), _TLF, 'breaks'),
    # -- junctors.RelationMeta.__init__: the loop over the literal table as an index loop (no clause: concrete tests, engine.unroll_while)
    (JU, _RMI_OLD, _rmi(), _META, 'equivalent'),
    (JU, _RMI_OLD, _rmi(init="        index = 1\n"), _META, 'breaks'),
    (JU, _RMI_OLD, _rmi(test="index < len(obj_flags) - 1"), _META, 'breaks'),
    (JU, _RMI_OLD, _rmi(fetch="obj_flags[index - 1]"), _META, 'breaks'),
    (JU, _RMI_OLD, _rmi(step="            index += 2\n"), _META, 'breaks'),
    # =====================================================================================================================================
    # robustness round 6 (seeded/REFACTORINGS.md, DESIGN 11.20)
    # -- definitions.remove_empty_*: the loop of `.remove()` calls spelled `self._objects -= empty_objects` (MutableSet.__isub__ on Unique:
    #    unit stdlib.MutableSet.__isub__ verifies the mixin text, contracts/definitions._unique_isub is its contract at the call, the
    #    post needs lemma.discard_fold_present)
    (DF, _REO_OLD, "        self._objects -= empty_objects\n", _REO, 'equivalent'),
    (DF, _REP_OLD, "        self._properties -= empty_properties\n", _REP, 'equivalent'),
    (DF, _REO_OLD, "        for o in empty_objects:\n            self._objects.discard(o)\n", _REO, 'equivalent'),
    (DF, _REO_OLD, "        self._objects |= empty_objects\n", _REO, 'breaks'),
    (DF, _REO_OLD, "        self._properties -= empty_objects\n", _REO, 'breaks'),
    (DF, _REO_OLD, "        self._objects -= nonempty_objects\n", _REO, 'breaks'),
    (DF, _REO_OLD, "        self._objects -= empty_objects[1:]\n", _REO, 'breaks'),
    (DF, _REO_OLD, "        self._objects -= self._objects\n", _REO, 'breaks'),
    (DF, _REO_OLD, "        self._objects &= empty_objects\n", _REO, 'breaks'),
    (DF, _REO_OLD, "        pass\n", _REO, 'breaks'),
    (DF, _REP_OLD, "        self._properties -= self._objects\n", _REP, 'breaks'),
    (DF, _REP_OLD + "        return empty_properties", "        self._properties -= empty_properties\n        return self._properties", _REP, 'breaks'),
    (_CABC, _ISUB_OLD, _ISUB_OLD.replace("self.discard(value)", "self.add(value)"), _ISUB, 'breaks'),
    (_CABC, _ISUB_OLD, _ISUB_OLD.replace("self.discard(value)", "self.remove(value)"), _ISUB, 'breaks'),      # KeyError for an absent item
    (_CABC, _ISUB_OLD, _ISUB_OLD.replace("self.discard(value)", "it.discard(value)"), _ISUB, 'breaks'),
    (_CABC, _ISUB_OLD, _ISUB_OLD.replace("self.discard(value)", "self.discard(value)\n                break"), _ISUB, 'breaks'),
    (_CABC, _ISUB_OLD, _ISUB_OLD.replace("        return self\n", "        return it\n"), _ISUB, 'breaks'),
    (_CABC, _ISUB_OLD, _ISUB_OLD.replace("if it is self:", "if it is not self:"), _ISUB, 'breaks'),
    (_CABC, _ISUB_OLD, "    def __isub__(self, it):\n        for value in it:\n            self.discard(value)\n        return self\n", _ISUB, 'equivalent'),
    # -- formats.csv Csv.loadf: the probe `try: list(map(values.__getitem__, first_symbols)) except KeyError: pass else: break` spelled with
    #    `in` on the symbol table (contracts/formats_csv.Table.contains = the condition under which the lookup does not raise) under all() /
    #    any() (contracts/lib: the quantifier ranges over the positions of the ROW when the items come from a starred unpacking)
    (FCSV, _CSVP_OLD, _csvp("if all(symbol in values for symbol in first_symbols):"), _CSVL, 'equivalent'),
    (FCSV, _CSVP_OLD, _csvp("if not any(symbol not in values for symbol in first_symbols):"), _CSVL, 'equivalent'),
    (FCSV, _CSVP_OLD, _csvp("if all(map(values.__contains__, first_symbols)):"), _CSVL, 'equivalent'),
    (FCSV, _CSVP_OLD, _csvp("if any(symbol in values for symbol in first_symbols):"), _CSVL, 'breaks'),
    (FCSV, _CSVP_OLD, _csvp("if all(symbol not in values for symbol in first_symbols):"), _CSVL, 'breaks'),
    (FCSV, _CSVP_OLD, _csvp("if not all(symbol in values for symbol in first_symbols):"), _CSVL, 'breaks'),
    (FCSV, _CSVP_OLD, _csvp("if all(symbol in values for symbol in first_row):"), _CSVL, 'breaks'),          # the object label is no symbol
    (FCSV, _CSVP_OLD, _csvp("if all(symbol in cls.values[True] for symbol in first_symbols):"), _CSVL, 'breaks'),
    (FCSV, _CSVP_OLD, _csvp("if all(symbol in values for symbol in first_symbols[1:]):"), _CSVL, 'breaks'),
    (FCSV, _CSVP_OLD, _csvp("if all(symbol in values for symbol in properties):"), _CSVL, 'breaks'),
    # -- lattices.Data._fromlist / __init__: the loop that numbers the concepts and sorts their neighbours moved into ONE helper method
    #    `_link_neighbors` (R20-R1): the loop clause #0 of either unit governs the helper's loop (engine.Expansion: ordinals in the text
    #    with the helpers executed in place at their call sites); `inst` is an instance made by object.__new__(cls)
    (LT, _LNK_OLD, _lnk(), _LNK, 'equivalent'),
    (LT, _LNK_OLD, _lnk(call_a="            concepts.sort(key=inst._shortlex)\n            _link_neighbors(inst, concepts, index_map)\n",
                        call_b="        _link_neighbors(self, concepts, mapping)\n", where='module'), _LNK, 'equivalent'),
    (LT, _LNK_OLD, _lnk(helper=_LNK_HELPER.replace("c.index = index", "c.index = index + 1")), _LNK, 'breaks'),
    (LT, _LNK_OLD, _lnk(helper=_LNK_HELPER.replace("sorted(lower, key=longlex)", "sorted(lower, key=shortlex)")), _LNK, 'breaks'),
    (LT, _LNK_OLD, _lnk(helper=_LNK_HELPER.replace("for u in c.upper_neighbors", "for u in c.lower_neighbors")), _LNK, 'breaks'),
    (LT, _LNK_OLD, _lnk(helper=_LNK_HELPER.replace("        shortlex = self._shortlex\n        longlex = self._longlex\n",
                                                  "        longlex = self._shortlex\n        shortlex = self._longlex\n")), _LNK, 'breaks'),
    (LT, _LNK_OLD, _lnk(helper=_LNK_HELPER.replace("tuple(sorted(upper, key=shortlex))", "tuple(upper)")), _LNK, 'breaks'),
    (LT, _LNK_OLD, _lnk(helper=_LNK_HELPER + "\n            break"), _LNK, 'breaks'),
    (LT, _LNK_OLD, _lnk(call_a="            concepts.sort(key=inst._shortlex)\n"), ['lattices._fromlist.raw'], 'breaks'),
    (LT, _LNK_OLD, _lnk(call_a="            inst._link_neighbors(concepts, index_map)\n            concepts.sort(key=inst._shortlex)\n"), ['lattices._fromlist.raw'], 'breaks'),
    (LT, _LNK_OLD, _lnk(call_a="            concepts.sort(key=inst._shortlex)\n            inst._link_neighbors(concepts, dict(enumerate(concepts)))\n"),
     ['lattices._fromlist.raw'], 'breaks'),
    (LT, _LNK_OLD, _lnk(call_a="            concepts.sort(key=inst._longlex)\n            inst._link_neighbors(concepts, index_map)\n"), ['lattices._fromlist.raw'], 'breaks'),
    (LT, _LNK_OLD, _lnk(call_b=""), ['lattices.__init__'], 'breaks'),
    (LT, _LNK_OLD, _lnk(call_b="        self._link_neighbors(concepts, mapping)\n        self._link_neighbors(concepts, mapping)\n"), ['lattices.__init__'], 'breaks'),
    (LT, _LNK_OLD, _lnk(call_b="        self._link_neighbors(mapping, concepts)\n"), ['lattices.__init__'], 'breaks'),
    # -- lattices.Data._annotate: the two label passes as two calls of ONE nested function with getattr / setattr and lambdas (R17-R1):
    #    the clauses #0..#3 are the loops of the first and of the second call
    (LT, _ANN_OLD, _ann(), _ANN, 'equivalent'),
    (LT, _ANN_OLD, _ann(first=_ANN_O.replace("context.objects", "context.properties")), _ANN, 'breaks'),
    (LT, _ANN_OLD, _ann(second=_ANN_P.replace("'properties'", "'objects'")), _ANN, 'breaks'),
    (LT, _ANN_OLD, _ann(second=_ANN_P.replace("context.extension([p], raw=True)", "context.extension(context.intension([p]), raw=True)")), _ANN, 'breaks'),
    (LT, _ANN_OLD, _ann(second=""), _ANN, 'breaks'),
    (LT, _ANN_OLD, _ann(helper=_ANN_HELPER.replace("if getattr(c, attname):", "if not getattr(c, attname):")), _ANN, 'breaks'),
    (LT, _ANN_OLD, _ann(helper=_ANN_HELPER.replace("setattr(c, attname, [label])", "setattr(c, 'objects', [label])")), _ANN, 'breaks'),
    (LT, _ANN_OLD, _ann(helper=_ANN_HELPER.replace("                    touched.add(c)\n", "")), _ANN, 'breaks'),
    (LT, _ANN_OLD, _ann(helper=_ANN_HELPER.replace("setattr(c, attname, tuple(getattr(c, attname)))", "setattr(c, attname, getattr(c, attname))")), _ANN, 'breaks'),
    (LT, _ANN_OLD, _ann(helper=_ANN_HELPER.replace("            for c in touched:\n                setattr(c, attname, tuple(getattr(c, attname)))\n", "")), _ANN, 'breaks'),
    # -- matrices: the two zero-skipping loops of double / doubleprime in ONE sibling closure of _pair_with (R18-R1): the clauses #0, #1 of
    #    either unit govern the loops of the sibling executed in place (its free variables are those of the enclosing scope)
    (M, _DBL_OLD, _dbl(), _DBL, 'equivalent'),
    (M, _DBL_OLD, _dbl(helper=_DBL_HELPER.replace("double &= self[i]", "double &= other[i]")), _DBL, 'breaks'),
    (M, _DBL_OLD, _dbl(helper=_DBL_HELPER.replace("            bitset = prime\n", "")), _DBL, 'breaks'),
    (M, _DBL_OLD, _dbl(helper=_DBL_HELPER.replace("return double, prime", "return prime, double")), _DBL, 'breaks'),
    (M, _DBL_OLD, _dbl(helper=_DBL_HELPER.replace("prime = Prime", "prime = Double")), _DBL, 'breaks'),
    (M, _DBL_OLD, _dbl(double="            return make_double(derive_twice(bitset)[1])\n"), ['matrices.double'], 'breaks'),
    (M, _DBL_OLD, _dbl(double="            return make_prime(derive_twice(bitset)[0])\n"), ['matrices.double'], 'breaks'),
    (M, _DBL_OLD, _dbl(doubleprime="            prime, double = derive_twice(bitset)\n            return make_double(double), make_prime(prime)\n"),
     ['matrices.doubleprime'], 'breaks'),
    (M, _DBL_OLD, _dbl(doubleprime="            double, prime = derive_twice(bitset)\n            return make_prime(prime), make_double(double)\n"),
     ['matrices.doubleprime'], 'breaks'),
    (M, _DBL_OLD, _dbl(doubleprime="            double, prime = derive_twice(bitset >> 1)\n            return make_double(double), make_prime(prime)\n"),
     ['matrices.doubleprime'], 'breaks'),
    # -- the ten hand-made refactorings of round 6 (seeded/refactorings/H20..H29): breaking edits in each NEW spelling
    # H20 lattices._fromlist (ordered): `for index, c in enumerate(concepts)` as `for index in range(len(concepts)): c = concepts[index]`
    (LT, _H20_OLD, _h20(), ['lattices._fromlist.ordered'], 'equivalent'),
    (LT, _H20_OLD, _h20(fetch="concepts[index - 1]"), ['lattices._fromlist.ordered'], 'breaks'),
    (LT, _H20_OLD, _h20(rng="range(len(concepts) - 1)"), ['lattices._fromlist.ordered'], 'breaks'),
    (LT, _H20_OLD, _h20(rng="range(1, len(concepts))"), ['lattices._fromlist.ordered'], 'breaks'),
    (LT, _H20_OLD, _h20(rng="range(len(concepts) + 1)"), ['lattices._fromlist.ordered'], 'breaks'),
    # H21 _common.Concept.extent_index_set / intent_index_set: the conditional expression as an if statement / two returns
    (CM, _H21_OLD, "        if as_set:\n            cls = frozenset\n        else:\n            cls = tuple\n        return cls(self.extent.iter_set())\n",
     ['_common.Concept.extent_index_set'], 'equivalent'),
    (CM, _H21_OLD, "        if as_set:\n            cls = tuple\n        else:\n            cls = frozenset\n        return cls(self.extent.iter_set())\n",
     ['_common.Concept.extent_index_set'], 'breaks'),
    (CM, _H21_OLD, "        if as_set:\n            return frozenset(self.extent.iter_set())\n        return tuple(self.intent.iter_set())\n",
     ['_common.Concept.extent_index_set'], 'breaks'),
    # H22 lattices._init: sorted(concepts, key=longlex) as a copied list sorted in place
    (LT, _H22_OLD, _h22(), ['lattices._init'], 'equivalent'),
    (LT, _H22_OLD, _h22(sort="        by_longlex.sort(key=inst._shortlex)\n"), ['lattices._init'], 'breaks'),
    (LT, _H22_OLD, _h22(sort=""), ['lattices._init'], 'breaks'),
    (LT, _H22_OLD, _h22(sort="        inst._concepts.sort(key=inst._longlex)\n"), ['lattices._init'], 'breaks'),
    (LT, _H22_OLD, _h22(over="inst._concepts"), ['lattices._init'], 'breaks'),
    (LT, _H22_OLD, _h22(copy="        by_longlex = list(inst.atoms)\n"), ['lattices._init'], 'breaks'),
    # H23 definitions.add_object / remove_object: pairs.update(<generator>) / difference_update as |= / -= of a set comprehension
    (DF, _H23A_OLD, "        self._pairs |= {(obj, p) for p in properties}\n", ['definitions.add_object'], 'equivalent'),
    (DF, _H23A_OLD, "        self._pairs |= {(p, obj) for p in properties}\n", ['definitions.add_object'], 'breaks'),
    (DF, _H23A_OLD, "        self._pairs -= {(obj, p) for p in properties}\n", ['definitions.add_object'], 'breaks'),
    (DF, _H23A_OLD, "        self._pairs |= {(obj, p) for p in self._properties}\n", ['definitions.add_object'], 'breaks'),
    (DF, _H23A_OLD, "        self._pairs |= {(obj, p) for p in properties if p != obj}\n", ['definitions.add_object'], 'breaks'),
    (DF, _H23R_OLD, "        self._pairs -= {(obj, p) for p in self._properties}\n", ['definitions.remove_object'], 'equivalent'),
    (DF, _H23R_OLD, "        self._pairs -= {(p, obj) for p in self._properties}\n", ['definitions.remove_object'], 'breaks'),
    (DF, _H23R_OLD, "        self._pairs |= {(obj, p) for p in self._properties}\n", ['definitions.remove_object'], 'breaks'),
    (DF, _H23R_OLD, "        self._pairs -= {(obj, p) for p in self._objects}\n", ['definitions.remove_object'], 'breaks'),
    (DF, _H23R_OLD, "        self._pairs -= self._pairs\n", ['definitions.remove_object'], 'breaks'),
    # H24 lattices.Data.__init__: Concept(self, *args) as explicit unpacking in the comprehension target
    (LT, _H24_OLD, _h24(), ['lattices.__init__'], 'equivalent'),
    (LT, _H24_OLD, _h24(args="self, intent, extent, upper, lower"), ['lattices.__init__'], 'breaks'),
    (LT, _H24_OLD, _h24(args="self, extent, intent, lower, upper"), ['lattices.__init__'], 'breaks'),
    (LT, _H24_OLD, _h24(target="extent, intent, lower, upper"), ['lattices.__init__'], 'breaks'),
    # H25 python_literal.dump_file: `yield from lines` as `for line in lines: yield line` (extract: executed as the delegation it is)
    (FPL, _H25_OLD, "        for line in lines:\n            yield line\n", _DUMPF, 'equivalent'),
    (FPL, _H25_OLD, "        for line in lines:\n            yield line\n            yield line\n", _DUMPF, 'breaks'),
    (FPL, _H25_OLD, "        for line in reversed(lines):\n            yield line\n", _DUMPF, 'breaks'),
    (FPL, _H25_OLD, "        for line in lines:\n            yield key\n", _DUMPF, 'breaks'),
    (FPL, _H25_OLD, "        for line in lines:\n            pass\n", _DUMPF, 'breaks'),
    # H26 table.dump_file: write = functools.partial(print, file=file) as a nested def
    (FTB, _H26_OLD, "    def write(line):\n        print(line, file=file)\n\n    write(tmpl", _TDF, 'equivalent'),
    (FTB, _H26_OLD, "    def write(line):\n        print(line)\n\n    write(tmpl", _TDF, 'breaks'),
    (FTB, _H26_OLD, "    def write(line):\n        print(line, file=file)\n        print(line, file=file)\n\n    write(tmpl", _TDF, 'breaks'),
    (FTB, _H26_OLD, "    def write(line):\n        print(tmpl, file=file)\n\n    write(tmpl", _TDF, 'breaks'),
    # H27 csv Csv.loadf: `for as_int, values in cls.values.items()` as a loop over the keys with a lookup
    (FCSV, _H27_OLD, "            for as_int in cls.values:\n                values = cls.values[as_int]\n", _CSVL, 'equivalent'),
    (FCSV, _H27_OLD, "            for as_int in cls.values:\n                values = cls.values[not as_int]\n", _CSVL, 'breaks'),
    (FCSV, _H27_OLD, "            for as_int in reversed(list(cls.values)):\n                values = cls.values[as_int]\n", _CSVL, 'breaks'),
    (FCSV, _H27_OLD, "            for as_int in cls.values:\n                values = cls.symbols[as_int]\n", _CSVL, 'breaks'),
    # H28 lattices.supremum: the negative index spelled with len()
    (LT, "        return self._concepts[-1]\n", "        return self._concepts[len(self._concepts) - 1]\n", ['lattices.supremum'], 'equivalent'),
    (LT, "        return self._concepts[-1]\n", "        return self._concepts[len(self._concepts) - 2]\n", ['lattices.supremum'], 'breaks'),
    (LT, "        return self._concepts[-1]\n", "        return self._concepts[len(self._concepts)]\n", ['lattices.supremum'], 'breaks'),
    # H29 lattice_members.Pair._eq: getattr with the two literal names as direct attribute pairs (the clause reads the compared lists off
    #     the iterable of the inner loop, not off a local name)
    (LM, _H29_OLD, _h29(), ['members.Pair._eq'], 'equivalent'),
    (LM, _H29_OLD, _h29(second="(self.lower_neighbors, other.lower_neighbors)", swap=True), ['members.Pair._eq'], 'equivalent'),
    (LM, _H29_OLD, _h29(first="(self.upper_neighbors, other.lower_neighbors)"), ['members.Pair._eq'], 'breaks'),
    (LM, _H29_OLD, _h29(second="(self.upper_neighbors, other.upper_neighbors)"), ['members.Pair._eq'], 'breaks'),
    (LM, _H29_OLD, _h29(second="(self.lower_neighbors, self.lower_neighbors)"), ['members.Pair._eq'], 'breaks'),
    (LM, _H29_OLD, _h29(first="(self.upper_neighbors, other.upper_neighbors)", second=None), ['members.Pair._eq'], 'breaks'),
]


# the character level of the table format and of the FIMI rows (contracts/formats_chars_table.py): pure data in its own module, because the
# differential replay bounded/chars_mutants.py (under /venv/bin/python, no z3) reads the same list
from .mutants_chars import MUTANTS as _CHARS_TABLE, CSV_MUTANTS as _CHARS_CSV      # noqa: E402

from .mutants_bin import MUTANTS as _BIN          # noqa: E402   bitsets through the text bin(n) (contracts/bitsets_bin.py); replay: bounded/bin_mutants.py

MUTANTS = MUTANTS + _CHARS_TABLE + _CHARS_CSV + _BIN


def _one(job):
    """worker: one mutant (source override in this process only), its units serially"""
    relpath, new_src, units = job
    lost = 0
    for r in pyrun.run_units(units, overrides={relpath: new_src}, procs=1):
        lost += len([v for v in r['vcs'] if v['status'] != 'discharged']) + len(r['errors'])
    extract.OVERRIDES.clear()
    return lost


def run(only_units=None, verbose=True, procs=None):
    import multiprocessing as mp
    import contracts.registry as registry
    registry.load_all()
    bad = []
    jobs, meta = [], []
    for relpath, old, new, units, expect in MUTANTS:
        units = [u for u in units if u in registry.UNITS]
        # a mutant is judged on ALL the units it is listed for (its edit may sit in only one of them)
        if not units or (only_units is not None and not (set(units) & set(only_units))):
            continue
        with open(extract._abspath(relpath), encoding='utf-8') as f:
            src = f.read()
        if src.count(old) < 1:
            bad.append(('mutant does not apply (source changed)', relpath, old))
            if verbose:
                print('DOES NOT APPLY', relpath, repr(old[:60]))
            continue
        jobs.append((relpath, src.replace(old, new, 1), units))
        meta.append((relpath, old, new, expect))
    procs = procs or min(len(jobs), os.cpu_count() or 4) or 1
    if procs > 1 and len(jobs) > 1:
        with mp.get_context('fork').Pool(procs, maxtasksperchild=1) as pool:      # a fresh process per mutant (see run.run_units)
            losts = pool.map(_one, jobs, chunksize=1)
    else:
        losts = [_one(j) for j in jobs]
    for (relpath, old, new, expect), lost in zip(meta, losts):
        ok = (lost > 0) == (expect == 'breaks')
        if verbose:
            print('%-10s lost=%-3d %s  %s: %r -> %r' % ('ok' if ok else 'WRONG', lost, expect, relpath, old[:40], new[:40]))
        if not ok:
            bad.append((expect, relpath, old, new))
    n_scan = 0
    if only_units is None:
        # the C17 order-site scan has its own in-memory variants (pyvc/setscan.py: quiet / reported against the committed allowlist)
        from . import setscan
        n_scan, wrong = setscan.selftest(extract.REPO, verbose=False)
        for w in wrong:
            if verbose:
                print('WRONG      order-site scan variant:', w)
            bad.append(('order-site scan',) + tuple(w))
        if verbose:
            print('ok         %d order-site scan variants (python3 -m pyvc.setscan --selftest)' % (n_scan - len(wrong)))
    return len(jobs) + n_scan, bad


if __name__ == '__main__':
    sys.path.insert(0, os.path.dirname(os.path.dirname(os.path.abspath(__file__))))
    os.environ.setdefault('PYVC_Z3_TIMEOUT_MS', '4000')
    n, bad = run()
    print(n, 'mutants;', len(bad), 'wrong')
    sys.exit(1 if bad else 0)
