"""Solver portfolio: z3 (mbqi off, explicit triggers), second z3 configuration, then /usr/bin/cvc5 on the
SMT-LIB dump.  An obligation is discharged as soon as one back end answers `unsat` for
axioms /\ hypotheses /\ not goal.  `unknown`/timeout is never turned into a refutation.
"""
import os
import subprocess
import tempfile
import time

import z3

Z3_TIMEOUT_MS = int(os.environ.get('PYVC_Z3_TIMEOUT_MS', '20000'))
CVC5_TIMEOUT_S = int(os.environ.get('PYVC_CVC5_TIMEOUT_S', '30'))
CVC5 = '/usr/bin/cvc5'


def _solver(axioms, hyps, goal, seed=0, mbqi=False):
    s = z3.Solver()
    s.set('auto_config', False)
    s.set('smt.mbqi', mbqi)
    s.set('timeout', Z3_TIMEOUT_MS)
    s.set('random_seed', seed)
    for _, a in axioms:
        s.add(a)
    for h in hyps:
        s.add(h)
    s.add(z3.Not(goal))
    return s


def discharge(vc, axioms, use_cvc5=True):
    t0 = time.time()
    tried = []
    for backend, kw in (('z3', {}), ('z3-seed7', {'seed': 7})):
        s = _solver(axioms, vc.hyps, vc.goal, **kw)
        r = s.check()
        tried.append('%s=%s' % (backend, r))
        if r == z3.unsat:
            vc.status, vc.backend = 'discharged', backend
            break
        if r == z3.sat:
            # with quantified axioms a `sat` is only a candidate; keep it as detail, continue with other back ends
            vc.detail = 'z3 candidate model: %s' % str(s.model())[:600]
    else:
        if use_cvc5 and os.path.exists(CVC5):
            s = _solver(axioms, vc.hyps, vc.goal)
            smt2 = '(set-logic ALL)\n' + s.to_smt2()
            with tempfile.NamedTemporaryFile('w', suffix='.smt2', delete=False) as f:
                f.write(smt2)
                fn = f.name
            try:
                out = subprocess.run([CVC5, '--tlimit=%d' % (CVC5_TIMEOUT_S * 1000), fn], capture_output=True,
                                     text=True, timeout=CVC5_TIMEOUT_S + 10).stdout.strip().splitlines()
                r = out[0] if out else 'error'
            except subprocess.TimeoutExpired:
                r = 'timeout'
            finally:
                os.unlink(fn)
            tried.append('cvc5=%s' % r)
            if r == 'unsat':
                vc.status, vc.backend = 'discharged', 'cvc5'
        if vc.status is None:
            vc.status = 'undecided'
    vc.seconds = round(time.time() - t0, 3)
    vc.detail = (' '.join(tried) + ' ' + vc.detail).strip()
    return vc


def smt2_of(vc, axioms):
    return '(set-logic ALL)\n' + _solver(axioms, vc.hyps, vc.goal).to_smt2()
