"""NAME / SEQ / SET theories for the heap stage (DESIGN 2.3).

NAME  labels: an uninterpreted sort with equality only (the code never looks inside a label outside formats/).
SEQ   python lists of names as an abstract sort with an *algebraic* lemma set (facts of finite lists; the contract of
      the builtin list methods append/remove/index/pop/insert/__setitem__).  Every axiom is a Mathlib `List` fact
      (lemmas/Seq.lean restates them); they are validated against CPython lists by `selftest()`.
SET   python sets of names as z3 arrays Name -> Bool (extensional); sets of pairs as arrays (Name, Name) -> Bool.
"""
from z3 import (And, Array, ArraySort, BoolSort, Const, DeclareSort, ForAll, Function, If, Implies, Int, IntSort, K,
                MultiPattern, Not, Or, Select, Store)

Name = DeclareSort('Name')
Seq = DeclareSort('Seq')
I = IntSort()
B = BoolSort()
NSet = ArraySort(Name, B)
PSet = ArraySort(Name, Name, B)

mem = Function('mem', Seq, Name, B)
nodup = Function('nodup', Seq, B)
app = Function('app', Seq, Name, Seq)
erase = Function('erase', Seq, Name, Seq)          # list.remove(x) (first occurrence)
idx = Function('idx', Seq, Name, I)                # list.index(x)
slen = Function('slen', Seq, I)
at = Function('at', Seq, I, Name)
set_at = Function('set_at', Seq, I, Name, Seq)     # s[i] = x
pop_at = Function('pop_at', Seq, I, Seq)           # s.pop(i)
ins_at = Function('ins_at', Seq, I, Name, Seq)     # s.insert(i, x) (python clamps i)
empty = Const('empty', Seq)
fold_add = Function('fold_add', Seq, Seq, I, Seq)  # fold_add(s, xs, k): add1 of xs[0..k-1] to s, in order
erase_fold = Function('erase_fold', Seq, Seq, I, Seq)   # erase_fold(s, xs, k): xs[0..k-1] removed from s one by one
keep = Function('keep', Seq, NSet, Seq)           # the elements of s that are in T, in the order of s
infirst = Function('infirst', Seq, Name, I, B)     # infirst(xs, y, k): y = xs[t] for some 0 <= t < k
w_infirst = Function('w.infirst', Seq, Name, I, I)
setof = Function('setof', Seq, NSet)               # the set of elements


def add1(s, x):
    """append x unless already present (the plain model's "new names appended in the order given")"""
    return If(mem(s, x), s, app(s, x))


def axioms():
    s, xs = Const('s', Seq), Const('xs', Seq)
    x, y, o, n = Const('x', Name), Const('y', Name), Const('o', Name), Const('n', Name)
    i = Int('i')
    i, k = Int('i'), Int('k')
    ax = []

    def A(name, vs, body, pats):
        ax.append((name, ForAll(vs, body, patterns=pats)))

    A('S1', [s, x, y], mem(app(s, x), y) == Or(mem(s, y), y == x), [mem(app(s, x), y)])
    A('S2', [s, x], nodup(app(s, x)) == And(nodup(s), Not(mem(s, x))), [nodup(app(s, x))])
    A('S3', [s, x, y], Implies(nodup(s), mem(erase(s, x), y) == And(mem(s, y), y != x)), [mem(erase(s, x), y)])
    A('S4', [s, x], Implies(nodup(s), nodup(erase(s, x))), [nodup(erase(s, x))])
    A('S6', [s, x], Implies(mem(s, x), And(0 <= idx(s, x), idx(s, x) < slen(s), at(s, idx(s, x)) == x)), [idx(s, x), mem(s, x)])
    A('S7a', [s, o, n, y], Implies(And(nodup(s), mem(s, o), Not(mem(s, n))),
                                   mem(set_at(s, idx(s, o), n), y) == Or(And(mem(s, y), y != o), y == n)),
      [mem(set_at(s, idx(s, o), n), y)])
    A('S7b', [s, o, n], Implies(And(nodup(s), mem(s, o), Not(mem(s, n))), nodup(set_at(s, idx(s, o), n))),
      [nodup(set_at(s, idx(s, o), n))])
    A('S8', [s, x], Implies(And(nodup(s), mem(s, x)), pop_at(s, idx(s, x)) == erase(s, x)), [pop_at(s, idx(s, x))])
    A('S9a', [s, i, x, y], Implies(Not(mem(s, x)), mem(ins_at(s, i, x), y) == Or(mem(s, y), y == x)),
      [mem(ins_at(s, i, x), y)])
    A('S9b', [s, i, x], Implies(And(nodup(s), Not(mem(s, x))), nodup(ins_at(s, i, x))), [nodup(ins_at(s, i, x))])
    A('S10a', [s], slen(s) >= 0, [slen(s)])
    A('S10b', [s, x], slen(app(s, x)) == slen(s) + 1, [slen(app(s, x))])
    A('S10c', [s, x], Implies(And(nodup(s), mem(s, x)), slen(erase(s, x)) == slen(s) - 1), [slen(erase(s, x))])
    A('S11a', [x], Not(mem(empty, x)), [mem(empty, x)])
    ax.append(('S11b', And(nodup(empty), slen(empty) == 0)))
    A('S12', [s, k], Implies(And(0 <= k, k < slen(s)), mem(s, at(s, k))), [at(s, k)])
    # fold_add: the elements of xs added one by one (definition by recursion on k)
    A('F0', [s, xs], fold_add(s, xs, 0) == s, [fold_add(s, xs, 0)])
    A('F1', [s, xs, k], Implies(k >= 0, fold_add(s, xs, k + 1) == add1(fold_add(s, xs, k), at(xs, k))),
      [fold_add(s, xs, k + 1)])
    # erase_fold (definition by recursion on k)
    A('E0', [s, xs], erase_fold(s, xs, 0) == s, [erase_fold(s, xs, 0)])
    A('E1', [s, xs, k], Implies(k >= 0, erase_fold(s, xs, k + 1) == erase(erase_fold(s, xs, k), at(xs, k))), [erase_fold(s, xs, k + 1)])
    # infirst (definition, skolemised)
    A('IF1', [xs, y, k], Implies(infirst(xs, y, k), And(0 <= w_infirst(xs, y, k), w_infirst(xs, y, k) < k,
                                                        at(xs, w_infirst(xs, y, k)) == y)), [infirst(xs, y, k)])
    A('IF2', [xs, y, k, i], Implies(And(0 <= i, i < k, at(xs, i) == y), infirst(xs, y, k)),
      [MultiPattern(at(xs, i), infirst(xs, y, k))])
    # keep (filter by a set): membership and duplicate-freeness
    T = Const('T', NSet)
    A('K1', [s, T, y], mem(keep(s, T), y) == And(mem(s, y), Select(T, y)), [mem(keep(s, T), y)])
    A('K2', [s, T], Implies(nodup(s), nodup(keep(s, T))), [nodup(keep(s, T))])
    # setof: the set of elements
    A('T1', [s, x], Select(setof(s), x) == mem(s, x), [Select(setof(s), x)])
    return ax


# ---------------------------------------------------------------------------------------------
# validation of the axioms against CPython lists

def selftest(universe=('a', 'b', 'c'), maxlen=3):
    import itertools
    n = 0
    lists = [list(t) for r in range(maxlen + 1) for t in itertools.product(universe, repeat=r)]
    nd = lambda l: len(set(l)) == len(l)
    for s in lists:
        for x in universe:
            a = s + [x]
            assert nd(a) == (nd(s) and x not in s)
            for y in universe:
                assert (y in a) == (y in s or y == x)
            if x in s:
                e = list(s)
                e.remove(x)
                if nd(s):
                    assert nd(e) and len(e) == len(s) - 1
                    for y in universe:
                        assert (y in e) == (y in s and y != x)
                    p = list(s)
                    p.pop(s.index(x))
                    assert p == e
                assert 0 <= s.index(x) < len(s) and s[s.index(x)] == x
                for nn in universe:
                    if nd(s) and nn not in s:
                        r = list(s)
                        r[s.index(x)] = nn
                        assert nd(r)
                        for y in universe:
                            assert (y in r) == ((y in s and y != x) or y == nn)
            else:
                for i in range(-maxlen - 2, maxlen + 3):
                    r = list(s)
                    r.insert(i, x)
                    assert nd(r) == nd(s)
                    for y in universe:
                        assert (y in r) == (y in s or y == x)
            n += 1
        for xs in lists:
            cur = list(s)
            for k, v in enumerate(xs):
                if v not in cur:
                    cur.append(v)
            # fold_add(s, xs, len(xs)) computed by the recursion == appending unseen names in the order given
            f = list(s)
            for k in range(len(xs)):
                f = f if xs[k] in f else f + [xs[k]]
            assert f == cur
            # fold_dedup: adding the de-duplicated xs == adding xs
            u = []
            for v in xs:
                if v not in u:
                    u.append(v)
            g = list(s)
            for v in u:
                if v not in g:
                    g.append(v)
            assert g == cur
            assert (len(u) == len(xs)) == nd(xs) and (not nd(xs) or u == xs)
            # discard_fold_present: discarding the items of a duplicate-free xs that are all in the duplicate-free s = removing them
            if nd(s) and nd(xs) and all(v in s for v in xs):
                dsc, rem = list(s), list(s)
                for k, v in enumerate(xs):
                    if v in dsc:
                        dsc.remove(v)
                    rem.remove(v)           # never raises: v is still present
                    assert dsc == rem and nd(rem) and all((y in rem) == (y in s and y not in xs[:k + 1]) for y in universe)
            n += 1
        # fold_self / keep_self: adding s to itself and keeping the elements of s that are in s give s
        g = list(s)
        for v in s:
            if v not in g:
                g.append(v)
        assert g == list(s) and [v for v in s if v in set(s)] == list(s)
        if nd(s):
            for r in range(len(universe) + 1):
                for Tset in itertools.combinations(universe, r):
                    drop = [v for v in s if v not in Tset]
                    cur = list(s)
                    for v in drop:
                        cur.remove(v)
                    assert cur == [v for v in s if v in Tset]
                    n += 1
    return n


def st_fold_facts(s, xs, k):
    """lemma.fold_add (proved by induction on k in unit lemma.fold_add): for k >= 0 and duplicate-free s,
    fold_add(s, xs, k) is duplicate-free and contains exactly the elements of s and the first k elements of xs."""
    y = Const('y', Name)
    f = fold_add(s, xs, k)
    return Implies(And(k >= 0, nodup(s)),
                   And(nodup(f), ForAll([y], mem(f, y) == Or(mem(s, y), infirst(xs, y, k)), patterns=[mem(f, y)])))


def st_mem_infirst(xs):
    """mem(xs, y) <-> y is among the first len(xs) elements"""
    y = Const('y', Name)
    return ForAll([y], mem(xs, y) == infirst(xs, y, slen(xs)), patterns=[mem(xs, y), infirst(xs, y, slen(xs))])


def st_fold_dedup(s, xs):
    """lemma.fold_dedup (proved in Lean: lemmas/Seq.lean `lemma_fold_dedup`; also validated against CPython lists by selftest): adding the de-duplicated sequence
    (what tools.Unique(xs) holds) to s equals adding xs to s -- both append the unseen names in the order given."""
    u = fold_add(empty, xs, slen(xs))
    return fold_add(s, u, slen(u)) == fold_add(s, xs, slen(xs))


def st_fold_self(s):
    """lemma.fold_self / lemma.keep_self (proved in Lean: lemmas/Seq.lean `lemma_fold_self`, `lemma_keep_self`): adding a sequence to itself and keeping
    the elements of a sequence that are in it both give the sequence"""
    return And(fold_add(s, s, slen(s)) == s, keep(s, setof(s)) == s)


def complement(T):
    from z3 import Lambda
    y = Const('y', Name)
    return Lambda([y], Not(Select(T, y)))


def st_erase_fold_keep(s, T, Tc):
    """lemma.erase_fold_keep (proved in Lean: lemmas/Seq.lean `lemma_erase_fold_keep`; also validated against CPython lists by selftest): removing from a duplicate-free s, one by one,
    its elements that are not in T leaves exactly the elements in T, in their order:  erase_fold(s, keep(s, not T), len) = keep(s, T).
    Tc must be the complement of T."""
    y = Const('y', Name)
    e = keep(s, Tc)
    return Implies(And(nodup(s), ForAll([y], Select(Tc, y) == Not(Select(T, y)))), erase_fold(s, e, slen(e)) == keep(s, T))


def discard1(s, x):
    """set.discard on the item sequence of a Unique: x removed if present (contract of Unique.discard, unit tools.Unique.discard)"""
    return If(mem(s, x), erase(s, x), s)


def discard_fold(s, xs, k):
    """discard_fold(s, xs, k): xs[0..k-1] discarded from s one by one (what MutableSet.__isub__ does, unit stdlib.MutableSet.__isub__).
    The function symbol is made on demand, never at import time (it exists only in the units that use it, with `discard_axioms`)."""
    return Function('discard_fold', Seq, Seq, I, Seq)(s, xs, k)


def discard_axioms():
    """definition of discard_fold by recursion on k (the counterpart of E0 / E1 for erase_fold)"""
    s, xs = Const('s', Seq), Const('xs', Seq)
    k = Int('k')
    return [('DF0', ForAll([s, xs], discard_fold(s, xs, 0) == s, patterns=[discard_fold(s, xs, 0)])),
            ('DF1', ForAll([s, xs, k], Implies(k >= 0, discard_fold(s, xs, k + 1) == discard1(discard_fold(s, xs, k), at(xs, k))),
                           patterns=[discard_fold(s, xs, k + 1)]))]


def st_discard_fold_present(s, xs, k):
    """lemma.discard_fold_present (proved by induction on k in unit lemma.discard_fold_present): discarding, one by one, the first k
    items of a duplicate-free xs all of whose items are in the duplicate-free s is removing them one by one (every item is still
    present when its turn comes): discard_fold = erase_fold, the result is duplicate-free and holds exactly the other items of s."""
    y = Const('y', Name)
    t = Int('t')
    e = erase_fold(s, xs, k)
    return Implies(And(0 <= k, k <= slen(xs), nodup(s), nodup(xs),
                       ForAll([t], Implies(And(0 <= t, t < slen(xs)), mem(s, at(xs, t))), patterns=[at(xs, t)])),
                   And(discard_fold(s, xs, k) == e, nodup(e),
                       ForAll([y], mem(e, y) == And(mem(s, y), Not(infirst(xs, y, k))), patterns=[mem(e, y)])))


def st_fold_len(xs):
    """lemma.fold_len (proved in Lean: lemmas/Seq.lean `lemma_fold_len`; also validated by selftest): de-duplicating keeps the length iff there were no repeats, and then it is the identity."""
    u = fold_add(empty, xs, slen(xs))
    return And((slen(u) == slen(xs)) == nodup(xs), Implies(nodup(xs), u == xs))
