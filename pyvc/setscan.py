"""C17: syntactic order-independence scan (DESIGN section C17).

Every source of nondeterminism the language has here is the iteration order / text form of set-typed values (string
hashing, id-based hashing).  This scan over-approximates, per function of /repo/concepts, the expressions that are
set-typed and reports every *use that can expose their order*:
  iterate      for x in S / a comprehension generator over S whose result is order-sensitive / iter(S), next(iter(S))
  convert      list(S), tuple(S), sorted(S) (ties keep input order), enumerate(S), zip(S), reversed, S.pop()
  render       f-string / format / repr / str / join / %-formatting of S
  merge        U |= S, U.update(S), U.extend(S)  where the receiver keeps insertion order (lists, dicts, tools.Unique)
  escape       S passed to a function that is not known to be order-insensitive, returned, yielded or stored in an attribute
Order-insensitive consumers (never reported): len, set, frozenset, any, all, sum, min, max, in / not in, ==, !=, <=, issubset,
issuperset, isdisjoint, set operators, set/frozenset methods add/discard/remove/update/difference_update/..., bool tests,
set- and dict-key comprehensions whose result is itself a set, use as a dict key.

A value is set-typed if it is a set display / set comprehension / set(...) / frozenset(...) call, the result of a set
operator or copy() on a set-typed value, one of the attributes known to hold sets (`_seen`, `_pairs`), or a local name
assigned from such an expression.  The result is a list of sites; each site must be on the committed allowlist
(checks/order_sites.json) with the obligation or argument that discharges it -- a site that is not on the list is an
ungenerated `order-indep` obligation.
"""
import ast
import hashlib
import os

SET_ATTRS = {'_seen', '_pairs'}
SET_CALLS = {'set', 'frozenset'}
INSENSITIVE_CALLS = {'len', 'set', 'frozenset', 'any', 'all', 'sum', 'min', 'max', 'bool', 'isinstance', 'id', 'hash'}
INSENSITIVE_METHODS = {'add', 'discard', 'remove', 'update', 'difference_update', 'intersection_update', 'symmetric_difference_update',
                       'issubset', 'issuperset', 'isdisjoint', 'copy', 'union', 'intersection', 'difference',
                       'symmetric_difference', '__contains__', 'clear'}
SETLIKE_RESULT_METHODS = {'copy', 'union', 'intersection', 'difference', 'symmetric_difference'}
ORDERED_CONVERSIONS = {'list', 'tuple', 'sorted', 'enumerate', 'zip', 'reversed', 'iter', 'next', 'map', 'filter', 'chain', 'permutations',
                       'combinations', 'groupby', 'starmap', 'dict'}
RENDER_CALLS = {'str', 'repr', 'format', 'print'}


class Site:
    def __init__(self, relpath, func, kind, node, src, setnames=(), localnames=()):
        self.relpath, self.func, self.kind = relpath, func, kind
        self.text = ' '.join((ast.get_source_segment(src, node) or ast.dump(node)).split())[:160]
        # normal form: the same expression with every local name replaced by its ROLE and its order of first occurrence -- `S0, S1..`
        # for set-typed locals, `v0, v1..` for the other locals and parameters (an alpha-renaming that keeps the kind of each name);
        # callees, attributes, globals and literals stay.  Two sites with the same normal form are the same syntactic situation
        # (which set-typed value reaches which position of which consumer), whatever the locals are called.
        import copy
        n2 = copy.deepcopy(node)
        ren = {}
        names = sorted((x for x in ast.walk(n2) if isinstance(x, ast.Name)), key=lambda x: (x.lineno, x.col_offset))
        for x in names:
            if x.id in setnames or x.id in localnames:
                kind_ = 'S' if x.id in setnames else 'v'
                if x.id not in ren:
                    ren[x.id] = '%s%d' % (kind_, sum(1 for r in ren.values() if r[0] == kind_))
        for x in names:
            x.id = ren.get(x.id, x.id)
        try:
            self.norm = ' '.join(ast.unparse(n2).split())[:160]
        except Exception:
            self.norm = self.text
        v = getattr(node, 'value', None)
        if kind == 'escape' and isinstance(node, ast.Return) and isinstance(v, ast.Call) and isinstance(v.func, ast.Name) and not v.keywords:
            # `return frozenset(X)` / `return set(X)` / `return cls(X)` with cls a local alias of a set constructor: one key for all
            # spellings -- what escapes is "a new set of the items of X"
            args = ', '.join(' '.join((ast.get_source_segment(src, a) or ast.dump(a)).split()) for a in v.args)
            self.text = self.norm = ('return <new set of> ' + args)[:160]

    def key(self):
        return '%s:%s:%s:%s' % (self.relpath, self.func, self.kind, self.text)

    def norm_key(self):
        return '%s:%s:%s:%s' % (self.relpath, self.func, self.kind, self.norm)

    def __repr__(self):
        return self.key()


class FuncScan(ast.NodeVisitor):
    def __init__(self, relpath, qual, fn, src, sites):
        self.relpath, self.qual, self.src, self.sites = relpath, qual, src, sites
        self.setnames = set()
        # local aliases of the set constructors: `cls = frozenset if as_set else tuple` -> cls(...) may build a set
        self.ctor_aliases = set()
        for node in ast.walk(fn):
            if isinstance(node, ast.Assign) and len(node.targets) == 1 and isinstance(node.targets[0], ast.Name):
                cands = [node.value.body, node.value.orelse] if isinstance(node.value, ast.IfExp) else [node.value]
                if any(isinstance(c, ast.Name) and c.id in SET_CALLS for c in cands):
                    self.ctor_aliases.add(node.targets[0].id)
        # two passes so that names assigned later in loops are known
        for _ in range(2):
            for node in ast.walk(fn):
                if isinstance(node, ast.Assign) and self.is_set(node.value):
                    for t in node.targets:
                        if isinstance(t, ast.Name):
                            self.setnames.add(t.id)
                if isinstance(node, ast.AugAssign) and isinstance(node.target, ast.Name) and self.is_set(node.value) \
                        and isinstance(node.op, (ast.BitOr, ast.BitAnd, ast.Sub, ast.BitXor)) and node.target.id in self.setnames:
                    pass
        self.fn = fn

    def is_set(self, e):
        if isinstance(e, (ast.Set, ast.SetComp)):
            return True
        if isinstance(e, ast.Call):
            if isinstance(e.func, ast.Name) and (e.func.id in SET_CALLS or e.func.id in self.ctor_aliases):
                return True
            if isinstance(e.func, ast.Attribute) and e.func.attr in SETLIKE_RESULT_METHODS and self.is_set(e.func.value):
                return True
        if isinstance(e, ast.Name) and e.id in self.setnames:
            return True
        if isinstance(e, ast.Attribute) and e.attr in SET_ATTRS:
            return True
        if isinstance(e, ast.BinOp) and isinstance(e.op, (ast.BitOr, ast.BitAnd, ast.Sub, ast.BitXor)) \
                and (self.is_set(e.left) or self.is_set(e.right)):
            # a set operator: set-typed if either side is a builtin set (for tools.Unique the mixin result is a Unique -- ordered)
            return self.is_set(e.left) and self.is_set(e.right) or (self.is_set(e.left) and not isinstance(e.right, ast.Attribute))
        if isinstance(e, ast.IfExp):
            return self.is_set(e.body) or self.is_set(e.orelse)
        return False

    def report(self, kind, node):
        fn = self.fn
        local = set()
        if isinstance(fn, (ast.FunctionDef, ast.AsyncFunctionDef)):
            a = fn.args
            local |= {x.arg for x in a.posonlyargs + a.args + a.kwonlyargs} | {x.arg for x in (a.vararg, a.kwarg) if x is not None}
        for n in ast.walk(fn):
            if isinstance(n, ast.Name) and isinstance(n.ctx, (ast.Store, ast.Del)):
                local.add(n.id)
        self.sites.append(Site(self.relpath, self.qual, kind, node, self.src, setnames=self.setnames, localnames=local))

    def scan(self):
        fn = self.fn
        parents = {}
        for p in ast.walk(fn):
            for c in ast.iter_child_nodes(p):
                parents[id(c)] = p
        nested = set()
        for node in ast.walk(fn):
            if isinstance(node, (ast.FunctionDef, ast.AsyncFunctionDef)) and node is not fn:
                for d in ast.walk(node):
                    nested.add(id(d))
        for node in ast.walk(fn):
            if id(node) in nested:
                continue
            if isinstance(node, ast.For) and self.is_set(node.iter):
                self.report('iterate', node.iter)
            if isinstance(node, (ast.ListComp, ast.GeneratorExp, ast.DictComp, ast.SetComp)):
                for g in node.generators:
                    if self.is_set(g.iter):
                        par = parents.get(id(node))
                        insensitive = isinstance(node, ast.SetComp) or (
                            isinstance(par, ast.Call) and isinstance(par.func, ast.Name) and par.func.id in INSENSITIVE_CALLS) or (
                            isinstance(par, ast.Call) and isinstance(par.func, ast.Attribute) and par.func.attr in INSENSITIVE_METHODS)
                        if not insensitive:
                            self.report('iterate', g.iter)
            if isinstance(node, ast.Call):
                fname = node.func.id if isinstance(node.func, ast.Name) else (node.func.attr if isinstance(node.func, ast.Attribute) else None)
                args = list(node.args) + [k.value for k in node.keywords]
                for a in args:
                    if isinstance(a, ast.Starred):
                        a = a.value
                    if not self.is_set(a):
                        continue
                    if isinstance(node.func, ast.Name) and fname in INSENSITIVE_CALLS:
                        continue
                    if isinstance(node.func, ast.Attribute) and fname in INSENSITIVE_METHODS and self.is_set(node.func.value):
                        continue
                    if fname in ORDERED_CONVERSIONS:
                        self.report('convert', node)
                    elif fname in RENDER_CALLS or fname == 'join':
                        self.report('render', node)
                    elif isinstance(node.func, ast.Attribute) and fname in ('update', 'extend', '__ior__') and not self.is_set(node.func.value):
                        self.report('merge', node)
                    elif isinstance(node.func, ast.Attribute) and fname in INSENSITIVE_METHODS:
                        continue
                    else:
                        self.report('escape', node)
                if isinstance(node.func, ast.Attribute) and node.func.attr == 'pop' and self.is_set(node.func.value):
                    self.report('convert', node)
            if isinstance(node, ast.FormattedValue) and self.is_set(node.value):
                self.report('render', node)
            if isinstance(node, ast.BinOp) and isinstance(node.op, ast.Mod) and (self.is_set(node.right) or (
                    isinstance(node.right, ast.Tuple) and any(self.is_set(x) for x in node.right.elts))):
                self.report('render', node)
            if isinstance(node, ast.AugAssign) and isinstance(node.op, ast.BitOr) and self.is_set(node.value) and not self.is_set(node.target):
                self.report('merge', node)
            if isinstance(node, (ast.Return, ast.Yield)) and node.value is not None and self.is_set(node.value):
                self.report('escape', node)
            if isinstance(node, ast.Assign) and self.is_set(node.value):
                for t in node.targets:
                    if isinstance(t, ast.Attribute) and t.attr not in SET_ATTRS:
                        self.report('escape', node)
            if isinstance(node, ast.Starred) and self.is_set(node.value):
                self.report('convert', node)


NONDET_CALLS = {'id', 'hash', 'object.__repr__', 'getpid', 'urandom', 'time', 'monotonic', 'perf_counter', 'now', 'today', 'uuid4', 'uuid1', 'random',
                'randint', 'choice', 'shuffle', 'sample', 'mkstemp', 'mkdtemp', 'gettempdir', 'getenv', 'getcwd', 'listdir', 'scandir', 'iglob', 'glob'}
NONDET_MODULES = {'random', 'time', 'uuid', 'secrets', 'datetime', 'tempfile'}


def scan_sources(rel, tree, src, sites):
    """Other sources of run-to-run variation than set order: object addresses and hashes, clocks, randomness, the environment.
    Every use is a site that must be on the allowlist with its justification (e.g. the address inside a repr is excepted by C17)."""
    for node in ast.walk(tree):
        if isinstance(node, (ast.Import, ast.ImportFrom)):
            names = [a.name.split('.')[0] for a in node.names] if isinstance(node, ast.Import) else [(node.module or '').split('.')[0]]
            for nm in names:
                if nm in NONDET_MODULES:
                    sites.append(Site(rel, '<module>', 'nondet-import', node, src))
        if isinstance(node, ast.Call):
            f = node.func
            nm = f.id if isinstance(f, ast.Name) else (f.attr if isinstance(f, ast.Attribute) else None)
            if nm in NONDET_CALLS and not (isinstance(f, ast.Attribute) and nm in ('time', 'random', 'choice', 'sample', 'now', 'today', 'glob')
                                           and not isinstance(f.value, ast.Name)):
                sites.append(Site(rel, '<call>', 'nondet-source', node, src))
        if isinstance(node, ast.Attribute) and node.attr == 'environ':
            sites.append(Site(rel, '<attr>', 'nondet-source', node, src))


def scan_repo(repo):
    sites = []
    files = []
    root = os.path.join(repo, 'concepts')
    for dp, dn, fns in os.walk(root):
        for f in sorted(fns):
            if f.endswith('.py'):
                files.append(os.path.join(dp, f))
    for path in sorted(files):
        rel = os.path.relpath(path, repo)
        with open(path, encoding='utf-8') as fh:
            src = fh.read()
        tree = ast.parse(src)

        def walk(node, prefix):
            for child in ast.iter_child_nodes(node):
                if isinstance(child, (ast.FunctionDef, ast.AsyncFunctionDef)):
                    q = prefix + child.name
                    FuncScan(rel, q, child, src, sites).scan()
                    walk(child, q + '.<locals>.')
                elif isinstance(child, ast.ClassDef):
                    walk(child, prefix + child.name + '.')
                elif isinstance(child, (ast.If, ast.Try, ast.With, ast.For, ast.While)):
                    walk(child, prefix)
        walk(tree, '')
        # module level statements as pseudo function
        mod = ast.Module(body=[s for s in tree.body if not isinstance(s, (ast.FunctionDef, ast.ClassDef))], type_ignores=[])
        FuncScan(rel, '<module>', mod, src, sites).scan()
        scan_sources(rel, tree, src, sites)
    return sites, len(files)


if __name__ == '__main__':
    import sys
    if len(sys.argv) > 1 and sys.argv[1] == '--write-norms':
        # maintainer only, on the UNCHANGED tree: record the normal form of every allowlisted site next to its text
        import json
        p = os.path.join(os.path.dirname(os.path.dirname(os.path.abspath(__file__))), 'checks', 'order_sites.json')
        with open(p) as fh:
            doc = json.load(fh)
        sites, n = scan_repo(sys.argv[2] if len(sys.argv) > 2 else '/repo')
        norms = {}
        for s in sites:
            norms.setdefault(s.key(), s.norm_key())
        for entry in doc['sites']:
            if entry['site'] in norms:
                entry['norm'] = norms[entry['site']]
        with open(p, 'w') as fh:
            json.dump(doc, fh, indent=1)
            fh.write('\n')
        print(sum(1 for e in doc['sites'] if 'norm' in e), 'of', len(doc['sites']), 'allowlisted sites have a normal form')
        sys.exit(0)
    sites, n = scan_repo(sys.argv[1] if len(sys.argv) > 1 else '/repo')
    for s in sites:
        print(s.key(), '  ~  ', s.norm)
    print(len(sites), 'sites in', n, 'files')
