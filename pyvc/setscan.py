"""C17: syntactic order-independence scan (DESIGN section C17).

Every source of nondeterminism the language has here is the iteration order / text form of set-typed values (string
hashing, id-based hashing).  This scan over-approximates, per function of /repo/concepts, the expressions that are
set-typed and reports every *use that can expose their order*:
  iterate      for x in S / a comprehension generator over S whose result is order-sensitive / iter(S), next(iter(S))
  convert      list(S), tuple(S), sorted(S) (ties keep input order), enumerate(S), zip(S), reversed, S.pop()
  render       f-string / format / repr / str / join / %-formatting of S
  merge        U |= S, U.update(S), U.extend(S)  where the receiver keeps insertion order (lists, dicts, tools.Unique)
  escape       S passed to a function that is not known to be order-insensitive, returned, yielded or stored in an attribute
Order-insensitive consumers (never reported): len, set, frozenset, any, all, sum, min, max, in / not in, ==, !=, <=, issubset,
issuperset, isdisjoint, set operators, set/frozenset methods add/discard/remove/update/difference_update/..., bool tests,
set- and dict-key comprehensions whose result is itself a set, use as a dict key.

A value is set-typed if it is a set display / set comprehension / set(...) / frozenset(...) call, the result of a set
operator or copy() on a set-typed value, one of the attributes known to hold sets (`_seen`, `_pairs`), or a local name
assigned from such an expression.  The result is a list of sites; each site must be on the committed allowlist
(checks/order_sites.json) with the obligation or argument that discharges it -- a site that is not on the list is an
ungenerated `order-indep` obligation.
"""
import ast
import hashlib
import os

SET_ATTRS = {'_seen', '_pairs'}
SET_CALLS = {'set', 'frozenset'}
INSENSITIVE_CALLS = {'len', 'set', 'frozenset', 'any', 'all', 'sum', 'min', 'max', 'bool', 'isinstance', 'id', 'hash'}
INSENSITIVE_METHODS = {'add', 'discard', 'remove', 'update', 'difference_update', 'intersection_update', 'symmetric_difference_update',
                       'issubset', 'issuperset', 'isdisjoint', 'copy', 'union', 'intersection', 'difference',
                       'symmetric_difference', '__contains__', 'clear'}
SETLIKE_RESULT_METHODS = {'copy', 'union', 'intersection', 'difference', 'symmetric_difference'}
ORDERED_CONVERSIONS = {'list', 'tuple', 'sorted', 'enumerate', 'zip', 'reversed', 'iter', 'next', 'map', 'filter', 'chain', 'permutations',
                       'combinations', 'groupby', 'starmap', 'dict'}
RENDER_CALLS = {'str', 'repr', 'format', 'print'}


def _alpha(node, setnames, localnames):
    """the expression with every local name replaced by its ROLE and its order of first occurrence -- `S0, S1..` for set-typed locals,
    `v0, v1..` for the other locals and parameters (an alpha-renaming that keeps the kind of each name)"""
    import copy
    n2 = copy.deepcopy(node)
    ren = {}
    names = [x for x in _preorder(n2) if isinstance(x, ast.Name)]
    for x in names:
        if x.id in setnames or x.id in localnames:
            kind_ = 'S' if x.id in setnames else 'v'
            if x.id not in ren:
                ren[x.id] = '%s%d' % (kind_, sum(1 for r in ren.values() if r[0] == kind_))
    for x in names:
        x.id = ren.get(x.id, x.id)
    return n2


def _preorder(node):
    yield node
    for c in ast.iter_child_nodes(node):
        yield from _preorder(c)


def single_assignments(fn):
    """{name: expression} for the locals of `fn` that are bound exactly once, by a plain `name = expression` statement (not a parameter,
    not a loop / with / comprehension / walrus target, no augmented assignment, not declared global / nonlocal): naming a
    sub-expression -- and that are used as plain values only: a name whose attributes are read or called (`seen.add(x)`,
    `add = seen.add`) or that is subscripted may be an object that is modified between its creation and the use, and then the use
    is not the defining expression (`seen = set(); ...; f(seen)` is not `f(set())`).  (Counted over the whole function text,
    nested functions included: conservative.)"""
    params = set()
    if isinstance(fn, (ast.FunctionDef, ast.AsyncFunctionDef)):
        a = fn.args
        params = {x.arg for x in a.posonlyargs + a.args + a.kwonlyargs} | {x.arg for x in (a.vararg, a.kwarg) if x is not None}
    stores, cand, banned = {}, {}, set(params)
    for n in ast.walk(fn):
        if isinstance(n, ast.Name) and isinstance(n.ctx, (ast.Store, ast.Del)):
            stores[n.id] = stores.get(n.id, 0) + 1
        elif isinstance(n, (ast.Global, ast.Nonlocal)):
            banned.update(n.names)
        elif isinstance(n, (ast.FunctionDef, ast.AsyncFunctionDef, ast.ClassDef)) and n is not fn:
            banned.add(n.name)
        elif isinstance(n, ast.arg) and n.arg not in params:
            banned.add(n.arg)          # a parameter of a nested function / lambda
        if isinstance(n, (ast.Attribute, ast.Subscript, ast.Starred)) and isinstance(n.value, ast.Name):
            banned.add(n.value.id)
        if isinstance(n, ast.Assign) and len(n.targets) == 1 and isinstance(n.targets[0], ast.Name):
            cand[n.targets[0].id] = n.value
    return {k: v for k, v in cand.items() if stores.get(k) == 1 and k not in banned}


class _Subst(ast.NodeTransformer):
    """replace the loads of single-assignment locals by their defining expression, and the calls of inlinable private helpers by the
    helper's result expression (parameters replaced by the arguments)"""

    def __init__(self, defs, helpers, depth=0, seen=()):
        self.defs, self.helpers, self.depth, self.seen = defs, helpers or {}, depth, seen

    def visit_Name(self, node):
        import copy
        if isinstance(node.ctx, ast.Load) and node.id in self.defs and node.id not in self.seen and self.depth < 8:
            e = copy.deepcopy(self.defs[node.id])
            return _Subst(self.defs, self.helpers, self.depth + 1, self.seen + (node.id,)).visit(e)
        return node

    def visit_Call(self, node):
        import copy
        self.generic_visit(node)
        h = self.helpers.get(node.func.id) if isinstance(node.func, ast.Name) else None
        if h is None or self.depth >= 8:
            return node
        binding = h.bind(node)
        if binding is None:
            return node
        body = copy.deepcopy(h.result)
        return _Subst(binding, {}, self.depth + 1).visit(body)


class Helper:
    """A private module-level function `def _h(p1, .., *, k1=d1): [name = e;]* return E` that is only ever CALLED, by functions of its own
    module (scan_repo checks the whole package: no other reference to the name): wherever its result goes, it goes through one of
    those callers.  For the scan the call `_h(a1, ..)` IS the expression E with the parameters replaced by the arguments: it is
    set-typed iff E is, and a set built in `_h` leaves through the caller -- the site is the caller's, not the helper's."""

    def __init__(self, fn):
        import copy
        self.fn = fn
        self.ok = False
        self.returns_set = False
        a = fn.args
        if fn.decorator_list or a.vararg or a.kwarg or a.posonlyargs or not fn.name.startswith('_') or fn.name.startswith('__'):
            return
        body = list(fn.body)
        if body and isinstance(body[0], ast.Expr) and isinstance(body[0].value, ast.Constant) and isinstance(body[0].value.value, str):
            body = body[1:]
        if not body or not isinstance(body[-1], ast.Return) or body[-1].value is None:
            return
        defs = single_assignments(fn)
        for st in body[:-1]:
            if not (isinstance(st, ast.Assign) and len(st.targets) == 1 and isinstance(st.targets[0], ast.Name) and st.targets[0].id in defs):
                return
        for n in ast.walk(fn):
            if isinstance(n, (ast.Yield, ast.YieldFrom, ast.Await, ast.Lambda, ast.NamedExpr)) or (isinstance(n, ast.Return) and n is not body[-1]):
                return
        self.params = [x.arg for x in a.args]
        self.kwonly = [x.arg for x in a.kwonlyargs]
        self.defaults = dict(zip(self.params[len(self.params) - len(a.defaults):], a.defaults))
        self.defaults.update({x.arg: d for x, d in zip(a.kwonlyargs, a.kw_defaults) if d is not None})
        self.result = _Subst(defs, {}).visit(copy.deepcopy(body[-1].value))
        self.ok = True

    def bind(self, call):
        if any(isinstance(x, ast.Starred) for x in call.args) or any(k.arg is None for k in call.keywords) or len(call.args) > len(self.params):
            return None
        b = dict(zip(self.params, call.args))
        for k in call.keywords:
            if k.arg in b or k.arg not in self.params + self.kwonly:
                return None
            b[k.arg] = k.value
        for nm in self.params + self.kwonly:
            if nm not in b:
                if nm not in self.defaults:
                    return None
                b[nm] = self.defaults[nm]
        return b


def _is_set_ctor(f):
    return (isinstance(f, ast.Name) and f.id in SET_CALLS) or (isinstance(f, ast.IfExp) and (_is_set_ctor(f.body) or _is_set_ctor(f.orelse)))


class Site:
    def __init__(self, relpath, func, kind, node, src, setnames=(), localnames=(), defs=None, helpers=None):
        self.relpath, self.func, self.kind = relpath, func, kind
        # second normal form: single-assignment locals replaced by their defining expression and calls of inlinable private helpers by
        # the helper's result expression, THEN the alpha-renaming -- insensitive to naming / un-naming a sub-expression and to moving a
        # construction into a private helper: the same set-typed expression at the same position of the same consumer
        try:
            import copy
            n3 = _Subst(defs or {}, helpers or {}).visit(copy.deepcopy(node))
            ast.fix_missing_locations(n3)
            v3 = getattr(n3, 'value', None)
            if kind == 'escape' and isinstance(n3, ast.Return) and isinstance(v3, ast.Call) and not v3.keywords and _is_set_ctor(v3.func):
                a3 = _alpha(ast.Tuple(elts=list(v3.args), ctx=ast.Load()), setnames, localnames)
                self.norm2 = ('return <new set of> ' + ', '.join(' '.join(ast.unparse(x).split()) for x in a3.elts))[:240]
            else:
                self.norm2 = ' '.join(ast.unparse(_alpha(n3, setnames, localnames)).split())[:240]
        except Exception:
            self.norm2 = None
        self.text = ' '.join((ast.get_source_segment(src, node) or ast.dump(node)).split())[:160]
        # normal form: the same expression with every local name replaced by its ROLE and its order of first occurrence -- `S0, S1..`
        # for set-typed locals, `v0, v1..` for the other locals and parameters (an alpha-renaming that keeps the kind of each name);
        # callees, attributes, globals and literals stay.  Two sites with the same normal form are the same syntactic situation
        # (which set-typed value reaches which position of which consumer), whatever the locals are called.
        import copy
        n2 = copy.deepcopy(node)
        ren = {}
        names = sorted((x for x in ast.walk(n2) if isinstance(x, ast.Name)), key=lambda x: (x.lineno, x.col_offset))
        for x in names:
            if x.id in setnames or x.id in localnames:
                kind_ = 'S' if x.id in setnames else 'v'
                if x.id not in ren:
                    ren[x.id] = '%s%d' % (kind_, sum(1 for r in ren.values() if r[0] == kind_))
        for x in names:
            x.id = ren.get(x.id, x.id)
        try:
            self.norm = ' '.join(ast.unparse(n2).split())[:160]
        except Exception:
            self.norm = self.text
        v = getattr(node, 'value', None)
        if kind == 'escape' and isinstance(node, ast.Return) and isinstance(v, ast.Call) and isinstance(v.func, ast.Name) and not v.keywords:
            # `return frozenset(X)` / `return set(X)` / `return cls(X)` with cls a local alias of a set constructor: one key for all
            # spellings -- what escapes is "a new set of the items of X"
            args = ', '.join(' '.join((ast.get_source_segment(src, a) or ast.dump(a)).split()) for a in v.args)
            self.text = self.norm = ('return <new set of> ' + args)[:160]

    def key(self):
        return '%s:%s:%s:%s' % (self.relpath, self.func, self.kind, self.text)

    def norm_key(self):
        return '%s:%s:%s:%s' % (self.relpath, self.func, self.kind, self.norm)

    def norm2_key(self):
        return None if self.norm2 is None else '%s:%s:%s:%s' % (self.relpath, self.func, self.kind, self.norm2)

    def __repr__(self):
        return self.key()


class FuncScan(ast.NodeVisitor):
    def __init__(self, relpath, qual, fn, src, sites, helpers=None):
        self.relpath, self.qual, self.src, self.sites = relpath, qual, src, sites
        self.helpers = helpers or {}          # inlinable private helpers of the module (Helper), by name
        self.defs = single_assignments(fn)
        self.setnames = set()
        # local aliases of the set constructors: `cls = frozenset if as_set else tuple` -> cls(...) may build a set
        self.ctor_aliases = set()
        for node in ast.walk(fn):
            if isinstance(node, ast.Assign) and len(node.targets) == 1 and isinstance(node.targets[0], ast.Name):
                cands = [node.value.body, node.value.orelse] if isinstance(node.value, ast.IfExp) else [node.value]
                if any(isinstance(c, ast.Name) and c.id in SET_CALLS for c in cands):
                    self.ctor_aliases.add(node.targets[0].id)
        # two passes so that names assigned later in loops are known
        for _ in range(2):
            for node in ast.walk(fn):
                if isinstance(node, ast.Assign) and self.is_set(node.value):
                    for t in node.targets:
                        if isinstance(t, ast.Name):
                            self.setnames.add(t.id)
                if isinstance(node, ast.AugAssign) and isinstance(node.target, ast.Name) and self.is_set(node.value) \
                        and isinstance(node.op, (ast.BitOr, ast.BitAnd, ast.Sub, ast.BitXor)) and node.target.id in self.setnames:
                    pass
        self.fn = fn

    def is_set(self, e):
        if isinstance(e, (ast.Set, ast.SetComp)):
            return True
        if isinstance(e, ast.Call):
            if isinstance(e.func, ast.Name) and (e.func.id in SET_CALLS or e.func.id in self.ctor_aliases):
                return True
            if isinstance(e.func, ast.IfExp) and _is_set_ctor(e.func):
                return True           # (frozenset if c else tuple)(...): may build a set
            if isinstance(e.func, ast.Attribute) and e.func.attr in SETLIKE_RESULT_METHODS and self.is_set(e.func.value):
                return True
            if isinstance(e.func, ast.Name) and e.func.id in self.helpers and self.helpers[e.func.id].returns_set:
                return True           # the call of an inlinable private helper whose result expression is set-typed
        if isinstance(e, ast.Name) and e.id in self.setnames:
            return True
        if isinstance(e, ast.Attribute) and e.attr in SET_ATTRS:
            return True
        if isinstance(e, ast.BinOp) and isinstance(e.op, (ast.BitOr, ast.BitAnd, ast.Sub, ast.BitXor)) \
                and (self.is_set(e.left) or self.is_set(e.right)):
            # a set operator: set-typed if either side is a builtin set (for tools.Unique the mixin result is a Unique -- ordered)
            return self.is_set(e.left) and self.is_set(e.right) or (self.is_set(e.left) and not isinstance(e.right, ast.Attribute))
        if isinstance(e, ast.IfExp):
            return self.is_set(e.body) or self.is_set(e.orelse)
        return False

    def report(self, kind, node):
        fn = self.fn
        local = set()
        if isinstance(fn, (ast.FunctionDef, ast.AsyncFunctionDef)):
            a = fn.args
            local |= {x.arg for x in a.posonlyargs + a.args + a.kwonlyargs} | {x.arg for x in (a.vararg, a.kwarg) if x is not None}
        for n in ast.walk(fn):
            if isinstance(n, ast.Name) and isinstance(n.ctx, (ast.Store, ast.Del)):
                local.add(n.id)
        self.sites.append(Site(self.relpath, self.qual, kind, node, self.src, setnames=self.setnames, localnames=local,
                               defs=self.defs, helpers=self.helpers))

    def scan(self):
        fn = self.fn
        parents = {}
        for p in ast.walk(fn):
            for c in ast.iter_child_nodes(p):
                parents[id(c)] = p
        nested = set()
        for node in ast.walk(fn):
            if isinstance(node, (ast.FunctionDef, ast.AsyncFunctionDef)) and node is not fn:
                for d in ast.walk(node):
                    nested.add(id(d))
        for node in ast.walk(fn):
            if id(node) in nested:
                continue
            if isinstance(node, ast.For) and self.is_set(node.iter):
                self.report('iterate', node.iter)
            if isinstance(node, (ast.ListComp, ast.GeneratorExp, ast.DictComp, ast.SetComp)):
                for g in node.generators:
                    if self.is_set(g.iter):
                        par = parents.get(id(node))
                        insensitive = isinstance(node, ast.SetComp) or (
                            isinstance(par, ast.Call) and isinstance(par.func, ast.Name) and par.func.id in INSENSITIVE_CALLS) or (
                            isinstance(par, ast.Call) and isinstance(par.func, ast.Attribute) and par.func.attr in INSENSITIVE_METHODS)
                        if not insensitive:
                            self.report('iterate', g.iter)
            if isinstance(node, ast.Call):
                fname = node.func.id if isinstance(node.func, ast.Name) else (node.func.attr if isinstance(node.func, ast.Attribute) else None)
                args = list(node.args) + [k.value for k in node.keywords]
                for a in args:
                    if isinstance(a, ast.Starred):
                        a = a.value
                    if not self.is_set(a):
                        continue
                    if isinstance(node.func, ast.Name) and fname in INSENSITIVE_CALLS:
                        continue
                    if isinstance(node.func, ast.Attribute) and fname in INSENSITIVE_METHODS and self.is_set(node.func.value):
                        continue
                    if fname in ORDERED_CONVERSIONS:
                        self.report('convert', node)
                    elif fname in RENDER_CALLS or fname == 'join':
                        self.report('render', node)
                    elif isinstance(node.func, ast.Attribute) and fname in ('update', 'extend', '__ior__') and not self.is_set(node.func.value):
                        self.report('merge', node)
                    elif isinstance(node.func, ast.Attribute) and fname in INSENSITIVE_METHODS:
                        continue
                    else:
                        self.report('escape', node)
                if isinstance(node.func, ast.Attribute) and node.func.attr == 'pop' and self.is_set(node.func.value):
                    self.report('convert', node)
            if isinstance(node, ast.FormattedValue) and self.is_set(node.value):
                self.report('render', node)
            if isinstance(node, ast.BinOp) and isinstance(node.op, ast.Mod) and (self.is_set(node.right) or (
                    isinstance(node.right, ast.Tuple) and any(self.is_set(x) for x in node.right.elts))):
                self.report('render', node)
            if isinstance(node, ast.AugAssign) and isinstance(node.op, ast.BitOr) and self.is_set(node.value) and not self.is_set(node.target):
                self.report('merge', node)
            if isinstance(node, (ast.Return, ast.Yield)) and node.value is not None and self.is_set(node.value):
                h = self.helpers.get(getattr(fn, 'name', None))
                if h is not None and h.fn is fn and isinstance(node, ast.Return) and h.returns_set:
                    # the result of an inlinable private helper leaves through its callers, where the call expression is set-typed
                    # (returns_set): the site is theirs (Helper) -- never dropped unless the callers see a set
                    continue
                self.report('escape', node)
            if isinstance(node, ast.Assign) and self.is_set(node.value):
                for t in node.targets:
                    if isinstance(t, ast.Attribute) and t.attr not in SET_ATTRS:
                        self.report('escape', node)
            if isinstance(node, ast.Starred) and self.is_set(node.value):
                self.report('convert', node)


NONDET_CALLS = {'id', 'hash', 'object.__repr__', 'getpid', 'urandom', 'time', 'monotonic', 'perf_counter', 'now', 'today', 'uuid4', 'uuid1', 'random',
                'randint', 'choice', 'shuffle', 'sample', 'mkstemp', 'mkdtemp', 'gettempdir', 'getenv', 'getcwd', 'listdir', 'scandir', 'iglob', 'glob'}
NONDET_MODULES = {'random', 'time', 'uuid', 'secrets', 'datetime', 'tempfile'}


def scan_sources(rel, tree, src, sites):
    """Other sources of run-to-run variation than set order: object addresses and hashes, clocks, randomness, the environment.
    Every use is a site that must be on the allowlist with its justification (e.g. the address inside a repr is excepted by C17)."""
    for node in ast.walk(tree):
        if isinstance(node, (ast.Import, ast.ImportFrom)):
            names = [a.name.split('.')[0] for a in node.names] if isinstance(node, ast.Import) else [(node.module or '').split('.')[0]]
            for nm in names:
                if nm in NONDET_MODULES:
                    sites.append(Site(rel, '<module>', 'nondet-import', node, src))
        if isinstance(node, ast.Call):
            f = node.func
            nm = f.id if isinstance(f, ast.Name) else (f.attr if isinstance(f, ast.Attribute) else None)
            if nm in NONDET_CALLS and not (isinstance(f, ast.Attribute) and nm in ('time', 'random', 'choice', 'sample', 'now', 'today', 'glob')
                                           and not isinstance(f.value, ast.Name)):
                sites.append(Site(rel, '<call>', 'nondet-source', node, src))
        if isinstance(node, ast.Attribute) and node.attr == 'environ':
            sites.append(Site(rel, '<attr>', 'nondet-source', node, src))


def find_helpers(trees):
    """{relpath: {name: Helper}}: the private module-level functions of the straight-line shape (Helper) that are referenced nowhere in
    the package except as the callee of direct calls in their own module"""
    cands = {}
    for rel, tree in trees.items():
        for st in tree.body:
            if isinstance(st, ast.FunctionDef):
                h = Helper(st)
                if h.ok and sum(1 for x in tree.body if isinstance(x, (ast.FunctionDef, ast.ClassDef)) and x.name == st.name) == 1:
                    cands.setdefault(rel, {})[st.name] = h
    names = {nm for d in cands.values() for nm in d}
    if not names:
        return {}
    bad = set()
    for rel, tree in trees.items():
        callee = {id(n.func) for n in ast.walk(tree) if isinstance(n, ast.Call)}
        for n in ast.walk(tree):
            if isinstance(n, ast.Name) and n.id in names:
                if not (id(n) in callee and isinstance(n.ctx, ast.Load) and n.id in cands.get(rel, {})):
                    bad.add(n.id)
            elif isinstance(n, ast.Attribute) and n.attr in names:
                bad.add(n.attr)
            elif isinstance(n, (ast.Import, ast.ImportFrom)):
                bad.update(al.name.split('.')[-1] for al in n.names if al.name.split('.')[-1] in names)
                bad.update(al.asname for al in n.names if al.asname in names)
            elif isinstance(n, ast.Constant) and isinstance(n.value, str) and n.value in names:
                bad.add(n.value)
            elif isinstance(n, (ast.Global, ast.Nonlocal)):
                bad.update(x for x in n.names if x in names)
            elif isinstance(n, ast.arg) and n.arg in names:
                bad.add(n.arg)
    out = {}
    for rel, d in cands.items():
        keep = {nm: h for nm, h in d.items() if nm not in bad}
        for nm, h in keep.items():
            # is the result expression set-typed? (judged in the helper's own text, its parameters being no sets)
            h.returns_set = FuncScan(rel, nm, h.fn, '', [], helpers={k: v for k, v in keep.items() if k != nm}).is_set(h.result)
        if keep:
            out[rel] = keep
    return out


def only_called(owner, nested):
    """every reference to the nested function's name in the text of the enclosing function `owner` is the callee of a direct call
    (and the name is bound by that one definition only)"""
    name = nested.name
    callee = {id(n.func) for n in ast.walk(owner) if isinstance(n, ast.Call)}
    a = owner.args
    if name in {x.arg for x in a.posonlyargs + a.args + a.kwonlyargs} | {x.arg for x in (a.vararg, a.kwarg) if x is not None}:
        return False
    for n in ast.walk(owner):
        if isinstance(n, (ast.FunctionDef, ast.AsyncFunctionDef, ast.ClassDef)) and n is not nested and n is not owner and n.name == name:
            return False
        if isinstance(n, ast.Name) and n.id == name and not (isinstance(n.ctx, ast.Load) and id(n) in callee):
            return False
        if isinstance(n, (ast.Global, ast.Nonlocal)) and name in n.names:
            return False
        if isinstance(n, ast.arg) and n.arg == name:
            return False
    return True


def scan_repo(repo, overrides=None):
    """overrides: {relpath: source text} replaces files in memory (self-test of the scan only)"""
    sites = []
    files = []
    root = os.path.join(repo, 'concepts')
    for dp, dn, fns in os.walk(root):
        for f in sorted(fns):
            if f.endswith('.py'):
                files.append(os.path.join(dp, f))
    sources, trees = {}, {}
    for path in sorted(files):
        rel = os.path.relpath(path, repo)
        if overrides and rel in overrides:
            sources[rel] = overrides[rel]
        else:
            with open(path, encoding='utf-8') as fh:
                sources[rel] = fh.read()
        trees[rel] = ast.parse(sources[rel])
    helpers_of = find_helpers(trees)
    for path in sorted(files):
        rel = os.path.relpath(path, repo)
        src, tree = sources[rel], trees[rel]
        helpers = helpers_of.get(rel, {})

        def walk(node, prefix, owner=None, owner_q=None):
            for child in ast.iter_child_nodes(node):
                if isinstance(child, (ast.FunctionDef, ast.AsyncFunctionDef)):
                    q = prefix + child.name
                    # a nested function that its enclosing function only CALLS (never returns, stores or hands on) runs as part of that
                    # function and nowhere else: its sites are sites of the enclosing function
                    site_q = owner_q if owner is not None and only_called(owner, child) else q
                    FuncScan(rel, site_q, child, src, sites, helpers).scan()
                    walk(child, q + '.<locals>.', child, site_q)
                elif isinstance(child, ast.ClassDef):
                    walk(child, prefix + child.name + '.')
                elif isinstance(child, (ast.If, ast.Try, ast.With, ast.For, ast.While)):
                    walk(child, prefix, owner, owner_q)
        walk(tree, '')
        # module level statements as pseudo function
        mod = ast.Module(body=[s for s in tree.body if not isinstance(s, (ast.FunctionDef, ast.ClassDef))], type_ignores=[])
        FuncScan(rel, '<module>', mod, src, sites, helpers).scan()
        scan_sources(rel, tree, src, sites)
    return sites, len(files)


# ---------------------------------------------------------------------------------------------
# self-test of the scan: variants of the real source (in memory) with the verdict the allowlist must give
#   'quiet'     every site of the variant is accepted (by its text or one of its normal forms)
#   'reported'  at least one site of the variant is on no list -- an ungenerated `order-indep` obligation

_DF, _CM, _LT = 'concepts/definitions.py', 'concepts/_common.py', 'concepts/lattices.py'
_INV_OLD = ("        pairs = self._pairs\n        return self._fromargs(self._objects.copy(), self._properties.copy(),\n"
            "                              {(o, p) for o in self._objects for p in self._properties\n"
            "                               if (o, p) not in pairs})\n")


def _inv(objects="self._objects.copy()", properties="self._properties.copy()", cond="(o, p) not in pairs", between="",
         ret="self._fromargs(objects, properties, inverted_pairs)"):
    """TransformableMixin.inverted with its three arguments named first (seeded/refactorings/R20-R5.diff)"""
    return ("        pairs = self._pairs\n        objects = %s\n        properties = %s\n"
            "        inverted_pairs = {(o, p) for o in self._objects for p in self._properties\n                          if %s}\n%s"
            "        return %s\n" % (objects, properties, cond, between, ret))


_IDX_OLD = ("    def extent_index_set(self, *, as_set: bool = False):\n        cls = frozenset if as_set else tuple\n"
            "        return cls(self.extent.iter_set())\n\n    def intent_index_set(self, *, as_set: bool = False):\n"
            "        cls = frozenset if as_set else tuple\n        return cls(self.intent.iter_set())\n")
_IDX_HELPER = ("def _index_set(vector, *, as_set: bool):\n    cls = frozenset if as_set else tuple\n    return cls(vector.iter_set())\n\n\n")


def _idx(helper=_IDX_HELPER, name='_index_set', ext="return _index_set(self.extent, as_set=as_set)",
         int_="return _index_set(self.intent, as_set=as_set)", extra=""):
    """_common.py with the construction of the index tuple / frozenset in a module-level helper (seeded/refactorings/R19-R2.diff);
    the helper is put in front of `class Concept`"""
    body = ("    def extent_index_set(self, *, as_set: bool = False):\n        %s\n\n"
            "    def intent_index_set(self, *, as_set: bool = False):\n        %s\n" % (ext, int_))
    import re
    ren = lambda t: re.sub(r'(?<![A-Za-z])_index_set\(', name + '(', t)
    return ren(helper), ren(body), extra


_ANN_OLD = ("        touched = set()\n        for o in context.objects:\n            extent = context.extension(context.intension([o]), raw=True)\n"
            "            c = mapping[extent]\n            if c.objects:\n                c.objects.append(o)\n            else:\n"
            "                c.objects = [o]\n                touched.add(c)\n\n        for c in touched:\n            c.objects = tuple(c.objects)\n\n"
            "        touched = set()\n        for p in context.properties:\n            extent = context.extension([p], raw=True)\n"
            "            c = mapping[extent]\n            if c.properties:\n                c.properties.append(p)\n            else:\n"
            "                c.properties = [p]\n                touched.add(c)\n\n        for c in touched:\n            c.properties = tuple(c.properties)\n")


def _ann(tail=""):
    """Data._annotate with the two passes as two calls of one nested function (seeded/refactorings/R17-R1.diff)"""
    return ("        def annotate(attname, labels, get_extent):\n            touched = set()\n            for label in labels:\n"
            "                c = mapping[get_extent(label)]\n                if getattr(c, attname):\n                    getattr(c, attname).append(label)\n"
            "                else:\n                    setattr(c, attname, [label])\n                    touched.add(c)\n"
            "            for c in touched:\n                setattr(c, attname, tuple(getattr(c, attname)))\n"
            "        annotate('objects', context.objects,\n                 lambda o: context.extension(context.intension([o]), raw=True))\n"
            "        annotate('properties', context.properties,\n                 lambda p: context.extension([p], raw=True))\n" + tail)


def _variants():
    out = [
        # naming / un-naming a sub-expression (R20-R5): the same set expression at the same position of the same consumer
        (_DF, [(_INV_OLD, _inv())], 'quiet'),
        (_DF, [(_INV_OLD, _INV_OLD.replace("        pairs = self._pairs\n", "").replace("not in pairs", "not in self._pairs"))], 'quiet'),
        (_DF, [(_INV_OLD, _inv(ret="self._fromargs(properties, objects, inverted_pairs)"))], 'reported'),          # swapped positions
        (_DF, [(_INV_OLD, _inv(ret="self._fromargs(inverted_pairs, properties, objects)"))], 'reported'),          # the set at another position
        (_DF, [(_INV_OLD, _inv(ret="self._fromother(objects, properties, inverted_pairs)"))], 'reported'),         # another consumer
        (_DF, [(_INV_OLD, _inv(ret="self._fromargs(objects, properties, list(inverted_pairs))"))], 'reported'),    # converted on the way
        (_DF, [(_INV_OLD, _inv(cond="(o, p) in pairs"))], 'reported'),                                             # another set expression
        (_DF, [(_INV_OLD, _inv(objects="self._properties.copy()"))], 'reported'),                                  # another expression under the name
        (_DF, [(_INV_OLD, _inv(between="        inverted_pairs.discard(None)\n"))], 'reported'),                   # the named set is touched before it is passed
        (_DF, [(_INV_OLD, _inv(between="        for pair in inverted_pairs:\n            print(pair)\n"))], 'reported'),      # ... or iterated
        (_DF, [(_INV_OLD, _inv(between="        inverted_pairs = set(inverted_pairs)\n"))], 'reported'),           # bound twice: not the defining expression
    ]
    # a construction moved into a private helper that is only called from its own module (R19-R2): the site is the caller's
    def idx(expect, marker="class Concept(typing.NamedTuple):", **kw):
        helper, body, extra = _idx(**kw)
        return (_CM, [(_IDX_OLD, body), (marker, helper + marker), ("class ConceptList(list):", extra + "class ConceptList(list):")], expect)
    out += [
        idx('quiet'),
        idx('reported', ext="return _index_set(self.intent, as_set=as_set)"),                      # another vector leaves through this function
        idx('reported', helper=_IDX_HELPER.replace("cls(vector.iter_set())", "cls(vector)")),      # the helper builds the set from something else
        idx('reported', ext="return list(_index_set(self.extent, as_set=as_set))"),                # the caller converts the result
        idx('reported', ext="return sorted(_index_set(self.extent, as_set=as_set))"),
        idx('reported', name='index_set'),                                                         # a public helper: anyone may call it
        idx('reported', extra="index_set_of = _index_set\n\n\n"),                                  # the helper is handed on: not only called
        idx('reported', helper=_IDX_HELPER.replace("    return cls(vector.iter_set())", "    if as_set:\n        return set(vector.iter_set())\n    return cls(vector.iter_set())")),
    ]
    # sites inside a nested function that its enclosing function only calls (R17-R1) are sites of the enclosing function
    out += [
        (_LT, [(_ANN_OLD, _ann())], 'quiet'),
        (_LT, [(_ANN_OLD, _ann(tail="        return annotate\n"))], 'reported'),                   # the nested function escapes
        (_LT, [(_ANN_OLD, _ann(tail="        context.hook = annotate\n"))], 'reported'),
        (_LT, [(_ANN_OLD, _ann().replace("            for c in touched:\n", "            for c in list(touched):\n"))], 'reported'),
    ]
    return out


def selftest(repo='/repo', verbose=False):
    """-> (number of variants that applied, [wrong verdicts])"""
    import json
    with open(os.path.join(os.path.dirname(os.path.dirname(os.path.abspath(__file__))), 'checks', 'order_sites.json')) as fh:
        listed = json.load(fh)['sites']
    A, N1, N2 = {x['site'] for x in listed}, {x.get('norm') for x in listed}, {x.get('norm2') for x in listed}
    n, wrong = 0, []
    for rel, edits, expect in _variants():
        with open(os.path.join(repo, rel), encoding='utf-8') as fh:
            src = fh.read()
        if any(src.count(old) != 1 for old, _ in edits):
            continue                   # the source has changed: the variant does not apply
        for old, new in edits:
            src = src.replace(old, new, 1)
        n += 1
        try:
            sites, _ = scan_repo(repo, overrides={rel: src})
        except SyntaxError as e:
            wrong.append(('variant does not parse', rel, str(e)))
            continue
        rep = [s_.key() for s_ in sites if not (s_.key() in A or s_.norm_key() in N1 or s_.norm2_key() in N2)]
        ok = bool(rep) == (expect == 'reported')
        if verbose:
            print('%-6s %-8s %s %s' % ('ok' if ok else 'WRONG', expect, edits[0][1][:70].replace('\n', ' '), rep[:1]))
        if not ok:
            wrong.append((expect, rel, edits[0][1][:80], rep[:2]))
    return n, wrong


if __name__ == '__main__':
    import sys
    if len(sys.argv) > 1 and sys.argv[1] == '--selftest':
        n_, wrong_ = selftest(sys.argv[2] if len(sys.argv) > 2 else '/repo', verbose=True)
        print(n_, 'scan variants;', len(wrong_), 'wrong')
        sys.exit(1 if wrong_ else 0)
    if len(sys.argv) > 1 and sys.argv[1] == '--write-norms':
        # maintainer only, on the UNCHANGED tree: record the normal form of every allowlisted site next to its text
        import json
        p = os.path.join(os.path.dirname(os.path.dirname(os.path.abspath(__file__))), 'checks', 'order_sites.json')
        with open(p) as fh:
            doc = json.load(fh)
        sites, n = scan_repo(sys.argv[2] if len(sys.argv) > 2 else '/repo')
        norms, norms2 = {}, {}
        for s in sites:
            norms.setdefault(s.key(), s.norm_key())
            norms2.setdefault(s.key(), s.norm2_key())
        for entry in doc['sites']:
            if entry['site'] in norms:
                entry['norm'] = norms[entry['site']]
                if norms2[entry['site']]:
                    entry['norm2'] = norms2[entry['site']]
        with open(p, 'w') as fh:
            json.dump(doc, fh, indent=1)
            fh.write('\n')
        print(sum(1 for e in doc['sites'] if 'norm' in e), 'of', len(doc['sites']), 'allowlisted sites have a normal form')
        sys.exit(0)
    sites, n = scan_repo(sys.argv[1] if len(sys.argv) > 1 else '/repo')
    for s in sites:
        print(s.key(), '  ~  ', s.norm)
    print(len(sites), 'sites in', n, 'files')
