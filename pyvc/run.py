"""Run proof units: regenerate every VC from the current tree, discharge, probe for vacuity."""
import json
import multiprocessing as mp
import os
import sys
import time
import traceback

import z3

from . import engine, extract, solve


def run_unit(uid, overrides=None):
    """Executed in a worker process.  Returns a JSON-able dict."""
    from contracts import registry
    registry.load_all()
    u = registry.UNITS[uid]
    t0 = time.time()
    res = {'unit': uid, 'relpath': u.relpath, 'qualname': u.qualname, 'vcs': [], 'errors': [], 'probes': [],
           'assumptions': u.assumptions}
    if overrides:
        extract.OVERRIDES.update(overrides)
    if u.relpath is None:
        try:
            axioms, prove = u.make()
            eng = engine.Engine(uid, axioms)
            for vc in eng.run_lemma(prove):
                solve.discharge(vc, axioms)
                res['vcs'].append({'name': vc.name, 'kind': vc.kind, 'path': vc.decisions, 'status': vc.status,
                                   'backend': vc.backend, 'seconds': vc.seconds,
                                   'detail': vc.detail if vc.status != 'discharged' else ''})
            s = z3.Solver()
            s.set('auto_config', False)
            s.set('smt.mbqi', False)
            s.set('timeout', 3000)
            for _, a in axioms:
                s.add(a)
            for f in getattr(eng, 'lemma_pc', []):
                s.add(f)
            res['probes'].append({'probe': 'axioms+lemma-context-not-refuted', 'ok': str(s.check()) != 'unsat'})
        except Exception:
            res['errors'].append('engine crash: ' + traceback.format_exc()[-2000:])
            res['crash'] = True
        res['wall_s'] = round(time.time() - t0, 3)
        return res
    try:
        x = extract.get_function(u.relpath, u.qualname)
    except extract.ExtractionError as e:
        res['errors'].append('ungenerated: %s' % e)
        res['wall_s'] = round(time.time() - t0, 3)
        return res
    res['function'] = x.info()
    try:
        axioms, harness = u.make()
        eng = engine.Engine(uid, axioms)
        # wrap harness so that every completed path ends with a vacuity probe, and the precondition gets one
        probes = []

        def h2(path):
            env, loops, finish = harness(path)
            probes.append(('pre', list(path.pc)))

            def f2(path, env, outcome):
                finish(path, env, outcome)
                probes.append(('end%s' % path.decisions[:path.pos], list(path.pc)))
            return env, loops, f2
        vcs = eng.run(x, h2, max_paths=u.max_paths)
        res['errors'].extend(eng.errors)
        res['paths'] = eng.paths
        if eng.inlined_helpers:
            res['inlined_helpers'] = sorted(eng.inlined_helpers)
        for vc in vcs:
            solve.discharge(vc, axioms)
            res['vcs'].append({'name': vc.name, 'kind': vc.kind, 'path': vc.decisions, 'status': vc.status,
                               'backend': vc.backend, 'seconds': vc.seconds,
                               'detail': vc.detail if vc.status != 'discharged' else ''})
            if vc.status != 'discharged' and len(res.get('smt2', [])) < 2:
                res.setdefault('smt2', []).append({'name': vc.name, 'text': solve.smt2_of(vc, axioms)[-6000:]})
        # vacuity: `false` must not be provable from the precondition, nor at the end of at least one path
        seen_pre = False
        live_end = 0
        for tag, pc in probes:
            if tag == 'pre' and seen_pre:
                continue
            s = z3.Solver()
            s.set('auto_config', False)
            s.set('smt.mbqi', False)
            s.set('timeout', 1500)
            for _, a in axioms:
                s.add(a)
            for f in pc:
                s.add(f)
            r = str(s.check())
            if tag == 'pre':
                seen_pre = True
                res['probes'].append({'probe': 'pre-reachable', 'ok': r != 'unsat', 'solver': r})
            elif r != 'unsat':
                live_end += 1
        res['probes'].append({'probe': 'some-path-end-reachable', 'ok': live_end > 0, 'count': live_end})
        # every executed loop body must end in a state that is not refutable (else its inv.preserve obligations are vacuous)
        dead = []
        for dec, pc in eng.body_ends:
            s = z3.Solver()
            s.set('auto_config', False)
            s.set('smt.mbqi', False)
            s.set('timeout', 1500)
            for _, a in axioms:
                s.add(a)
            for f in pc:
                s.add(f)
            if str(s.check()) == 'unsat':
                dead.append(dec)
        if eng.body_ends:
            res['probes'].append({'probe': 'loop-body-ends-reachable', 'ok': not dead, 'count': len(eng.body_ends) - len(dead),
                                  'dead': dead[:5]})
        if vcs:
            s = solve.smt2_of(vcs[-1], axioms)
            res['sample_smt2'] = {'name': vcs[-1].name, 'text': s[-3000:]}
    except Exception:
        res['errors'].append('engine crash: ' + traceback.format_exc()[-2000:])
        res['crash'] = True
    res['wall_s'] = round(time.time() - t0, 3)
    return res


def _worker(args):
    try:
        return run_unit(*args)
    except Exception:
        return {'unit': args[0], 'vcs': [], 'errors': ['worker crash: ' + traceback.format_exc()[-2000:]], 'crash': True,
                'probes': [], 'assumptions': []}


def run_units(uids, overrides=None, procs=None):
    procs = procs or min(len(uids), os.cpu_count() or 4) or 1
    if len(uids) == 1 or procs == 1:
        return [_worker((u, overrides)) for u in uids]
    ctx = mp.get_context('fork')
    # one fresh process per unit: the z3 context of a worker (AST numbering, hence solver heuristics) must not depend on which
    # units happened to run in it before, or a fragile obligation flips with every unit that is added to the registry
    with ctx.Pool(procs, maxtasksperchild=1) as pool:
        return pool.map(_worker, [(u, overrides) for u in uids], chunksize=1)


if __name__ == '__main__':
    sys.path.insert(0, os.path.dirname(os.path.dirname(os.path.abspath(__file__))))
    from contracts import registry
    registry.load_all()
    uids = sys.argv[1:] or sorted(registry.UNITS)
    for r in run_units(uids):
        bad = [v for v in r['vcs'] if v['status'] != 'discharged']
        print('%-40s vcs=%3d bad=%d errors=%s probes=%s %.1fs' % (r['unit'], len(r['vcs']), len(bad), r['errors'],
                                                                  [p['ok'] for p in r['probes']], r.get('wall_s', 0)))
        for v in bad:
            print('    ', v['name'], v['path'], v['detail'][:100])
