"""Extraction: the verified text is the code that runs.

Functions are located by qualified name in the files under $VERIF_REPO/concepts as they are in the
working tree *now*; the AST is interpreted directly (nothing is rewritten).  Dropped by the
extraction: docstrings, type annotations, decorators (binding rules are part of the engine),
comments.  For every function the file, line span and sha256 of the source segment are recorded.
"""
import ast
import hashlib
import os

REPO = os.environ.get('VERIF_REPO', '/repo')


class Extracted:
    def __init__(self, relpath, qualname, node, source, cls=None):
        self.relpath, self.qualname, self.node, self.source, self.cls = relpath, qualname, node, source, cls
        self.sha256 = hashlib.sha256(source.encode()).hexdigest()
        self.lines = (node.lineno, node.end_lineno)

    def info(self):
        return {'file': _abspath(self.relpath), 'qualname': self.qualname,
                'lines': list(self.lines), 'sha256': self.sha256}

    def body(self):
        """Function body without the docstring."""
        b = self.node.body
        if b and isinstance(b[0], ast.Expr) and isinstance(b[0].value, ast.Constant) and isinstance(b[0].value.value, str):
            return b[1:]
        return b


class ExtractionError(Exception):
    pass


class _Desugar(ast.NodeTransformer):
    """Mechanical, semantics-preserving normalisation applied to the extracted text before it is executed symbolically
    (stated in DESIGN 11.6):  `yield from (E for a in A for b in B if C)`  is executed as the nested loops
    `for a in A: for b in B: if C: yield E`  (a generator expression consumed at once by `yield from`);
    `for x in E: yield x`  is executed as  `yield from E`  (see visit_For)."""

    def __init__(self):
        self.functions = []

    def visit_FunctionDef(self, node):
        self.functions.append(node)
        try:
            self.generic_visit(node)
        finally:
            self.functions.pop()
        return node

    def visit_For(self, node):
        """`for x in E: yield x` (nothing else in the body, no else suite, `x` used nowhere else in the function) is executed as
        `yield from E`: the same items in the same order for every consumer that only iterates (no send / throw); the loop is a spelling
        of the delegation, not a loop of its own (it takes no loop clause and no ordinal)"""
        self.generic_visit(node)
        if node.orelse or not isinstance(node.target, ast.Name) or len(node.body) != 1 or not self.functions:
            return node
        b = node.body[0]
        if not (isinstance(b, ast.Expr) and isinstance(b.value, ast.Yield) and isinstance(b.value.value, ast.Name) and b.value.value.id == node.target.id):
            return node
        uses = sum(1 for n in ast.walk(self.functions[-1]) if isinstance(n, ast.Name) and n.id == node.target.id)
        if uses != 2:
            return node
        new = ast.Expr(value=ast.YieldFrom(value=node.iter))
        ast.copy_location(new, node)
        ast.fix_missing_locations(new)
        return new

    def visit_Expr(self, node):
        self.generic_visit(node)
        v = node.value
        if isinstance(v, ast.YieldFrom) and isinstance(v.value, ast.GeneratorExp) and not any(g.is_async for g in v.value.generators):
            ge = v.value
            body = [ast.Expr(value=ast.Yield(value=ge.elt))]
            for g in reversed(ge.generators):
                for c in reversed(g.ifs):
                    body = [ast.If(test=c, body=body, orelse=[])]
                body = [ast.For(target=g.target, iter=g.iter, body=body, orelse=[], type_comment=None)]
            new = body[0]
            ast.copy_location(new, node)
            ast.fix_missing_locations(new)
            return new
        return node


_cache = {}
OVERRIDES = {}      # relpath -> source text (in-memory mutants for the self-test of the generator only)


def _abspath(relpath):
    """'ABS:/path' names a file outside the repository (stdlib source of the interpreter that runs the library)."""
    return relpath[4:] if relpath.startswith('ABS:') else os.path.join(REPO, relpath)


def parse_file(relpath):
    path = _abspath(relpath)
    if relpath in OVERRIDES:
        src = OVERRIDES[relpath]
        key = ('override', path, hashlib.sha256(src.encode()).hexdigest())
        if key not in _cache:          # ONE tree per text: a helper found by two lookups must be the same node (engine.Expansion)
            _cache[key] = (src, ast.parse(src, filename=path))
        return _cache[key]
    key = (path, os.stat(path).st_mtime_ns)
    if key not in _cache:
        with open(path, encoding='utf-8') as f:
            src = f.read()
        _cache[key] = (src, ast.parse(src, filename=path))
    return _cache[key]


def get_function(relpath, qualname):
    """qualname e.g. 'Vectors._pair_with.<locals>.prime' or 'OrderableMixin.implies' or 'neighbors'."""
    try:
        src, tree = parse_file(relpath)
    except (OSError, SyntaxError) as e:
        raise ExtractionError('%s: %s' % (relpath, e))
    parts = [p for p in qualname.split('.') if p != '<locals>']
    node = tree
    cls = None
    enclosing = None
    for p in parts:
        enclosing = node if isinstance(node, ast.FunctionDef) else None      # the function a nested function is defined in
        found = None
        for child in _children(node):
            if isinstance(child, (ast.FunctionDef, ast.ClassDef)) and child.name == p:
                found = child
        if found is None:
            raise ExtractionError('%s: no %r (looking for %s)' % (relpath, p, qualname))
        if isinstance(found, ast.ClassDef):
            cls = found
        node = found
    if not isinstance(node, ast.FunctionDef):
        raise ExtractionError('%s: %s is not a function' % (relpath, qualname))
    if not getattr(node, '_desugared', False):
        _Desugar().visit(node)
        node._desugared = True
    x = Extracted(relpath, qualname, node, ast.get_source_segment(src, node), cls)
    x.enclosing = enclosing
    return x


def _children(node):
    """Direct statement children, looking through if/try/with blocks at the same nesting level."""
    for child in getattr(node, 'body', []):
        yield child
        if isinstance(child, (ast.If, ast.Try, ast.With, ast.For, ast.While)):
            yield from _children(child)
            for h in getattr(child, 'handlers', []):
                yield from _children(h)
            for c in getattr(child, 'orelse', []):
                yield c
            for c in getattr(child, 'finalbody', []):
                yield c


def class_attr_alias(relpath, clsname, attr):
    """For class-level aliases like `__le__ = implies` return the aliased name, else None."""
    src, tree = parse_file(relpath)
    for node in tree.body:
        if isinstance(node, ast.ClassDef) and node.name == clsname:
            for st in node.body:
                if isinstance(st, ast.Assign) and len(st.targets) == 1 and isinstance(st.targets[0], ast.Name) \
                        and st.targets[0].id == attr and isinstance(st.value, ast.Name):
                    return st.value.id
    return None


def module_assign(relpath, name):
    """The value expression of the module-level assignment `name = <expr>` (last one), as AST."""
    src, tree = parse_file(relpath)
    found = None
    for st in tree.body:
        if isinstance(st, ast.Assign) and len(st.targets) == 1 and isinstance(st.targets[0], ast.Name) and st.targets[0].id == name:
            found = st.value
    if found is None:
        raise ExtractionError('%s: no module-level assignment of %s' % (relpath, name))
    return found
